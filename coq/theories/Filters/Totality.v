(* C07: which partial operations the filter closures, the message renderer and the report builder perform on a captured
   node, and when they cannot panic.

   External facts (gogrep / go/ast, trusted): a capture is an ordinary node, an empty or non-empty gogrep.NodeSlice, or a
   typed nil pointer (a missing *ast.FieldList); Pos()/End() of an empty slice index element 0, of a typed nil pointer
   dereference it; gogrep.Walk over a typed nil pointer dereferences it; types.Sizes.Sizeof asserts on untyped types;
   calling a method on a nil types.Object dereferences it.

   The per-closure access profile [access_info] is regenerated from filters.go by go2coq filtertotal. *)
From Coq Require Import List Bool String Lia.
From RG.Base Require Import Outcome.
Import ListNotations.
Local Open Scope string_scope.

Inductive cshape :=
| ShNode                 (* an ordinary non-nil node: expression, statement, field list, ... *)
| ShList (n : nat)       (* gogrep.NodeSlice with n elements *)
| ShTypedNil.            (* typed nil pointer *)

Definition absent (s : cshape) : bool :=
  match s with ShList O | ShTypedNil => true | _ => false end.

(* Pos() / End() *)
Definition node_pos (s : cshape) : outcome unit :=
  match s with
  | ShNode | ShList (S _) => Ok tt
  | ShList O => Panic PIndex
  | ShTypedNil => Panic PNilDeref
  end.

(* gogrep.Walk *)
Definition node_walk (s : cshape) : outcome unit :=
  match s with ShTypedNil => Panic PNilDeref | _ => Ok tt end.

(* rulesRunner.nodeText: reads Pos()/End() unless it returns early for absent nodes *)
Definition node_text (guarded : bool) (s : cshape) : outcome unit :=
  if guarded && absent s then Ok tt
  else match s with ShList O => Ok tt (* IsEmptyNodeSlice was always checked *) | _ => node_pos s end.

Record access_info := {
  ac_pos : bool; ac_pos_guarded : bool;
  ac_text : bool;
  ac_walk : bool; ac_walk_guarded : bool;
  ac_sizeof : bool; ac_sizeof_guarded : bool;
  ac_objderef : bool; ac_objderef_guarded : bool
}.

(* what the type / object side of a capture can be *)
Record tfacts := { tf_untyped : bool; tf_obj_nil : bool }.

Definition seq (a b : outcome unit) : outcome unit := bind a (fun _ => b).

(* one evaluation of a closure with access profile ac on a capture of shape s whose type/object facts are tf;
   a guard makes the closure return (reject) before the partial operation *)
Definition closure_run (ac : access_info) (text_guarded : bool) (s : cshape) (tf : tfacts) : outcome unit :=
  seq (if ac_pos ac then (if ac_pos_guarded ac && absent s then Ok tt else node_pos s) else Ok tt)
 (seq (if ac_text ac then node_text text_guarded s else Ok tt)
 (seq (if ac_walk ac then (if ac_walk_guarded ac && absent s then Ok tt else node_walk s) else Ok tt)
 (seq (if ac_sizeof ac then (if ac_sizeof_guarded ac then Ok tt else if tf_untyped tf then Panic PExplicit else Ok tt) else Ok tt)
      (if ac_objderef ac then (if ac_objderef_guarded ac then Ok tt else if tf_obj_nil tf then Panic PNilDeref else Ok tt) else Ok tt)))).

Definition access_safe (text_guarded : bool) (ac : access_info) : bool :=
  implb (ac_pos ac) (ac_pos_guarded ac) && implb (ac_text ac) text_guarded && implb (ac_walk ac) (ac_walk_guarded ac)
  && implb (ac_sizeof ac) (ac_sizeof_guarded ac) && implb (ac_objderef ac) (ac_objderef_guarded ac).

Lemma guarded_pos s : (if absent s then Ok tt else node_pos s) = Ok tt.
Proof. destruct s as [|[|n]|]; reflexivity. Qed.
Lemma guarded_walk s : (if absent s then Ok tt else node_walk s) = Ok tt.
Proof. destruct s as [|[|n]|]; reflexivity. Qed.
Lemma guarded_text s : node_text true s = Ok tt.
Proof. destruct s as [|[|n]|]; reflexivity. Qed.

(* every closure whose partial operations are all guarded runs to a verdict on EVERY capture shape and EVERY type/object fact *)
Lemma step_pos (u g : bool) s : implb u g = true ->
  (if u then (if g && absent s then Ok tt else node_pos s) else Ok tt) = Ok tt.
Proof. destruct u, g; cbn; try discriminate; intros _; try reflexivity. apply guarded_pos. Qed.
Lemma step_text (u tg : bool) s : implb u tg = true -> (if u then node_text tg s else Ok tt) = Ok tt.
Proof. destruct u, tg; cbn [implb]; try discriminate; intros _; try reflexivity. apply guarded_text. Qed.
Lemma step_walk (u g : bool) s : implb u g = true ->
  (if u then (if g && absent s then Ok tt else node_walk s) else Ok tt) = Ok tt.
Proof. destruct u, g; cbn; try discriminate; intros _; try reflexivity. apply guarded_walk. Qed.
Lemma step_flag (u g c : bool) w : implb u g = true ->
  (if u then (if g then Ok tt else if c then Panic w else Ok tt) else Ok tt) = Ok tt.
Proof. destruct u, g; cbn; try discriminate; reflexivity. Qed.

Theorem filters_total ac tg s tf : access_safe tg ac = true -> closure_run ac tg s tf = Ok tt.
Proof.
  unfold access_safe, closure_run. rewrite !andb_true_iff. intros ((((H1 & H2) & H3) & H4) & H5).
  rewrite (step_pos _ _ s H1), (step_text _ _ s H2), (step_walk _ _ s H3), (step_flag _ _ _ _ H4), (step_flag _ _ _ _ H5).
  reflexivity.
Qed.

(* ... and an unguarded use has a crashing capture: the guards are necessary *)
Theorem unguarded_pos_crashes ac tg tf : ac_pos ac = true -> ac_pos_guarded ac = false ->
  closure_run ac tg (ShList 0) tf = Panic PIndex /\ closure_run ac tg ShTypedNil tf = Panic PNilDeref.
Proof. intros H1 H2. unfold closure_run. rewrite H1, H2. split; reflexivity. Qed.

Theorem unguarded_text_crashes ac tf : ac_pos ac = false -> ac_text ac = true ->
  closure_run ac false ShTypedNil tf = Panic PNilDeref.
Proof. intros H1 H2. unfold closure_run. rewrite H1, H2. reflexivity. Qed.

(* ------------------------------------------------------------------ rendering *)
(* renderMessage interpolates a capture: typed nil captures are dropped first (when the renderer does so), the others
   are read through nodeText *)
Definition render_capture (skips_typed_nil text_guarded : bool) (s : cshape) : outcome unit :=
  match s with
  | ShTypedNil => if skips_typed_nil then Ok tt else node_text text_guarded s
  | _ => node_text text_guarded s
  end.

Theorem render_total skips tg s : skips || tg = true -> render_capture skips tg s = Ok tt.
Proof.
  intros H. destruct s as [|[|n]|]; cbn; try (destruct tg; reflexivity).
  destruct skips; [reflexivity|]. cbn in H. subst tg. reflexivity.
Qed.

(* ------------------------------------------------------------------ the report *)
(* handleMatch: the report node is the match, or the At() capture (when guarded: only if it is not absent) *)
Definition report_node (guarded : bool) (root : cshape) (loc : option cshape) : cshape :=
  match loc with
  | None => root
  | Some l => if guarded then (if absent l then root else l) else l
  end.

(* the match root is a node gogrep matched (never absent); then so is the report node, its Pos()/End() are defined,
   and the suggestion (taken from the same node) has the same range *)
Theorem report_wellformed root loc : absent root = false ->
  absent (report_node true root loc) = false /\ node_pos (report_node true root loc) = Ok tt.
Proof.
  intros Hr. destruct loc as [l|]; cbn [report_node].
  - destruct (absent l) eqn:Hl.
    + split; [exact Hr|]. destruct root as [|[|n]|]; try discriminate; reflexivity.
    + split; [exact Hl|]. destruct l as [|[|n]|]; try discriminate; reflexivity.
  - split; [exact Hr|]. destruct root as [|[|n]|]; try discriminate; reflexivity.
Qed.

Theorem report_unguarded_location_malformed root :
  node_pos (report_node false root (Some (ShList 0))) = Panic PIndex /\
  node_pos (report_node false root (Some ShTypedNil)) = Panic PNilDeref.
Proof. split; reflexivity. Qed.

(* positions: a non-absent node of a parsed file lies inside the file (go/parser, trusted) *)
Section Positions.
  Variable file_len : nat.
  Variable pos end_ : cshape -> nat.    (* byte offsets of Pos() / End() of the captured / matched nodes *)
  Hypothesis parser_ranges : forall s, absent s = false -> pos s <= end_ s <= file_len.

  Theorem report_positions_inside_file root loc : absent root = false ->
    pos (report_node true root loc) <= end_ (report_node true root loc) <= file_len.
  Proof. intros Hr. apply parser_ranges. now apply report_wellformed. Qed.
End Positions.
