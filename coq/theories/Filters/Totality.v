(* C07: which partial operations the filter closures, the message renderer and the report builder perform on a captured
   node, and when they cannot panic.

   External facts (gogrep / go/ast, trusted): a capture is an ordinary node, an empty or non-empty gogrep.NodeSlice, a
   typed nil pointer (a missing *ast.FieldList) or no node at all (a nil ast.Node: `switch $*x { ... }` on a switch without
   init statement and tag); Pos()/End() of an empty slice index element 0, of a typed nil pointer or a nil interface
   dereference it; reflect.ValueOf(n).IsNil() panics on the nil interface; gogrep.Walk over a typed nil pointer dereferences it; types.Sizes.Sizeof asserts on untyped types;
   calling a method on a nil types.Object dereferences it.

   The per-closure access profile [access_info] is regenerated from filters.go by go2coq filtertotal. *)
From Coq Require Import List Bool String Lia.
From RG.Base Require Import Outcome.
From RG.Filters Require Import FilterIR.
Import ListNotations.
Local Open Scope string_scope.

Inductive cshape :=
| ShNode                 (* an ordinary non-nil node: expression, statement, field list, ... *)
| ShList (n : nat)       (* gogrep.NodeSlice with n elements *)
| ShTypedNil             (* typed nil pointer *)
| ShNilIface.            (* nil interface: no node at all *)

Definition absent (s : cshape) : bool :=
  match s with ShList O | ShTypedNil | ShNilIface => true | _ => false end.

(* Pos() / End() *)
Definition node_pos (s : cshape) : outcome unit :=
  match s with
  | ShNode | ShList (S _) => Ok tt
  | ShList O => Panic PIndex
  | ShTypedNil | ShNilIface => Panic PNilDeref
  end.

(* gogrep.Walk *)
Definition node_walk (s : cshape) : outcome unit :=
  match s with ShTypedNil | ShNilIface => Panic PNilDeref | _ => Ok tt end.

(* rulesRunner.nodeText: reads Pos()/End() unless it returns early for absent nodes *)
Definition node_text (guarded : bool) (s : cshape) : outcome unit :=
  if guarded && absent s then Ok tt
  else match s with ShList O => Ok tt (* IsEmptyNodeSlice was always checked *) | _ => node_pos s end.

Record access_info := {
  ac_pos : bool; ac_pos_guarded : bool;
  ac_text : bool;
  ac_walk : bool; ac_walk_guarded : bool;
  ac_sizeof : bool; ac_sizeof_guarded : bool;
  ac_objderef : bool; ac_objderef_guarded : bool
}.

(* what the type / object side of a capture can be *)
Record tfacts := { tf_untyped : bool; tf_obj_nil : bool }.

Definition seq (a b : outcome unit) : outcome unit := bind a (fun _ => b).

(* one evaluation of a closure with access profile ac on a capture of shape s whose type/object facts are tf;
   a guard makes the closure return (reject) before the partial operation *)
Definition closure_run (ac : access_info) (text_guarded : bool) (s : cshape) (tf : tfacts) : outcome unit :=
  seq (if ac_pos ac then (if ac_pos_guarded ac && absent s then Ok tt else node_pos s) else Ok tt)
 (seq (if ac_text ac then node_text text_guarded s else Ok tt)
 (seq (if ac_walk ac then (if ac_walk_guarded ac && absent s then Ok tt else node_walk s) else Ok tt)
 (seq (if ac_sizeof ac then (if ac_sizeof_guarded ac then Ok tt else if tf_untyped tf then Panic PExplicit else Ok tt) else Ok tt)
      (if ac_objderef ac then (if ac_objderef_guarded ac then Ok tt else if tf_obj_nil tf then Panic PNilDeref else Ok tt) else Ok tt)))).

Definition access_safe (text_guarded : bool) (ac : access_info) : bool :=
  implb (ac_pos ac) (ac_pos_guarded ac) && implb (ac_text ac) text_guarded && implb (ac_walk ac) (ac_walk_guarded ac)
  && implb (ac_sizeof ac) (ac_sizeof_guarded ac) && implb (ac_objderef ac) (ac_objderef_guarded ac).

Lemma guarded_pos s : (if absent s then Ok tt else node_pos s) = Ok tt.
Proof. destruct s as [|[|n]| |]; reflexivity. Qed.
Lemma guarded_walk s : (if absent s then Ok tt else node_walk s) = Ok tt.
Proof. destruct s as [|[|n]| |]; reflexivity. Qed.
Lemma guarded_text s : node_text true s = Ok tt.
Proof. destruct s as [|[|n]| |]; reflexivity. Qed.

(* every closure whose partial operations are all guarded runs to a verdict on EVERY capture shape and EVERY type/object fact *)
Lemma step_pos (u g : bool) s : implb u g = true ->
  (if u then (if g && absent s then Ok tt else node_pos s) else Ok tt) = Ok tt.
Proof. destruct u, g; cbn; try discriminate; intros _; try reflexivity. apply guarded_pos. Qed.
Lemma step_text (u tg : bool) s : implb u tg = true -> (if u then node_text tg s else Ok tt) = Ok tt.
Proof. destruct u, tg; cbn [implb]; try discriminate; intros _; try reflexivity. apply guarded_text. Qed.
Lemma step_walk (u g : bool) s : implb u g = true ->
  (if u then (if g && absent s then Ok tt else node_walk s) else Ok tt) = Ok tt.
Proof. destruct u, g; cbn; try discriminate; intros _; try reflexivity. apply guarded_walk. Qed.
Lemma step_flag (u g c : bool) w : implb u g = true ->
  (if u then (if g then Ok tt else if c then Panic w else Ok tt) else Ok tt) = Ok tt.
Proof. destruct u, g; cbn; try discriminate; reflexivity. Qed.

Theorem filters_total ac tg s tf : access_safe tg ac = true -> closure_run ac tg s tf = Ok tt.
Proof.
  unfold access_safe, closure_run. rewrite !andb_true_iff. intros ((((H1 & H2) & H3) & H4) & H5).
  rewrite (step_pos _ _ s H1), (step_text _ _ s H2), (step_walk _ _ s H3), (step_flag _ _ _ _ H4), (step_flag _ _ _ _ H5).
  reflexivity.
Qed.

(* ... and an unguarded use has a crashing capture: the guards are necessary *)
Theorem unguarded_pos_crashes ac tg tf : ac_pos ac = true -> ac_pos_guarded ac = false ->
  closure_run ac tg (ShList 0) tf = Panic PIndex /\ closure_run ac tg ShTypedNil tf = Panic PNilDeref.
Proof. intros H1 H2. unfold closure_run. rewrite H1, H2. split; reflexivity. Qed.

Theorem unguarded_text_crashes ac tf : ac_pos ac = false -> ac_text ac = true ->
  closure_run ac false ShTypedNil tf = Panic PNilDeref.
Proof. intros H1 H2. unfold closure_run. rewrite H1, H2. reflexivity. Qed.

(* ------------------------------------------------------------------ rendering *)
(* renderMessage interpolates a capture: its capture filter drops typed nil captures first (when it has that test); when the
   test asks reflect whether the node is nil, the nil interface must have been recognised before ([nil_first]) -- reflect
   panics on it; a nil interface that survives the filter is never interpolated (`if n != nil`); the other captures are read
   through nodeText *)
Definition render_capture (reflects nil_first skips_typed_nil text_guarded : bool) (s : cshape) : outcome unit :=
  match s with
  | ShNilIface => if reflects && negb nil_first then Panic PExplicit else Ok tt
  | ShTypedNil => if skips_typed_nil then Ok tt else node_text text_guarded s
  | _ => node_text text_guarded s
  end.

Definition render_safe (reflects nil_first skips tg : bool) : bool := (skips || tg) && implb reflects nil_first.

Theorem render_total reflects nil_first skips tg s :
  render_safe reflects nil_first skips tg = true -> render_capture reflects nil_first skips tg s = Ok tt.
Proof.
  unfold render_safe. intros H. apply andb_prop in H as [H Hr].
  destruct s as [|[|n]| |]; cbn; try (destruct tg; reflexivity).
  - destruct skips; [reflexivity|]. cbn in H. subst tg. reflexivity.
  - destruct reflects, nil_first; cbn in *; try reflexivity. discriminate.
Qed.

(* the nil test is necessary: asking reflect first crashes on a capture that is no node at all (what the unfixed tree did) *)
Theorem render_reflect_on_nil_iface_crashes skips tg : render_capture true false skips tg ShNilIface = Panic PExplicit.
Proof. reflexivity. Qed.

(* ------------------------------------------------------------------ where the text of a capture comes from *)
(* nodeText slices the file's bytes when the capture's extent lies inside what the file system holds at the file's path;
   otherwise (a file that exists in memory only, an editor buffer whose saved version is shorter) it prints the node.
   go/printer knows expressions, statements, declarations and specs; anything else a pattern can capture (a comment, a
   gogrep node list, a field, a field list) must be taken apart by the engine first.  [h] is the list of node types the
   fallback handles itself, [recur] says that the parts of a list are printed through the same function: both are
   regenerated from runner.go. *)
Inductive nclass :=
| NcPrintable             (* ast.Expr, ast.Stmt, ast.Decl, ast.Spec, *ast.File *)
| NcComment
| NcField
| NcFieldList
| NcSlice (of_fields : bool)    (* gogrep.NodeSlice of printable nodes resp. of fields *)
| NcPartial.                    (* gogrep.PartialNode: the header / the range clause of a range statement (the MATCH of such a pattern) *)

Definition print_ok (h : list string) (recur : bool) (c : nclass) : bool :=
  match c with
  | NcPrintable => true
  | NcComment => mem "*ast.Comment" h
  | NcField => mem "*ast.Field" h
  | NcFieldList => mem "*ast.FieldList" h && recur && mem "*ast.Field" h
  | NcSlice f => mem "*gogrep.NodeSlice" h && recur && (negb f || mem "*ast.Field" h)
  | NcPartial => mem "*gogrep.PartialNode" h
  end.

Definition print_handles_all (h : list string) (recur : bool) : bool :=
  mem "*ast.Comment" h && mem "*ast.Field" h && mem "*ast.FieldList" h && mem "*gogrep.NodeSlice" h && recur && mem "*gogrep.PartialNode" h.

Lemma print_handles_all_spec h recur c : print_handles_all h recur = true -> print_ok h recur c = true.
Proof.
  unfold print_handles_all. rewrite !andb_true_iff. intros (((((H1 & H2) & H3) & H4) & H5) & H6).
  destruct c as [| | | |f|]; cbn; rewrite ?H1, ?H2, ?H3, ?H4, ?H5, ?H6; try reflexivity. now destruct f.
Qed.

(* fetching the text of a non-absent capture of class c; readable: its extent lies inside the bytes on disk *)
Definition text_fetch (h : list string) (recur : bool) (readable : bool) (s : cshape) (c : nclass) : outcome unit :=
  if absent s || readable then Ok tt else if print_ok h recur c then Ok tt else Panic PExplicit.

(* a closure run on a file whose bytes may or may not be readable *)
Definition closure_run_on (ac : access_info) (text_guarded : bool) (h : list string) (recur readable : bool)
    (s : cshape) (c : nclass) (tf : tfacts) : outcome unit :=
  seq (closure_run ac text_guarded s tf) (if ac_text ac then text_fetch h recur readable s c else Ok tt).

Theorem filters_total_on ac tg h recur readable s c tf :
  access_safe tg ac = true -> print_handles_all h recur = true -> closure_run_on ac tg h recur readable s c tf = Ok tt.
Proof.
  intros Ha Hp. unfold closure_run_on. rewrite (filters_total ac tg s tf Ha). cbn.
  destruct (ac_text ac); [|reflexivity]. unfold text_fetch.
  destruct (absent s || readable); [reflexivity|]. now rewrite (print_handles_all_spec h recur c Hp).
Qed.

(* the cases are necessary: a fallback that hands a node list (or a field list) to go/printer crashes every closure that
   reads the text of such a capture, as soon as the file's bytes cannot be read back (what the unfixed tree did) *)
Theorem unhandled_list_crashes ac tg recur tf n f : access_safe tg ac = true -> ac_text ac = true ->
  closure_run_on ac tg ["*ast.Comment"] recur false (ShList (S n)) (NcSlice f) tf = Panic PExplicit /\
  closure_run_on ac tg ["*ast.Comment"] recur false ShNode NcFieldList tf = Panic PExplicit /\
  closure_run_on ac tg ["*ast.Comment"] recur true (ShList (S n)) (NcSlice f) tf = Ok tt.
Proof.
  intros Ha Ht. unfold closure_run_on. rewrite !(filters_total ac tg _ tf Ha), Ht. repeat split.
Qed.

(* the same for the match of a range-header / range-clause pattern (a gogrep.PartialNode is no go/ast node at all): a fallback
   that knows node lists, fields and field lists only (the tree before the fix) crashes on `$$` of `for $k, $v := range $x` *)
Theorem unhandled_partial_crashes ac tg recur tf : access_safe tg ac = true -> ac_text ac = true ->
  closure_run_on ac tg ["*ast.Comment"; "*gogrep.NodeSlice"; "*ast.FieldList"; "*ast.Field"] recur false ShNode NcPartial tf = Panic PExplicit /\
  closure_run_on ac tg ["*ast.Comment"; "*gogrep.NodeSlice"; "*ast.FieldList"; "*ast.Field"] recur true ShNode NcPartial tf = Ok tt /\
  closure_run_on ac tg ["*ast.Comment"; "*gogrep.NodeSlice"; "*gogrep.PartialNode"; "*ast.FieldList"; "*ast.Field"] recur false ShNode NcPartial tf = Ok tt.
Proof.
  intros Ha Ht. unfold closure_run_on. rewrite !(filters_total ac tg _ tf Ha), Ht. repeat split.
Qed.

(* message / suggestion interpolation: the same fetch after the renderer's own guards *)
Definition render_capture_on (reflects nil_first skips_typed_nil text_guarded : bool) (h : list string) (recur readable : bool)
    (s : cshape) (c : nclass) : outcome unit :=
  seq (render_capture reflects nil_first skips_typed_nil text_guarded s) (text_fetch h recur readable s c).

Theorem render_total_on reflects nil_first skips tg h recur readable s c :
  render_safe reflects nil_first skips tg = true -> print_handles_all h recur = true ->
  render_capture_on reflects nil_first skips tg h recur readable s c = Ok tt.
Proof.
  intros H Hp. unfold render_capture_on. rewrite (render_total reflects nil_first skips tg s H). cbn. unfold text_fetch.
  destruct (absent s || readable); [reflexivity|]. now rewrite (print_handles_all_spec h recur c Hp).
Qed.

(* ------------------------------------------------------------------ the report *)
(* handleMatch: the report node is the match, or the At() capture (when guarded: only if it is not absent) *)
Definition report_node (guarded : bool) (root : cshape) (loc : option cshape) : cshape :=
  match loc with
  | None => root
  | Some l => if guarded then (if absent l then root else l) else l
  end.

(* when the match root is not absent, neither is the report node: its Pos()/End() are defined, and the suggestion (taken
   from the same node) has the same range *)
Theorem report_wellformed root loc : absent root = false ->
  absent (report_node true root loc) = false /\ node_pos (report_node true root loc) = Ok tt.
Proof.
  intros Hr. destruct loc as [l|]; cbn [report_node].
  - destruct (absent l) eqn:Hl.
    + split; [exact Hr|]. destruct root as [|[|n]| |]; try discriminate; reflexivity.
    + split; [exact Hl|]. destruct l as [|[|n]| |]; try discriminate; reflexivity.
  - split; [exact Hr|]. destruct root as [|[|n]| |]; try discriminate; reflexivity.
Qed.

Theorem report_unguarded_location_malformed root :
  node_pos (report_node false root (Some (ShList 0))) = Panic PIndex /\
  node_pos (report_node false root (Some ShTypedNil)) = Panic PNilDeref.
Proof. split; reflexivity. Qed.

(* the match root itself CAN be absent: a pattern made of `$*xs` parts only (`$*xs; $*ys`, `$*xs, $*ys`) matches the empty
   list, and gogrep hands over an empty NodeSlice as the match.  handleMatch drops such a match ([root_guarded]) before
   anything reads its position; what it delivers otherwise: *)
Definition deliver (root_guarded loc_guarded : bool) (root : cshape) (loc : option cshape) : option cshape :=
  if root_guarded && absent root then None else Some (report_node loc_guarded root loc).

(* every delivered report -- whatever the root and the At() capture are -- has a node whose Pos()/End() are defined *)
Theorem deliver_wellformed root loc n : deliver true true root loc = Some n -> absent n = false /\ node_pos n = Ok tt.
Proof.
  unfold deliver. cbn [andb]. destruct (absent root) eqn:Hr; [discriminate|]. intros H. injection H as <-.
  now apply report_wellformed.
Qed.

(* the root guard is necessary (what the unfixed tree did): the empty match is delivered and its Pos() indexes element 0 *)
Theorem deliver_unguarded_root_malformed loc_guarded :
  deliver false loc_guarded (ShList 0) None = Some (ShList 0) /\ node_pos (ShList 0) = Panic PIndex.
Proof. split; reflexivity. Qed.

(* positions: a non-absent node of a parsed file lies inside the file (go/parser, trusted) *)
Section Positions.
  Variable file_len : nat.
  Variable pos end_ : cshape -> nat.    (* byte offsets of Pos() / End() of the captured / matched nodes *)
  Hypothesis parser_ranges : forall s, absent s = false -> pos s <= end_ s <= file_len.

  Theorem report_positions_inside_file root loc : absent root = false ->
    pos (report_node true root loc) <= end_ (report_node true root loc) <= file_len.
  Proof. intros Hr. apply parser_ranges. now apply report_wellformed. Qed.

  Theorem delivered_positions_inside_file root loc n : deliver true true root loc = Some n -> pos n <= end_ n <= file_len.
  Proof. intros H. apply parser_ranges. now apply (deliver_wellformed root loc n H). Qed.
End Positions.
