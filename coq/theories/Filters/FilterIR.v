(* Filter IR of go-ruleguard and the two repo-owned translation steps that produce a runnable filter:
     convert : dexpr -> option fexpr      mirrors irconv.convertFilterExprImpl (DSL Where() expression -> ir.FilterExpr)
     load    : fexpr -> option lfilter    mirrors ir_loader.newFilter / newBinaryExprFilter (ir.FilterExpr -> closure tree)
   Everything that is a table in the Go source (token -> op, op -> token, op flags, path -> op, lhs op -> constructor,
   the set of commutative ops that get their operands swapped) is a field of [tables]; go2coq regenerates those
   fields from /repo on every check and coq/tmpl/C17 re-proves [tables_okb] for the regenerated value.
   Go identifiers (op constants, token names, constructor names, DSL paths) are Coq strings. *)
From Coq Require Import List ZArith Bool String Ascii Lia.
From RG.Base Require Import Outcome.
Import ListNotations.
Local Open Scope string_scope.

(* ------------------------------------------------------------------ association lists *)
Fixpoint assoc {A} (k : string) (l : list (string * A)) : option A :=
  match l with
  | [] => None
  | (k', a) :: t => if String.eqb k k' then Some a else assoc k t
  end.

Definition mem (k : string) (l : list string) : bool := existsb (String.eqb k) l.

Fixpoint nodupb (l : list string) : bool :=
  match l with [] => true | a :: t => negb (mem a t) && nodupb t end.

Lemma mem_In k l : mem k l = true <-> In k l.
Proof.
  unfold mem. rewrite existsb_exists. split.
  - intros (x & Hin & He). apply String.eqb_eq in He. now subst.
  - intros H. exists k. split; [exact H|apply String.eqb_refl].
Qed.

(* ------------------------------------------------------------------ IR *)
Inductive fvalue := VNone | VStr (s : string) | VInt (z : Z).

(* ir.FilterExpr without Src/Line *)
Inductive fexpr := FE (op : string) (v : fvalue) (args : list fexpr).

Definition fvalue_eqb (a b : fvalue) : bool :=
  match a, b with
  | VNone, VNone => true
  | VStr s, VStr t => String.eqb s t
  | VInt x, VInt y => Z.eqb x y
  | _, _ => false
  end.

Fixpoint fexpr_eqb (a b : fexpr) : bool :=
  match a, b with
  | FE o v l, FE o' v' l' =>
      String.eqb o o' && fvalue_eqb v v' &&
      (fix go (l l' : list fexpr) : bool :=
         match l, l' with
         | [], [] => true
         | x :: r, y :: r' => fexpr_eqb x y && go r r'
         | _, _ => false
         end) l l'
  end.

Definition fe_op (f : fexpr) : string := match f with FE op _ _ => op end.
Definition fe_val (f : fexpr) : fvalue := match f with FE _ v _ => v end.

(* ------------------------------------------------------------------ DSL surface
   A Where() argument as go/ast + go/types present it to irconv: every expression that go/types annotates with a
   constant string / int64 value is a [DStr]/[DInt] leaf (whatever its syntax), the rest is syntax. *)
Inductive dexpr :=
| DStr (s : string)
| DInt (z : Z)
| DParen (e : dexpr)
| DUnary (tok : string) (e : dexpr)
| DBinary (tok : string) (x y : dexpr)
| DSel (path var : string)                          (* m["var"].Path        (no call at the end) *)
| DCall (path var : string) (args : list dexpr)     (* m["var"].Path(args)  or  m.Path(args) with var = "" *)
| DIndex (var : string)                             (* m["var"] in argument position *)
| DIdent (name : string).                           (* a function name in argument position *)

(* ------------------------------------------------------------------ regenerated tables *)
Record op_flags := { fl_binary : bool; fl_lit : bool; fl_var : bool }.

Inductive val_src := ValNone | ValVar | ValStrArg.
Inductive args_src := ArgsNone | ArgsConverted | ArgsStrArg | ArgsIndexVar | ArgsFuncRef.
Record call_case := { cc_op : string; cc_val : val_src; cc_args : args_src; cc_root_only : bool }.

(* newBinaryExprFilter's [switch lhs.Op]: constructor used when the rhs is a constant, constructor used when it is
   another variable, and whether the latter is guarded by [rhs.Op == lhs.Op]. *)
Record cmp_case := { cm_const : string; cm_var : string; cm_guarded : bool }.

Record tables := {
  t_flags : list (string * op_flags);          (* ir/filter_op.gen.go: filterOpFlags *)
  t_const_str : string;                        (* irconv: op of a folded string constant *)
  t_const_int : string;                        (* irconv: op of a folded int64 constant *)
  t_funcref : string;                          (* irconv: op wrapping Filter()'s function name *)
  t_conv_unop : list (string * string);        (* irconv: unary token -> op *)
  t_conv_binop : list (string * string);       (* irconv: binary token -> op *)
  t_conv_sel : list (string * string);         (* irconv: selector path -> op (Value = variable name) *)
  t_conv_call : list (string * call_case);     (* irconv: call path -> op, value source, args source *)
  t_not_op : string;                           (* ir_loader.newFilter: op handed to makeNotFilter *)
  t_and_op : string;                           (* ir_loader.newBinaryExprFilter: op handed to makeAndFilter *)
  t_or_op : string;                            (*   ... makeOrFilter *)
  t_load_swap : list string;                   (* ops whose constant-on-the-left form is swapped *)
  t_load_tok : list (string * string);         (* op -> go/token comparison token *)
  t_load_cmp : list (string * cmp_case)        (* lhs op -> constructors *)
}.

Definition flags_of (T : tables) (op : string) : op_flags :=
  match assoc op (t_flags T) with Some f => f | None => {| fl_binary := false; fl_lit := false; fl_var := false |} end.

(* ------------------------------------------------------------------ convert (irconv.convertFilterExprImpl) *)
Definition str_arg (args : list dexpr) : option string :=
  match args with DStr s :: _ => Some s | _ => None end.

Fixpoint convert (T : tables) (e : dexpr) : option fexpr :=
  match e with
  | DStr s => Some (FE (t_const_str T) (VStr s) [])
  | DInt z => Some (FE (t_const_int T) (VInt z) [])
  | DParen x => convert T x
  | DUnary t x =>
      match convert T x with
      | None => None
      | Some fx => match assoc t (t_conv_unop T) with Some op => Some (FE op VNone [fx]) | None => None end
      end
  | DBinary t x y =>
      match convert T x, convert T y with
      | Some fx, Some fy => match assoc t (t_conv_binop T) with Some op => Some (FE op VNone [fx; fy]) | None => None end
      | _, _ => None
      end
  | DSel path v => match assoc path (t_conv_sel T) with Some op => Some (FE op (VStr v) []) | None => None end
  | DCall path v args =>
      match assoc path (t_conv_call T) with
      | None => None
      | Some cc =>
          if cc_root_only cc && negb (String.eqb v "$$") then None else
          let val := match cc_val cc with
                     | ValNone => Some VNone
                     | ValVar => Some (VStr v)
                     | ValStrArg => option_map VStr (str_arg args)
                     end in
          let fargs := match cc_args cc with
                       | ArgsNone => Some []
                       | ArgsConverted =>
                           (fix cl (l : list dexpr) : option (list fexpr) :=
                              match l with
                              | [] => Some []
                              | a :: r => match convert T a, cl r with
                                          | Some fa, Some fr => Some (fa :: fr)
                                          | _, _ => None
                                          end
                              end) args
                       | ArgsStrArg => option_map (fun s => [FE (t_const_str T) (VStr s) []]) (str_arg args)
                       | ArgsIndexVar => match args with DIndex y :: _ => Some [FE (t_const_str T) (VStr y) []] | _ => None end
                       | ArgsFuncRef => match args with DIdent f :: _ => Some [FE (t_funcref T) (VStr f) []] | _ => None end
                       end in
          match val, fargs with
          | Some v', Some a' => Some (FE (cc_op cc) v' a')
          | _, _ => None
          end
      end
  | DIndex _ | DIdent _ => None
  end.

(* ------------------------------------------------------------------ loaded filters *)
Inductive vkind := KLine | KSize | KValueInt | KText.
Inductive cval := CStr (s : string) | CInt (z : Z).

Inductive lfilter :=
| LNot (x : lfilter)
| LAnd (x y : lfilter)
| LOr (x y : lfilter)
| LCmpConst (k : vkind) (x : string) (tok : string) (c : cval)
| LCmpVar (k : vkind) (x : string) (tok : string) (y : string)
| LAtom (op : string) (v : fvalue) (args : list fexpr).

(* the comparison closures of filters.go, by constructor name (their bodies are hand-modelled in [eval]) *)
Definition kind_of_const_ctor (c : string) : option vkind :=
  if String.eqb c "makeLineConstFilter" then Some KLine
  else if String.eqb c "makeTypeSizeConstFilter" then Some KSize
  else if String.eqb c "makeValueIntConstFilter" then Some KValueInt
  else if String.eqb c "makeTextConstFilter" then Some KText
  else None.
Definition kind_of_var_ctor (c : string) : option vkind :=
  if String.eqb c "makeLineFilter" then Some KLine
  else if String.eqb c "makeTypeSizeFilter" then Some KSize
  else if String.eqb c "makeValueIntFilter" then Some KValueInt
  else if String.eqb c "makeTextFilter" then Some KText
  else None.

Definition load_cmp (T : tables) (op : string) (a0 a1 : fexpr) : option lfilter :=
  let swap := fl_lit (flags_of T (fe_op a0)) && negb (fl_lit (flags_of T (fe_op a1)))
              && (match fe_val a0 with VStr _ | VInt _ => true | VNone => false end)
              && mem op (t_load_swap T) in
  let lhs := if swap then a1 else a0 in
  let rhs := if swap then a0 else a1 in
  match assoc op (t_load_tok T) with
  | None => None
  | Some tok =>
      let rhs_value := if String.eqb (fe_op rhs) (t_const_str T) then match fe_val rhs with VStr s => Some (CStr s) | _ => None end
                       else if String.eqb (fe_op rhs) (t_const_int T) then match fe_val rhs with VInt z => Some (CInt z) | _ => None end
                       else None in
      match assoc (fe_op lhs) (t_load_cmp T), fe_val lhs with
      | Some cm, VStr x =>
          match rhs_value with
          | Some c => option_map (fun k => LCmpConst k x tok c) (kind_of_const_ctor (cm_const cm))
          | None =>
              if cm_guarded cm && negb (String.eqb (fe_op rhs) (fe_op lhs)) then None
              else match fe_val rhs with
                   | VStr y => option_map (fun k => LCmpVar k x tok y) (kind_of_var_ctor (cm_var cm))
                   | _ => None
                   end
          end
      | _, _ => None
      end
  end.

Fixpoint load (T : tables) (f : fexpr) : option lfilter :=
  match f with
  | FE op v args =>
      if fl_binary (flags_of T op) then
        match args with
        | [a0; a1] =>
            if String.eqb op (t_and_op T) then
              match load T a0, load T a1 with Some x, Some y => Some (LAnd x y) | _, _ => None end
            else if String.eqb op (t_or_op T) then
              match load T a0, load T a1 with Some x, Some y => Some (LOr x y) | _, _ => None end
            else load_cmp T op a0 a1
        | _ => None
        end
      else if String.eqb op (t_not_op T) then
        match args with
        | a0 :: _ => option_map LNot (load T a0)
        | [] => None
        end
      else Some (LAtom op v args)
  end.

Definition compile (T : tables) (e : dexpr) : option lfilter :=
  match convert T e with Some f => load T f | None => None end.

(* ------------------------------------------------------------------ the DSL spelling of the four comparable values *)
Definition operand (k : vkind) (x : string) : dexpr :=
  match k with
  | KLine => DSel "Line" x
  | KSize => DSel "Type.Size" x
  | KValueInt => DCall "Value.Int" x []
  | KText => DSel "Text" x
  end.

Definition const_ctor_name (k : vkind) : string :=
  match k with KLine => "makeLineConstFilter" | KSize => "makeTypeSizeConstFilter"
             | KValueInt => "makeValueIntConstFilter" | KText => "makeTextConstFilter" end.
Definition var_ctor_name (k : vkind) : string :=
  match k with KLine => "makeLineFilter" | KSize => "makeTypeSizeFilter"
             | KValueInt => "makeValueIntFilter" | KText => "makeTextFilter" end.

Definition all_kinds : list vkind := [KLine; KSize; KValueInt; KText].
Definition cmp_tokens : list string := ["EQL"; "NEQ"; "LSS"; "LEQ"; "GTR"; "GEQ"].

(* the op that [operand k x] converts to *)
Definition operand_op (T : tables) (k : vkind) : option string :=
  match k with
  | KValueInt => option_map cc_op (assoc "Value.Int" (t_conv_call T))
  | KLine => assoc "Line" (t_conv_sel T)
  | KSize => assoc "Type.Size" (t_conv_sel T)
  | KText => assoc "Text" (t_conv_sel T)
  end.

(* ------------------------------------------------------------------ the finite obligations on the regenerated tables *)
Definition opt_eqb (a : option string) (b : string) : bool :=
  match a with Some x => String.eqb x b | None => false end.

Definition tok_okb (T : tables) (t : string) : bool :=
  match assoc t (t_conv_binop T) with
  | None => false
  | Some op =>
      fl_binary (flags_of T op)
      && negb (String.eqb op (t_and_op T)) && negb (String.eqb op (t_or_op T))
      && opt_eqb (assoc op (t_load_tok T)) t
      (* exactly the ops of == and != are swapped *)
      && Bool.eqb (mem op (t_load_swap T)) (String.eqb t "EQL" || String.eqb t "NEQ")
  end.

Definition kind_okb (T : tables) (k : vkind) : bool :=
  match operand_op T k with
  | None => false
  | Some op =>
      negb (fl_lit (flags_of T op)) && negb (fl_binary (flags_of T op))
      && negb (String.eqb op (t_const_str T)) && negb (String.eqb op (t_const_int T))
      && negb (String.eqb op (t_not_op T))
      && match assoc op (t_load_cmp T) with
         | Some cm => String.eqb (cm_const cm) (const_ctor_name k) && String.eqb (cm_var cm) (var_ctor_name k) && cm_guarded cm
         | None => false
         end
  end.

Definition value_int_call_okb (T : tables) : bool :=
  match assoc "Value.Int" (t_conv_call T) with
  | Some cc => negb (cc_root_only cc)
               && match cc_val cc with ValVar => true | _ => false end
               && match cc_args cc with ArgsConverted => true | _ => false end
  | None => false
  end.

Definition tables_okb (T : tables) : bool :=
  opt_eqb (assoc "NOT" (t_conv_unop T)) (t_not_op T)
  && opt_eqb (assoc "LAND" (t_conv_binop T)) (t_and_op T)
  && opt_eqb (assoc "LOR" (t_conv_binop T)) (t_or_op T)
  && fl_binary (flags_of T (t_and_op T)) && fl_binary (flags_of T (t_or_op T))
  && negb (fl_binary (flags_of T (t_not_op T)))
  && negb (String.eqb (t_and_op T) (t_or_op T))
  && fl_lit (flags_of T (t_const_str T)) && fl_lit (flags_of T (t_const_int T))
  && negb (fl_binary (flags_of T (t_const_str T))) && negb (fl_binary (flags_of T (t_const_int T)))
  && negb (String.eqb (t_const_str T) (t_const_int T))
  && negb (String.eqb (t_const_str T) (t_not_op T)) && negb (String.eqb (t_const_int T) (t_not_op T))
  && forallb (tok_okb T) cmp_tokens
  && forallb (kind_okb T) all_kinds
  && value_int_call_okb T
  && negb (mem (t_const_str T) (map fst (t_load_cmp T))) && negb (mem (t_const_int T) (map fst (t_load_cmp T)))
  && nodupb (map fst (t_conv_binop T)) && nodupb (map fst (t_load_tok T))
  && nodupb (map fst (t_conv_sel T)) && nodupb (map fst (t_conv_call T)).
