(* eval_filter: the whole Where() filter as a function of the FACTS about the captures.
   Composition of C17's [eval] (connectives, comparisons) with C02's [pred_eval] (predicate closures): the atoms of a loaded
   filter are dispatched through the regenerated op -> constructor table to the constructor summary, whose verdict on a
   capture is [pred_eval] of the per-expression fact. The facts are the answers of go/types, go/ast, regexp and the file set
   -- a record of oracles (trusted external components), never computed here. *)
From Coq Require Import List ZArith Bool String Lia.
From RG.Base Require Import Outcome.
From RG.Filters Require Import FilterIR FilterAlgebra Predicates.
Import ListNotations.
Local Open Scope string_scope.

Section EvalFilter.
  Variable E : Type.                                   (* captured expressions *)

  Record facts := {
    f_expr : string -> list fexpr -> E -> bool;         (* op, args, expression: the documented fact *)
    f_nil : string -> list fexpr -> bool;               (* ... about "no expression" / the invalid type *)
    f_node : string -> list fexpr -> capture E -> bool; (* ... about a non-expression capture, for node-level predicates *)
    f_ctx : string -> fvalue -> list fexpr -> outcome bool;
        (* predicates without a captured operand (file, Go version, dead code, whole match) and custom filters, which may panic *)
    f_int : vkind -> bool -> string -> outcome (obs Z); (* Line / Type.Size / Value.Int() of a variable *)
    f_str : bool -> string -> outcome (obs string)      (* Text of a variable *)
  }.

  Variable load_ctor : list (string * list string).     (* regenerated: ir_loader.newFilter, op -> constructors *)
  Variable ctors : list (string * ctor_info).           (* regenerated: filters.go constructor summaries *)

  Definition capture_env := string -> capture E.

  Definition atom_eval (F : facts) (env : capture_env) (op : string) (v : fvalue) (args : list fexpr) : outcome bool :=
    match assoc op load_ctor with
    | Some (ctor :: _) =>
        match assoc ctor ctors, v with
        | Some ci, VStr x =>
            match ci_operand ci with
            | OpNone => f_ctx F op v args
            | _ => Ok (pred_eval E (f_expr F op args) (f_nil F op args) (f_node F op args) ci (env x))
            end
        | _, _ => f_ctx F op v args
        end
    | _ => Panic PExplicit     (* not an op the loader builds a closure for: the rule would not have loaded *)
    end.

  Definition eval_filter (C : combinators) (F : facts) (env : capture_env) (f : lfilter) : outcome bool :=
    eval C {| m_int := f_int F; m_str := f_str F; m_atom := atom_eval F env |} f.

  Variable C : combinators.
  Hypothesis HC : combinators_ok C.

  (* an atomic predicate on a captured expression is the fact about that expression ... *)
  Theorem eval_filter_iff_fact F env op x args ctor rest ci e :
    assoc op load_ctor = Some (ctor :: rest) -> assoc ctor ctors = Some ci -> ci_operand ci <> OpNone ->
    env x = CapExpr e ->
    eval_filter C F env (LAtom op (VStr x) args) = Ok (f_expr F op args e).
  Proof.
    intros H1 H2 H3 H4. unfold eval_filter. cbn [eval m_atom]. unfold atom_eval. rewrite H1, H2, H4.
    destruct (ci_operand ci); try reflexivity. contradiction.
  Qed.

  (* ... on a `$*xs` capture, under a constructor with a list branch, the fact about every element *)
  Theorem eval_filter_iff_fact_list F env op x args ctor rest ci l :
    assoc op load_ctor = Some (ctor :: rest) -> assoc ctor ctors = Some ci -> ci_operand ci <> OpNone ->
    ci_list ci = true -> env x = CapList l ->
    exists b, eval_filter C F env (LAtom op (VStr x) args) = Ok b /\
              (b = true <-> Forall (fun e => f_expr F op args e = true) l).
  Proof.
    intros H1 H2 H3 H4 H5. unfold eval_filter. cbn [eval m_atom]. unfold atom_eval. rewrite H1, H2, H5.
    exists (forallb (f_expr F op args) l). split.
    - destruct (ci_operand ci); try contradiction; cbn [pred_eval]; rewrite H4; reflexivity.
    - rewrite forallb_forall, Forall_forall. reflexivity.
  Qed.

  (* the connectives compose the atoms as in C17, whatever the atoms are *)
  Theorem eval_filter_not F env f : eval_filter C F env (LNot f) = bind (eval_filter C F env f) (fun b => Ok (negb b)).
  Proof. apply (eval_not C HC). Qed.
  Theorem eval_filter_and F env f g :
    eval_filter C F env (LAnd f g) = bind (eval_filter C F env f) (fun b => if b then eval_filter C F env g else Ok false).
  Proof. apply (eval_and C HC). Qed.
  Theorem eval_filter_or F env f g :
    eval_filter C F env (LOr f g) = bind (eval_filter C F env f) (fun b => if b then Ok true else eval_filter C F env g).
  Proof. apply (eval_or C HC). Qed.

  (* a filter built from captured-operand predicates with list support, over expression captures, never panics and its
     verdict is the propositional combination of the facts *)
  Inductive pure_tree (env : capture_env) : lfilter -> Prop :=
  | pt_atom op x args ctor rest ci e :
      assoc op load_ctor = Some (ctor :: rest) -> assoc ctor ctors = Some ci -> ci_operand ci <> OpNone -> env x = CapExpr e ->
      pure_tree env (LAtom op (VStr x) args)
  | pt_not f : pure_tree env f -> pure_tree env (LNot f)
  | pt_and f g : pure_tree env f -> pure_tree env g -> pure_tree env (LAnd f g)
  | pt_or f g : pure_tree env f -> pure_tree env g -> pure_tree env (LOr f g).

  Theorem eval_filter_total_on_pure_trees F env f : pure_tree env f -> exists b, eval_filter C F env f = Ok b.
  Proof.
    induction 1 as [op x args ctor rest ci e H1 H2 H3 H4|f Hf [b IH]|f g Hf [a IHf] Hg [b IHg]|f g Hf [a IHf] Hg [b IHg]].
    - eexists. now apply (eval_filter_iff_fact F env op x args ctor rest ci e).
    - exists (negb b). now rewrite eval_filter_not, IH.
    - exists (a && b). rewrite eval_filter_and, IHf. cbn. destruct a; [exact IHg|reflexivity].
    - exists (a || b). rewrite eval_filter_or, IHf. cbn. destruct a; [reflexivity|exact IHg].
  Qed.
End EvalFilter.
