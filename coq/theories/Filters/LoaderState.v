(* Filter construction is a function of the filter expression.

   The model's [load] (RG.Filters.FilterIR) is a pure function of the ir.FilterExpr; the theorems of FilterAlgebra are
   about that function. The real loader is a method of *irLoader and could keep state between calls (a memo table of
   compiled closures, a counter, a "previous filter" slot). This file states
     - the obligation under which the real loader is such a function: newFilter and every method it reaches write no
       irLoader field and no package-level variable, and read only the configuration the loader is handed before any
       filter is built ([loader_stateless_okb], over the list regenerated from ir_loader.go by go2coq filtertables);
     - what a memo table may be keyed by, should one ever be added: memoisation is transparent for every call sequence
       exactly when the key determines the result ([memo_transparent], [memo_unsound_witness]).  The source text of a
       filter does not determine it: irconv folds named constants into the IR value ([spelling] erases them), and two
       groups may spell `m["x"].Type.Size > limit` over different local constants. *)
From Coq Require Import List Bool String.
From RG.Filters Require Import FilterIR.
Import ListNotations.
Local Open Scope string_scope.

(* ------------------------------------------------------------------ the regenerated obligation *)
(* irLoader fields assigned by newIRLoader / LoadFile / loadRuleGroup before filters are built *)
Definition loader_config : list string :=
  ["l.state"; "l.ctx"; "l.itab"; "l.pkg"; "l.file"; "l.gogrepFset"; "l.filename"; "l.importer"; "l.prefix"; "l.importedPkg"].

(* entries: (method, field or package-level variable, written?) *)
Definition loader_stateless_okb (st : list (string * string * bool)) : bool :=
  forallb (fun e => negb (snd e) && mem (snd (fst e)) loader_config) st.

Lemma loader_stateless_spec st :
  loader_stateless_okb st = true ->
  forall fn x w, In (fn, x, w) st -> w = false /\ In x loader_config.
Proof.
  unfold loader_stateless_okb. rewrite forallb_forall. intros H fn x w Hin.
  specialize (H _ Hin). cbn in H. apply andb_true_iff in H. destruct H as [Hw Hm].
  split.
  - now destruct w.
  - now apply mem_In.
Qed.

(* the method that must be reachable for the list to be about filter construction at all *)
Definition loader_reach_okb (reach : list string) : bool :=
  mem "newFilter" reach && mem "newBinaryExprFilter" reach.

(* ------------------------------------------------------------------ memoisation *)
Section Memo.
  Context {A B K : Type}.
  Variable g : A -> B.
  Variable key : A -> K.
  Variable keqb : K -> K -> bool.

  Definition memo := list (K * B).

  Fixpoint lookup (k : K) (m : memo) : option B :=
    match m with
    | [] => None
    | (k', b) :: r => if keqb k k' then Some b else lookup k r
    end.

  (* one call of the memoised function *)
  Definition call (m : memo) (a : A) : memo * B :=
    match lookup (key a) m with
    | Some b => (m, b)
    | None => ((key a, g a) :: m, g a)
    end.

  (* a sequence of calls threading the table (the groups of a file, the sub-filters of a filter, ...) *)
  Fixpoint calls (m : memo) (l : list A) : list B :=
    match l with
    | [] => []
    | a :: r => let (m', b) := call m a in b :: calls m' r
    end.

  Definition key_determines : Prop := forall a a', keqb (key a) (key a') = true -> g a = g a'.

  Definition memo_ok (m : memo) : Prop := forall a b, lookup (key a) m = Some b -> b = g a.

  Lemma memo_ok_nil : memo_ok [].
  Proof. intros a b H. discriminate. Qed.

  Lemma call_ok m a : key_determines -> memo_ok m -> snd (call m a) = g a /\ memo_ok (fst (call m a)).
  Proof.
    intros Hk Hm. unfold call. destruct (lookup (key a) m) as [b|] eqn:E.
    - cbn. split; [now apply Hm|exact Hm].
    - cbn. split; [reflexivity|].
      intros a' b' H. cbn in H. destruct (keqb (key a') (key a)) eqn:E'.
      + injection H as <-. symmetry. now apply Hk.
      + now apply Hm.
  Qed.

  Lemma calls_ok : key_determines -> forall l m, memo_ok m -> calls m l = map g l.
  Proof.
    intros Hk. induction l as [|a r IH]; intros m Hm; [reflexivity|].
    cbn [calls map]. destruct (call_ok m a Hk Hm) as [H1 H2].
    destruct (call m a) as [m' b]. cbn in H1, H2. subst b. f_equal. now apply IH.
  Qed.

  (* a key that determines the result makes the table invisible, whatever the order and number of calls *)
  Theorem memo_transparent : key_determines -> forall l, calls [] l = map g l.
  Proof. intros Hk l. apply calls_ok; [exact Hk|exact memo_ok_nil]. Qed.

  (* one by one (a fresh table per call) equals together *)
  Corollary memo_together_is_one_by_one :
    key_determines -> forall l, calls [] l = flat_map (fun a => calls [] [a]) l.
  Proof.
    intros Hk l. rewrite memo_transparent by exact Hk.
    induction l as [|a r IH]; [reflexivity|]. cbn [map flat_map]. rewrite IH.
    cbn. unfold call. cbn. reflexivity.
  Qed.

  (* ... and a key that does not is observable: the second of two calls gets the first one's result *)
  Theorem memo_unsound_witness a a' :
    keqb (key a') (key a) = true -> g a <> g a' -> calls [] [a; a'] <> map g [a; a'].
  Proof.
    intros Hk Hne. cbn. unfold call at 1. cbn. unfold call. cbn. rewrite Hk. cbn.
    intros H. injection H as H. now apply Hne.
  Qed.
End Memo.

(* ------------------------------------------------------------------ the spelling of a filter expression *)
(* what the source text of a converted filter retains when its constants are written as names: everything but the
   value folded into the constant leaves *)
Fixpoint spelling (T : tables) (f : fexpr) : fexpr :=
  match f with
  | FE op v args => if fl_lit (flags_of T op) then FE op VNone [] else FE op v (map (spelling T) args)
  end.

(* the model loads a file's groups independently of one another *)
Definition load_groups (T : tables) (gs : list fexpr) : list (option lfilter) := map (load T) gs.

Theorem load_groups_pointwise T gs n :
  nth_error (load_groups T gs) n = option_map (load T) (nth_error gs n).
Proof. unfold load_groups. apply nth_error_map. Qed.

Theorem load_groups_app T gs hs : load_groups T (gs ++ hs) = (load_groups T gs ++ load_groups T hs)%list.
Proof. apply map_app. Qed.

Theorem load_together_is_one_by_one T gs :
  load_groups T gs = flat_map (fun g => load_groups T [g]) gs.
Proof. unfold load_groups. induction gs as [|g r IH]; [reflexivity|]. cbn. now rewrite IH. Qed.

(* ------------------------------------------------------------------ the comparison closures, as audited *)
(* FilterAlgebra.eval's comparison cases (eval_cmp_const / eval_cmp_var over the oracles m_int / m_str and [cmp_obs]) are a
   transcription of these bodies: which capture selector and go/types question feeds constant.Compare, in which operand
   order, what an absent / unknown value answers, and how a `$*xs` capture is lifted. go2coq regenerates the same list from
   filters.go / utils.go on every run; [cmp_closures_okb] demands equality, so an edit has to be re-audited here. *)
Definition doc_cmp_closures : list (string * string) := [
  ("makeLineConstFilter", "func(src, varname string, op token.Token, rhsValue constant.Value) filterFunc :: return func(params *filterParams) matchFilterResult { n := params.subNode(varname) if isAbsentNode(n) { return filterFailure(src) } lhsValue := constant.MakeInt64(int64(params.ctx.Fset.Position(n.Pos()).Line)) if constant.Compare(lhsValue, op, rhsValue) { return filterSuccess } return filterFailure(src) }");
  ("makeLineFilter", "func(src, varname string, op token.Token, rhsVarname string) filterFunc :: return func(params *filterParams) matchFilterResult { lhs := params.subNode(varname) rhs := params.subNode(rhsVarname) if isAbsentNode(lhs) || isAbsentNode(rhs) { return filterFailure(src) } line1 := params.ctx.Fset.Position(lhs.Pos()).Line line2 := params.ctx.Fset.Position(rhs.Pos()).Line lhsValue := constant.MakeInt64(int64(line1)) rhsValue := constant.MakeInt64(int64(line2)) if constant.Compare(lhsValue, op, rhsValue) { return filterSuccess } return filterFailure(src) }");
  ("makeTypeSizeConstFilter", "func(src, varname string, op token.Token, rhsValue constant.Value) filterFunc :: return func(params *filterParams) matchFilterResult { if list := asExprSlice(params.subNode(varname)); list != nil { return exprListFilterApply(src, list.GetExprSlice(), func(x ast.Expr) bool { typ := params.typeofNode(x) if !hasKnownSize(typ) { return false } lhsValue := constant.MakeInt64(params.ctx.Sizes.Sizeof(typ)) return constant.Compare(lhsValue, op, rhsValue) }) } typ := params.typeofNode(params.subExpr(varname)) if !hasKnownSize(typ) { return filterFailure(src) } lhsValue := constant.MakeInt64(params.ctx.Sizes.Sizeof(typ)) if constant.Compare(lhsValue, op, rhsValue) { return filterSuccess } return filterFailure(src) }");
  ("makeTypeSizeFilter", "func(src, varname string, op token.Token, rhsVarname string) filterFunc :: return func(params *filterParams) matchFilterResult { lhsTyp := params.typeofNode(params.subExpr(varname)) rhsTyp := params.typeofNode(params.subExpr(rhsVarname)) if !hasKnownSize(lhsTyp) || !hasKnownSize(rhsTyp) { return filterFailure(src) } lhsValue := constant.MakeInt64(params.ctx.Sizes.Sizeof(lhsTyp)) rhsValue := constant.MakeInt64(params.ctx.Sizes.Sizeof(rhsTyp)) if constant.Compare(lhsValue, op, rhsValue) { return filterSuccess } return filterFailure(src) }");
  ("makeValueIntConstFilter", "func(src, varname string, op token.Token, rhsValue constant.Value) filterFunc :: return func(params *filterParams) matchFilterResult { if list := asExprSlice(params.subNode(varname)); list != nil { return exprListFilterApply(src, list.GetExprSlice(), func(x ast.Expr) bool { lhsValue := intValueOf(params.ctx.Types, x) return lhsValue != nil && constant.Compare(lhsValue, op, rhsValue) }) } lhsValue := intValueOf(params.ctx.Types, params.subExpr(varname)) if lhsValue == nil { return filterFailure(src) } if constant.Compare(lhsValue, op, rhsValue) { return filterSuccess } return filterFailure(src) }");
  ("makeValueIntFilter", "func(src, varname string, op token.Token, rhsVarname string) filterFunc :: return func(params *filterParams) matchFilterResult { lhsValue := intValueOf(params.ctx.Types, params.subExpr(varname)) if lhsValue == nil { return filterFailure(src) } rhsValue := intValueOf(params.ctx.Types, params.subExpr(rhsVarname)) if rhsValue == nil { return filterFailure(src) } if constant.Compare(lhsValue, op, rhsValue) { return filterSuccess } return filterFailure(src) }");
  ("makeTextConstFilter", "func(src, varname string, op token.Token, rhsValue constant.Value) filterFunc :: return func(params *filterParams) matchFilterResult { s := params.nodeText(params.subNode(varname)) lhsValue := constant.MakeString(string(s)) if constant.Compare(lhsValue, op, rhsValue) { return filterSuccess } return filterFailure(src) }");
  ("makeTextFilter", "func(src, varname string, op token.Token, rhsVarname string) filterFunc :: return func(params *filterParams) matchFilterResult { s1 := params.nodeText(params.subNode(varname)) lhsValue := constant.MakeString(string(s1)) n, _ := params.match.CapturedByName(rhsVarname) s2 := params.nodeText(n) rhsValue := constant.MakeString(string(s2)) if constant.Compare(lhsValue, op, rhsValue) { return filterSuccess } return filterFailure(src) }");
  ("exprListFilterApply", "func(src string, list []ast.Expr, fn func(ast.Expr) bool) matchFilterResult :: for _, e := range list { if !fn(e) { return filterFailure(src) } } ;; return filterSuccess");
  ("intValueOf", "func(info *types.Info, expr ast.Expr) constant.Value :: tv := info.Types[expr] ;; if tv.Value == nil { return nil } ;; if tv.Value.Kind() != constant.Int { return nil } ;; return tv.Value");
  ("hasKnownSize", "func(typ types.Type) bool :: typ = types.Unalias(typ) ;; if isTypeParam(typ) { return false } ;; if basic, ok := typ.(*types.Basic); ok && basic.Info()&types.IsUntyped != 0 { return false } ;; switch u := typ.Underlying().(type) { case *types.Array: return hasKnownSize(u.Elem()) case *types.Struct: for i := 0; i < u.NumFields(); i++ { if !hasKnownSize(u.Field(i).Type()) { return false } } } ;; return true");
  ("isTypeParam", "func(typ types.Type) bool :: _, ok := typ.(*typeparams.TypeParam) ;; return ok");
  ("isAbsentNode", "func(n ast.Node) bool :: if n == nil || gogrep.IsEmptyNodeSlice(n) { return true } ;; v := reflect.ValueOf(n) ;; return v.Kind() == reflect.Ptr && v.IsNil()")
].

Definition pair_eqb2 (a b : string * string) : bool := String.eqb (fst a) (fst b) && String.eqb (snd a) (snd b).

Definition cmp_closures_okb (gen : list (string * string)) : bool :=
  Nat.eqb (List.length gen) (List.length doc_cmp_closures) && nodupb (map fst gen)
  && forallb (fun p => existsb (pair_eqb2 p) doc_cmp_closures) gen.

(* ------------------------------------------------------------------ what the filters store between matches *)
(* A filter closure runs once per match and must answer from the match and the run's context alone. go2coq lists, for every
   function of filters.go / utils.go and every method of filterParams, the storage it writes that outlives the call (a field
   behind *filterParams, a package-level variable, a table the constructor made and the closure fills). The audited writes:
   the name of the capture a custom filter function is asked about and the capture preset of a Contains() sub-search are SET
   before every use (never read across matches); `found` is a local of a load-time helper, written by a callback it runs
   itself. A size memo, a "types seen" table, a counter would be further entries. *)
Definition doc_run_state : list (string * string) := [
  ("makeCustomVarFilter", "params.varname");
  ("makeVarContainsFilter", "params.gogrepSubState");
  ("regexpHasCaptureGroups", "captured:found")
].

Definition run_state_okb (gen : list (string * string)) : bool :=
  Nat.eqb (List.length gen) (List.length doc_run_state) && forallb (fun p => existsb (pair_eqb2 p) doc_run_state) gen.

Lemma run_state_spec gen : run_state_okb gen = true -> forall fn x, In (fn, x) gen -> In (fn, x) doc_run_state.
Proof.
  unfold run_state_okb. intros H fn x Hin. apply andb_prop in H as [_ H].
  rewrite forallb_forall in H. specialize (H _ Hin). apply existsb_exists in H as [[fn' x'] [Hd He]].
  unfold pair_eqb2 in He. cbn in He. apply andb_prop in He as [E1 E2].
  apply String.eqb_eq in E1, E2. now subst.
Qed.

(* ------------------------------------------------------------------ where a compiled filter is kept and consulted *)
(* The Where() expression of a rule is compiled into ONE filter that is consulted once per match (handleMatch; handleCommentMatch for
   comment rules); its operands are consulted by the three combinator closures, left to right. go2coq lists every struct field of
   package ruleguard that holds a compiled filter and every call of a compiled filter's function.  A second filter kept on the rule
   (an operand pulled out of the expression to be asked first, per file or per node) or a consultation outside the match handlers
   would be a further entry: whether a part of the expression may decide alone depends on the operators above it (see
   FilterAlgebra / FilterChains: only a failing operand under `&&` all the way up decides). *)
Definition doc_filter_consults : list (string * string) := [
  ("field", "goRule.filter matchFilter");
  ("handleCommentMatch", "rule.base.filter.fn(&rr.filterParams)");
  ("handleMatch", "rule.filter.fn(&rr.filterParams)");
  ("makeAndFilter", "lhs.fn(params)"); ("makeAndFilter", "rhs.fn(params)");
  ("makeNotFilter", "x.fn(params)");
  ("makeOrFilter", "lhs.fn(params)"); ("makeOrFilter", "rhs.fn(params)")
].

Definition filter_consults_okb (gen : list (string * string)) : bool :=
  Nat.eqb (List.length gen) (List.length doc_filter_consults) && forallb (fun p => existsb (pair_eqb2 p) doc_filter_consults) gen.

Lemma filter_consults_spec gen : filter_consults_okb gen = true -> forall fn x, In (fn, x) gen -> In (fn, x) doc_filter_consults.
Proof.
  unfold filter_consults_okb. intros H fn x Hin. apply andb_prop in H as [_ H].
  rewrite forallb_forall in H. specialize (H _ Hin). apply existsb_exists in H as [[fn' x'] [Hd He]].
  unfold pair_eqb2 in He. cbn in He. apply andb_prop in He as [E1 E2].
  apply String.eqb_eq in E1, E2. now subst.
Qed.

(* ------------------------------------------------------------------ a value remembered per type *)
(* What such a table would have to be keyed by. Distinct Go types can PRINT alike: `type T struct{..}` declared in two functions
   of a file, a local type that shadows a package-level one, arrays / structs / pointers of such types. A type of the model is
   an identity (which declaration), what types.Type.String() prints for it, and its size. *)
Record ptype := { pt_id : nat; pt_print : string; pt_size : nat }.

(* remembering sizes by the printed form: the second of two look-alike types of different sizes gets the size of the first,
   in whichever order they are asked about *)
Theorem size_memo_by_print_unsound a b :
  pt_print b = pt_print a -> pt_size a <> pt_size b ->
  calls pt_size pt_print String.eqb [] [a; b] <> map pt_size [a; b].
Proof. intros Hp Hs. apply memo_unsound_witness; [rewrite Hp; apply String.eqb_refl|exact Hs]. Qed.

(* ... so a comparison of the two sizes sees them equal *)
Corollary size_memo_by_print_equates a b :
  pt_print b = pt_print a -> calls pt_size pt_print String.eqb [] [a; b] = [pt_size a; pt_size a].
Proof. intros Hp. cbn. unfold call at 1. cbn. unfold call. cbn. rewrite Hp, String.eqb_refl. reflexivity. Qed.

(* a key is invisible exactly when it determines the size: for every sequence of questions *)
Theorem size_memo_transparent {K} (key : ptype -> K) (keqb : K -> K -> bool) :
  (forall a b, keqb (key a) (key b) = true -> pt_size a = pt_size b) ->
  forall l, calls pt_size key keqb [] l = map pt_size l.
Proof. intros Hk l. now apply memo_transparent. Qed.

(* the identity of the declaration is such a key in every universe where an identity has one size *)
Corollary size_memo_by_identity_transparent :
  (forall a b, pt_id a = pt_id b -> pt_size a = pt_size b) ->
  forall l, calls pt_size pt_id Nat.eqb [] l = map pt_size l.
Proof. intros H. apply size_memo_transparent. intros a b E. apply H. now apply PeanoNat.Nat.eqb_eq. Qed.

(* `type L struct{ a int64 }` in one block, `type L struct{ a, b int64 }` in the next *)
Example demo_look_alike_types :
  let l1 := {| pt_id := 1; pt_print := "target.L"; pt_size := 8 |} in
  let l2 := {| pt_id := 2; pt_print := "target.L"; pt_size := 16 |} in
  calls pt_size pt_print String.eqb [] [l1; l2] = [8; 8] /\ calls pt_size pt_print String.eqb [] [l2; l1] = [16; 16] /\
  calls pt_size pt_id Nat.eqb [] [l1; l2; l1] = [8; 16; 8].
Proof. vm_compute. repeat split. Qed.
