(* C17: chains of operands under one connective, and what a loader may fold them into.

   1. An ||-tree (resp. &&-tree) of any shape means the SEQUENCE of its leaves, left to right: the first leaf that accepts
      (resp. rejects) or panics decides and no later leaf is consulted ([or_tree_is_sequence], [and_tree_is_sequence]) -- for
      all operands, panicking ones included.  The parentheses do not matter, the order does.
   2. Where every leaf runs, the chain is the union (the intersection) of its leaves ([or_chain_union], [and_chain_intersection]).
   3. A chain of `Text(x_i) == c_i` leaves may be folded into ONE test "the text of x is one of the c_i" exactly when every leaf
      reads the same capture x ([text_set_sound_one_var]); remembering the first leaf's capture only is refuted by
      `x == a || y == b || x == c` ([text_set_first_var_refuted]).  The same for `!=` under && ([text_notin_sound_one_var]). *)
From Coq Require Import List Bool String ZArith Lia.
From RG.Base Require Import Outcome.
From RG.Filters Require Import FilterIR FilterAlgebra.
Import ListNotations.
Local Open Scope string_scope.

Section Chains.
  Variable C : combinators.
  Hypothesis HC : combinators_ok C.
  Variable E : menv.

  (* left to right, stop at the first leaf that accepts / panics *)
  Fixpoint seq_or (fs : list lfilter) : outcome bool :=
    match fs with
    | [] => Ok false
    | f :: r => bind (eval C E f) (fun b => if b then Ok true else seq_or r)
    end.

  Fixpoint seq_and (fs : list lfilter) : outcome bool :=
    match fs with
    | [] => Ok true
    | f :: r => bind (eval C E f) (fun b => if b then seq_and r else Ok false)
    end.

  Fixpoint or_leaves (f : lfilter) : list lfilter :=
    match f with LOr x y => (or_leaves x ++ or_leaves y)%list | _ => [f] end.
  Fixpoint and_leaves (f : lfilter) : list lfilter :=
    match f with LAnd x y => (and_leaves x ++ and_leaves y)%list | _ => [f] end.

  Lemma seq_or_app a b : seq_or (a ++ b)%list = bind (seq_or a) (fun v => if v then Ok true else seq_or b).
  Proof.
    induction a as [|f a IH]; cbn [app seq_or]; [reflexivity|].
    destruct (eval C E f) as [[|]|w]; cbn [bind]; [reflexivity|exact IH|reflexivity].
  Qed.

  Lemma seq_and_app a b : seq_and (a ++ b)%list = bind (seq_and a) (fun v => if v then seq_and b else Ok false).
  Proof.
    induction a as [|f a IH]; cbn [app seq_and]; [reflexivity|].
    destruct (eval C E f) as [[|]|w]; cbn [bind]; [exact IH|reflexivity|reflexivity].
  Qed.

  Lemma seq_or_single f : seq_or [f] = eval C E f.
  Proof. cbn. destruct (eval C E f) as [[|]|w]; reflexivity. Qed.
  Lemma seq_and_single f : seq_and [f] = eval C E f.
  Proof. cbn. destruct (eval C E f) as [[|]|w]; reflexivity. Qed.

  Theorem or_tree_is_sequence f : eval C E f = seq_or (or_leaves f).
  Proof.
    induction f; try (cbn [or_leaves]; now rewrite seq_or_single).
    cbn [or_leaves]. rewrite seq_or_app, (eval_or C HC), <- IHf1, <- IHf2. reflexivity.
  Qed.

  Theorem and_tree_is_sequence f : eval C E f = seq_and (and_leaves f).
  Proof.
    induction f; try (cbn [and_leaves]; now rewrite seq_and_single).
    cbn [and_leaves]. rewrite seq_and_app, (eval_and C HC), <- IHf1, <- IHf2. reflexivity.
  Qed.

  (* two trees with the same leaves in the same order mean the same, however they are parenthesised *)
  Corollary or_regrouping f g : or_leaves f = or_leaves g -> eval C E f = eval C E g.
  Proof. intros H. now rewrite (or_tree_is_sequence f), (or_tree_is_sequence g), H. Qed.
  Corollary and_regrouping f g : and_leaves f = and_leaves g -> eval C E f = eval C E g.
  Proof. intros H. now rewrite (and_tree_is_sequence f), (and_tree_is_sequence g), H. Qed.

  (* where every leaf runs: union / intersection of the leaves *)
  Theorem or_chain_union fs vs : Forall2 (fun f v => eval C E f = Ok v) fs vs -> seq_or fs = Ok (existsb (fun v => v) vs).
  Proof.
    induction 1 as [|f v fs vs Hf _ IH]; [reflexivity|].
    cbn [seq_or existsb]. rewrite Hf. cbn [bind]. destruct v; [reflexivity|exact IH].
  Qed.

  Theorem and_chain_intersection fs vs : Forall2 (fun f v => eval C E f = Ok v) fs vs -> seq_and fs = Ok (forallb (fun v => v) vs).
  Proof.
    induction 1 as [|f v fs vs Hf _ IH]; [reflexivity|].
    cbn [seq_and forallb]. rewrite Hf. cbn [bind]. destruct v; [exact IH|reflexivity].
  Qed.

  (* short circuit over the whole chain: behind a deciding leaf nothing is consulted, whatever it would do *)
  Theorem or_chain_short_circuit pre f post :
    Forall (fun g => eval C E g = Ok false) pre -> eval C E f = Ok true -> seq_or (pre ++ f :: post)%list = Ok true.
  Proof.
    intros Hpre Hf. induction Hpre as [|g pre Hg _ IH]; cbn [app seq_or]; [now rewrite Hf|]. now rewrite Hg.
  Qed.
  Theorem and_chain_short_circuit pre f post :
    Forall (fun g => eval C E g = Ok true) pre -> eval C E f = Ok false -> seq_and (pre ++ f :: post)%list = Ok false.
  Proof.
    intros Hpre Hf. induction Hpre as [|g pre Hg _ IH]; cbn [app seq_and]; [now rewrite Hf|]. now rewrite Hg.
  Qed.

  (* ---------------------------------------------------------------- folding a chain of Text comparisons into a set test *)
  Definition text_eq_leaf (p : string * string) : lfilter := LCmpConst KText (fst p) "EQL" (CStr (snd p)).
  Definition text_neq_leaf (p : string * string) : lfilter := LCmpConst KText (fst p) "NEQ" (CStr (snd p)).

  (* "the text of x is one of cs" / "is none of cs": the text is read once *)
  Definition text_in_set (x : string) (cs : list string) : outcome bool :=
    bind (m_str E true x) (fun o => match o with
      | Known t => Ok (existsb (String.eqb t) cs)
      | _ => Ok false end).
  Definition text_notin_set (x : string) (cs : list string) : outcome bool :=
    bind (m_str E true x) (fun o => match o with
      | Known t => Ok (negb (existsb (String.eqb t) cs))
      | _ => Ok false end).

  Lemma s_cmp_eql a b : s_cmp "EQL" a b = Some (String.eqb a b).
  Proof. apply s_cmp_is_order. Qed.
  Lemma s_cmp_neq a b : s_cmp "NEQ" a b = Some (negb (String.eqb a b)).
  Proof. apply s_cmp_is_order. Qed.

  (* sound when every leaf reads the same capture (a single capture whose text is known) *)
  Theorem text_set_sound_one_var x t cs : m_str E true x = Ok (Known t) -> cs <> [] ->
    seq_or (map (fun c => text_eq_leaf (x, c)) cs) = text_in_set x cs.
  Proof.
    intros Hx _. unfold text_in_set. rewrite Hx. cbn [bind].
    induction cs as [|c cs IH]; [reflexivity|].
    cbn [map seq_or existsb]. unfold text_eq_leaf at 1. cbn [eval fst snd]. unfold eval_cmp_const. rewrite Hx. cbn [bind cmp_obs].
    rewrite s_cmp_eql. cbn [of_cmp bind]. destruct (String.eqb t c); [reflexivity|exact IH].
  Qed.

  Theorem text_notin_sound_one_var x t cs : m_str E true x = Ok (Known t) -> cs <> [] ->
    seq_and (map (fun c => text_neq_leaf (x, c)) cs) = text_notin_set x cs.
  Proof.
    intros Hx _. unfold text_notin_set. rewrite Hx. cbn [bind].
    induction cs as [|c cs IH]; [reflexivity|].
    cbn [map seq_and existsb]. unfold text_neq_leaf at 1. cbn [eval fst snd]. unfold eval_cmp_const. rewrite Hx. cbn [bind cmp_obs].
    rewrite s_cmp_neq. cbn [of_cmp bind]. destruct (String.eqb t c); cbn [negb orb]; [reflexivity|exact IH].
  Qed.
End Chains.

(* the fold that remembers the capture of the FIRST leaf only: `x == "a" || y == "b" || x == "c"` on a match with x = "q", y = "b" *)
Definition demo_env : menv := {|
  m_int := fun _ _ _ => Panic PExplicit;
  m_str := fun _ v => if String.eqb v "x" then Ok (Known "q") else if String.eqb v "y" then Ok (Known "b") else Panic PExplicit;
  m_atom := fun _ _ _ => Panic PExplicit |}.

Definition first_var (ps : list (string * string)) : string := match ps with p :: _ => fst p | [] => "" end.

Theorem text_set_first_var_refuted :
  let ps := [("x", "a"); ("y", "b"); ("x", "c")] in
  seq_or spec_combinators demo_env (map text_eq_leaf ps) = Ok true /\
  text_in_set demo_env (first_var ps) (map snd ps) = Ok false /\
  seq_and spec_combinators demo_env (map text_neq_leaf ps) = Ok false /\
  text_notin_set demo_env (first_var ps) (map snd ps) = Ok true.
Proof. repeat split. Qed.
