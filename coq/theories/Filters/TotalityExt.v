(* C07, second part: mechanisms behind "Run never crashes" that live outside the filter closures' own bodies.

   1. hasKnownSize vs go/types Sizeof over NESTED types: Sizeof (and Alignof) assert on a type parameter or an untyped
      type anywhere below arrays and struct fields; hasKnownSize must look there too.  [ks_info] -- which tests it makes
      and where it recurses -- is regenerated from utils.go.
   2. the gogrep matcher states: the list matcher of the rule loop keeps the node list it walks in entry 0 of its state's
      pool while the filter callback runs; Contains() runs a second matcher whose allocations overwrite the pool of ITS
      state.  Two states: total.  One shared state: the outer walk slices a clobbered entry with the old bounds.
   3. recursive functions over types (xtypes.typeIdentical): an alias node may sit anywhere inside a composite type
      (gotypesalias=1); the function must normalise it where it recurses, a normalisation hoisted to the entry point
      leaves nested aliases for the default branch, which panics.
   4. typematch's variadic test reads the last pattern parameter: guarded by the parameter count.
   5. a gogrep node list need not be in source order (known finding if-opt-capture-reversed): Pos() > End().

   External facts (trusted, validated by the sweeps only): go/types Sizeof/Alignof assertion sites; gogrep's pool reuse
   (MatchNode resets the allocation counter; allocation k reuses entry k); NodeSlice.SliceInto slices with the caller's
   bounds; types.Unalias strips alias nodes at the top only. *)
From Coq Require Import List Bool String Arith Lia.
From RG.Base Require Import Outcome.
From RG.Filters Require Import FilterIR Totality.
Import ListNotations.
Local Open Scope string_scope.

(* ------------------------------------------------------------------ 1. sizes of nested types *)
Inductive tshape :=
| TBasic (untyped : bool)
| TParam                      (* a type parameter *)
| TOpaque                     (* pointer, slice, map, chan, func, interface: a size that does not depend on the parts *)
| TArray (e : tshape)         (* of positive length *)
| TStruct (fs : list tshape)
| TNamed (u : tshape)         (* a defined type and its underlying type *)
| TAlias (t : tshape).        (* an alias node (gotypesalias=1) *)

Section TshapeInd.
  Variable P : tshape -> Prop.
  Hypothesis Hb : forall u, P (TBasic u).
  Hypothesis Hp : P TParam.
  Hypothesis Ho : P TOpaque.
  Hypothesis Ha : forall e, P e -> P (TArray e).
  Hypothesis Hs : forall fs, Forall P fs -> P (TStruct fs).
  Hypothesis Hn : forall u, P u -> P (TNamed u).
  Hypothesis Hal : forall t, P t -> P (TAlias t).
  Fixpoint tshape_ind' (t : tshape) : P t :=
    match t with
    | TBasic u => Hb u
    | TParam => Hp
    | TOpaque => Ho
    | TArray e => Ha e (tshape_ind' e)
    | TStruct fs => Hs fs ((fix go (l : list tshape) : Forall P l :=
                              match l with [] => Forall_nil P | x :: l' => Forall_cons x (tshape_ind' x) (go l') end) fs)
    | TNamed u => Hn u (tshape_ind' u)
    | TAlias t' => Hal t' (tshape_ind' t')
    end.
End TshapeInd.

(* types.Sizes.Sizeof / Alignof (gc sizes): computed from the element of an array and from every field of a struct;
   asserts on untyped basic types and on type parameters *)
Fixpoint sizeof (t : tshape) : outcome unit :=
  match t with
  | TBasic u => if u then Panic PExplicit else Ok tt
  | TParam => Panic PExplicit
  | TOpaque => Ok tt
  | TArray e => sizeof e
  | TStruct fs => (fix all (l : list tshape) : outcome unit :=
                     match l with [] => Ok tt | f :: l' => bind (sizeof f) (fun _ => all l') end) fs
  | TNamed u => sizeof u
  | TAlias t' => sizeof t'
  end.

(* hasKnownSize as the source has it: [ks_unalias] typ = types.Unalias(typ) first; [ks_param] / [ks_untyped] the tests on the
   type itself; [ks_array] / [ks_struct] the cases of `switch typ.Underlying()` in which it recurses *)
Record ks_info := { ks_unalias : bool; ks_param : bool; ks_untyped : bool; ks_array : bool; ks_struct : bool }.

(* [tests]: the tests on the type itself still apply -- they do not below a defined type (its underlying type is reached
   through Underlying() only) nor below an alias node that was not unaliased *)
Fixpoint ks (k : ks_info) (tests : bool) (t : tshape) : bool :=
  match t with
  | TBasic u => negb (tests && ks_untyped k && u)
  | TParam => negb (tests && ks_param k)
  | TOpaque => true
  | TArray e => if ks_array k then ks k true e else true
  | TStruct fs => if ks_struct k
                  then (fix all (l : list tshape) : bool := match l with [] => true | f :: l' => ks k true f && all l' end) fs
                  else true
  | TNamed u => ks k false u
  | TAlias t' => ks k (tests && ks_unalias k) t'
  end.
Definition known_size (k : ks_info) (t : tshape) : bool := ks k true t.

Definition ks_ok (k : ks_info) : bool := ks_unalias k && ks_param k && ks_untyped k && ks_array k && ks_struct k.

(* go/types invariants: the underlying type of a defined type is a typed basic type or a type literal *)
Definition underb (u : tshape) : bool :=
  match u with TBasic false | TOpaque | TArray _ | TStruct _ => true | _ => false end.
Fixpoint wfb (t : tshape) : bool :=
  match t with
  | TArray e => wfb e
  | TStruct fs => (fix all (l : list tshape) : bool := match l with [] => true | f :: l' => wfb f && all l' end) fs
  | TNamed u => underb u && wfb u
  | TAlias t' => wfb t'
  | _ => true
  end.

Lemma ks_under k u : underb u = true -> ks k false u = ks k true u.
Proof. destruct u as [[|]| | | | | |]; cbn; try discriminate; try reflexivity. now rewrite andb_false_r. Qed.

(* whenever hasKnownSize answers true, Sizeof can be asked: for every well-formed type, however deep the type parameter or
   the untyped type sits *)
Theorem known_size_sound k t : ks_ok k = true -> wfb t = true -> known_size k t = true -> sizeof t = Ok tt.
Proof.
  unfold ks_ok, known_size. rewrite !andb_true_iff. intros ((((Hu & Hpa) & Hun) & Har) & Hst).
  induction t as [u| | |e IH|fs IH|u IH|t' IH] using tshape_ind'; cbn [ks sizeof wfb].
  - rewrite Hun. destruct u; cbn; [discriminate|reflexivity].
  - rewrite Hpa. cbn. discriminate.
  - reflexivity.
  - rewrite Har. exact IH.
  - rewrite Hst. induction IH as [|f l Hf Hl IHl]; [reflexivity|].
    rewrite !andb_true_iff. intros (Hw1 & Hw2) (Hk1 & Hk2). rewrite (Hf Hw1 Hk1). cbn [bind]. exact (IHl Hw2 Hk2).
  - rewrite andb_true_iff. intros (Hub & Hw) Hk. rewrite (ks_under k u Hub) in Hk. exact (IH Hw Hk).
  - cbn [andb]. rewrite Hu. exact IH.
Qed.

(* the recursion is necessary (what the unfixed tree did): a test of the top-level type only lets [4]T and struct{ x T }
   through, and Sizeof asserts *)
Definition ks_toplevel_only : ks_info := {| ks_unalias := false; ks_param := true; ks_untyped := true; ks_array := false; ks_struct := false |}.
Theorem toplevel_test_refuted :
  known_size ks_toplevel_only (TArray TParam) = true /\ sizeof (TArray TParam) = Panic PExplicit /\
  known_size ks_toplevel_only (TStruct [TBasic false; TParam]) = true /\ sizeof (TStruct [TBasic false; TParam]) = Panic PExplicit /\
  known_size ks_toplevel_only (TNamed (TStruct [TArray (TBasic true)])) = true /\ sizeof (TNamed (TStruct [TArray (TBasic true)])) = Panic PExplicit.
Proof. repeat split. Qed.

(* ... and so is the Unalias: an alias of a type parameter is not a *types.TypeParam node *)
Theorem alias_of_param_refuted k : ks_unalias k = false ->
  known_size k (TAlias TParam) = true /\ sizeof (TAlias TParam) = Panic PExplicit.
Proof. intros H. unfold known_size. cbn. rewrite H. split; reflexivity. Qed.

(* ------------------------------------------------------------------ 2. matcher states *)
(* the pool of a matcher state: the lengths of the node lists it holds, by allocation index *)
Definition pool := list nat.
(* a MatchNode call on a state resets its allocation counter: the k-th allocation of the call reuses entry k *)
Definition overwrite (ls p : pool) : pool := (ls ++ skipn (List.length ls) p)%list.
Definition states := string -> pool.
Definition upd (st : states) (k : string) (p : pool) : states := fun k' => if String.eqb k' k then p else st k'.
(* NodeSlice.SliceInto(tmp, from, n) on entry 0 *)
Definition slice_into (p : pool) (n : nat) : outcome unit :=
  match p with l :: _ => if Nat.leb n l then Ok tt else Panic PSliceBounds | [] => Panic PIndex end.
(* the list matcher of the rule loop walks the n nodes it put into entry 0 of state [main]; after every match the filter
   callback runs a sub-matcher (Contains) on state [sub], which allocates the lists [cb i] *)
Fixpoint walk (steps : nat) (main sub : string) (n : nat) (cb : nat -> pool) (st : states) : outcome unit :=
  match steps with
  | O => Ok tt
  | S k => bind (slice_into (st main) n) (fun _ => walk k main sub n cb (upd st sub (overwrite (cb k) (st sub))))
  end.

Theorem walk_total_distinct main sub : main <> sub -> forall steps n cb st rest,
  st main = n :: rest -> walk steps main sub n cb st = Ok tt.
Proof.
  intros Hd steps. induction steps as [|k IH]; intros n cb st rest Hm; [reflexivity|].
  cbn [walk]. rewrite Hm. cbn [slice_into]. rewrite Nat.leb_refl. cbn [bind].
  apply (IH n cb _ rest). unfold upd. destruct (String.eqb_spec main sub) as [E|_]; [contradiction|exact Hm].
Qed.

(* one state for both (what `gogrepSubState: gogrepState` -- a struct copy sharing the pool -- amounts to): a sub-pattern
   that allocates a shorter list leaves entry 0 too short for the bounds the outer walk still uses *)
Theorem walk_shared_crashes :
  walk 2 "s" "s" 5 (fun _ => [1]) (fun _ => [5; 5]) = Panic PSliceBounds.
Proof. reflexivity. Qed.

Definition is_alloc (s : string) : bool := String.prefix "alloc:" s.
Definition states_distinct (main_origin sub_origin : string) : bool :=
  is_alloc main_origin && is_alloc sub_origin && negb (String.eqb main_origin sub_origin).
Lemma states_distinct_neq m s : states_distinct m s = true -> m <> s.
Proof.
  unfold states_distinct. rewrite !andb_true_iff. intros (_ & H) E. rewrite E, String.eqb_refl in H. discriminate.
Qed.

(* ------------------------------------------------------------------ 3. recursive functions over nested types *)
Inductive gty :=
| GAlias (t : gty)
| GNode (head : string) (children : list gty).

Section GtyInd.
  Variable P : gty -> Prop.
  Hypothesis Ha : forall t, P t -> P (GAlias t).
  Hypothesis Hn : forall h cs, Forall P cs -> P (GNode h cs).
  Fixpoint gty_ind' (t : gty) : P t :=
    match t with
    | GAlias t' => Ha t' (gty_ind' t')
    | GNode h cs => Hn h cs ((fix go (l : list gty) : Forall P l :=
                                match l with [] => Forall_nil P | x :: l' => Forall_cons x (gty_ind' x) (go l') end) cs)
    end.
End GtyInd.

(* types.Unalias: strips the alias nodes at the top, nothing below *)
Fixpoint unalias (t : gty) : gty := match t with GAlias t' => unalias t' | _ => t end.

(* a recursive function with a type switch: [unalias_rec] -- it unaliases its operand itself, on every step; [cases] -- the
   heads its switch knows; everything else (an alias node among them) takes the default branch *)
Fixpoint traverse (unalias_rec default_panics : bool) (cases : list string) (t : gty) : outcome unit :=
  match t with
  | GAlias t' => if unalias_rec then traverse unalias_rec default_panics cases t'
                 else if default_panics then Panic PExplicit else Ok tt
  | GNode h cs => if mem h cases
                  then (fix all (l : list gty) : outcome unit :=
                          match l with [] => Ok tt | c :: l' => bind (traverse unalias_rec default_panics cases c) (fun _ => all l') end) cs
                  else if default_panics then Panic PExplicit else Ok tt
  end.

Fixpoint heads_in (cases : list string) (t : gty) : bool :=
  match t with
  | GAlias t' => heads_in cases t'
  | GNode h cs => mem h cases && (fix all (l : list gty) : bool := match l with [] => true | c :: l' => heads_in cases c && all l' end) cs
  end.

(* with the normalisation inside the recursion, alias nodes at ANY depth are harmless *)
Theorem traverse_total dp cases t : heads_in cases t = true -> traverse true dp cases t = Ok tt.
Proof.
  induction t as [t' IH|h cs IH] using gty_ind'; cbn [traverse heads_in]; [exact IH|].
  rewrite andb_true_iff. intros (Hh & Hc). rewrite Hh.
  induction IH as [|c l Hc1 Hl IHl]; [reflexivity|].
  apply andb_prop in Hc as (H1 & H2). rewrite (Hc1 H1). cbn [bind]. exact (IHl H2).
Qed.

(* hoisted to the entry point (unalias the operands once, recurse without): the first alias below the top reaches the
   default branch *)
Theorem hoisted_unalias_refuted cases : mem "*types.Slice" cases = true ->
  traverse false true cases (unalias (GAlias (GNode "*types.Slice" [GAlias (GNode "*types.Basic" [])]))) = Panic PExplicit.
Proof. intros H. cbn. rewrite H. reflexivity. Qed.

(* every descent of the function goes through the function itself (so through its normalisation) *)
Definition descents_ok (self : string) (descents : list string) : bool := forallb (String.eqb self) descents.

(* the constructors of go/types a switch over an unaliased type can meet *)
Definition go_types_heads : list string :=
  ["*types.Basic"; "*types.Array"; "*types.Slice"; "*types.Struct"; "*types.Pointer"; "*types.Tuple"; "*types.Signature";
   "*types.Interface"; "*types.Map"; "*types.Chan"; "*types.Named"; "*typeparams.TypeParam"].
Definition cases_complete (cases : list string) : bool := forallb (fun h => mem h cases) go_types_heads.

Lemma cases_complete_heads cases h : cases_complete cases = true -> In h go_types_heads -> mem h cases = true.
Proof. unfold cases_complete. rewrite forallb_forall. intros H Hin. exact (H h Hin). Qed.

(* ------------------------------------------------------------------ 4. the variadic test of a function pattern *)
(* `typ.Variadic() && (numParams == 0 || params[numParams-1].op != opVarSeq)`: [guarded] -- the count is tested first;
   params: for every pattern parameter whether it is `$*_` *)
Definition variadic_mismatch (guarded : bool) (params : list bool) : outcome bool :=
  if guarded && Nat.eqb (List.length params) 0 then Ok true
  else match rev params with [] => Panic PIndex | last :: _ => Ok (negb last) end.

Theorem variadic_mismatch_total params : exists b, variadic_mismatch true params = Ok b.
Proof.
  unfold variadic_mismatch. destruct params as [|p ps]; [eexists; reflexivity|]. cbn [andb List.length Nat.eqb].
  destruct (rev (p :: ps)) as [|l r] eqn:E; [|eexists; reflexivity].
  apply (f_equal (@List.length bool)) in E. rewrite rev_length in E. discriminate.
Qed.

Theorem variadic_mismatch_unguarded_crashes : variadic_mismatch false [] = Panic PIndex.
Proof. reflexivity. Qed.

Definition indexes_guarded (l : list (string * bool)) : bool := forallb snd l.

(* ------------------------------------------------------------------ 5. node lists that are not in source order *)
(* Pos() of a node list is the Pos() of its first element, End() the End() of its last one *)
Definition list_pos (l : list (nat * nat)) : option nat := match l with [] => None | x :: _ => Some (fst x) end.
Definition list_end (l : list (nat * nat)) : option nat := match rev l with [] => None | x :: _ => Some (snd x) end.

(* gogrep binds `$*x` of `if $*x { ... }` to (condition, init statement); the init statement precedes the condition in the
   file: the list's Pos() lies behind its End() (known finding if-opt-capture-reversed) *)
Theorem reversed_list_malformed cp ce ip ie : ip < ie -> ie < cp -> cp < ce ->
  exists p e, list_pos [(cp, ce); (ip, ie)] = Some p /\ list_end [(cp, ce); (ip, ie)] = Some e /\ e < p.
Proof. intros H1 H2 H3. exists cp, ie. cbn. split; [reflexivity|split; [reflexivity|lia]]. Qed.

(* ------------------------------------------------------------------ the walker and the children a node may not have *)
(* go/ast stores an optional child either in an interface-typed field (Expr, Stmt: absent = the nil interface) or in a
   pointer-typed one (pointer to Ident: BranchStmt.Label, ImportSpec.Name; to BasicLit: Field.Tag; to FieldList, BlockStmt,
   CommentGroup: absent = a nil pointer).  A nil pointer converted to ast.Node is a NON-nil interface: a test made behind the conversion does
   not see that the child is absent.  The walker dispatches on the dynamic type and offers the node to the rules filed under
   that type; the matcher reads the node's fields. *)
Inductive child := ChNode | ChNilPtr | ChNilIface.

(* what a field of the given class can hold *)
Definition holds (class : string) (c : child) : bool :=
  match c with
  | ChNode => true
  | ChNilPtr => String.eqb class "ptr"
  | ChNilIface => String.eqb class "iface"
  end.

(* `if n.F != nil` on the field itself compares the pointer resp. the interface *)
Definition field_test (c : child) : bool := match c with ChNode => true | _ => false end.
(* `if x != nil` behind a conversion to an interface type (a helper `func (w) walkOpt(x ast.Node)`) *)
Definition converted_test (c : child) : bool := match c with ChNilIface => false | _ => true end.

(* walk(c): a nil interface matches no case of the type switch; a nil pointer is dispatched like a node and dereferenced by the matcher *)
Definition walk_node (c : child) : outcome unit :=
  match c with ChNode => Ok tt | ChNilIface => Ok tt | ChNilPtr => Panic PNilDeref end.

Definition walk_child (test : child -> bool) (c : child) : outcome unit := if test c then walk_node c else Ok tt.

Theorem walk_child_field_test_total class c : holds class c = true -> walk_child field_test c = Ok tt.
Proof. destruct c; reflexivity. Qed.

(* an interface-typed child may even be walked without a test *)
Theorem walk_iface_child_total c : holds "iface" c = true -> walk_node c = Ok tt.
Proof. destruct c; cbn; [reflexivity|discriminate|reflexivity]. Qed.

(* a pointer-typed optional child behind a converted test, or without any: the absent child crashes the walk *)
Theorem walk_child_converted_test_crashes :
  holds "ptr" ChNilPtr = true /\ walk_child converted_test ChNilPtr = Panic PNilDeref /\ walk_child (fun _ => true) ChNilPtr = Panic PNilDeref.
Proof. repeat split. Qed.

(* the regenerated inventory: (node type, field, class, go/ast says "or nil", method called, under `if n.F != nil`) *)
Definition walker_row := (string * string * string * bool * string * bool)%type.

Definition walker_row_ok (r : walker_row) : bool :=
  match r with (_, _, class, optional, callee, guarded) =>
    if String.eqb class "ptr" && optional then guarded && String.eqb callee "walk" else true
  end.

(* every pointer-typed optional child go/ast knows of that the walker hands on is handed to walk itself under a test of the
   field; no method of the walker tests a node parameter of interface type (the place where a converted test would live) *)
Definition walker_children_okb (rows : list walker_row) (iface_helpers : list string) : bool :=
  forallb walker_row_ok rows && match iface_helpers with [] => true | _ => false end.

(* the children the seeds of this property went through must be in the inventory (a walker that stops visiting them is C01's) *)
Definition walker_covers (rows : list walker_row) (node field : string) : bool :=
  existsb (fun r => match r with (n, f, _, _, _, _) => String.eqb n node && String.eqb f field end) rows.

(* under the obligation, walking any child of an inventoried call is total, whatever the field holds *)
Theorem walker_children_total rows helpers : walker_children_okb rows helpers = true ->
  forall node field class optional callee guarded c,
    In (node, field, class, optional, callee, guarded) rows ->
    String.eqb class "ptr" && optional = true -> holds class c = true ->
    guarded = true /\ walk_child field_test c = Ok tt.
Proof.
  intros H node field class optional callee guarded c Hin Hopt Hc.
  unfold walker_children_okb in H. apply andb_prop in H. destruct H as [H _].
  rewrite forallb_forall in H. specialize (H _ Hin). cbn in H. rewrite Hopt in H.
  apply andb_prop in H. destruct H as [Hg _]. split; [exact Hg|]. destruct c; reflexivity.
Qed.

(* ------------------------------------------------------------------ 7. a runner state over a history of Loads *)
(* ruleguard.NewRunnerState may be called at any point of an engine's life, before or between Loads. The state's evaluation
   environment is made of COPIES of the engine's function tables (slice headers: GetEvalEnv); a Load appends to the engine's
   tables, and compiled code calls a function by its index there. A state therefore SEES as many functions as there were when
   its tables were last copied.

   The table: function i calls the functions whose indexes are listed in the i-th entry. *)
Definition ftable := list (list nat).

Inductive hop :=
| HLoad (fs : list (list nat))     (* Load: the functions of a rules file are appended *)
| HNew                             (* NewRunnerState *)
| HRun (st : option nat).          (* Run without a state / with the st-th state created so far *)

(* every call of the loaded code through a view of n functions *)
Definition view_ok (tab : ftable) (n : nat) : bool := forallb (forallb (fun i => Nat.ltb i n)) tab.

Definition run_view (tab : ftable) (n : nat) : outcome unit := if view_ok tab n then Ok tt else Panic PIndex.

(* the compiler resolves a call to a function of the table as it is after the file's own functions were added *)
Definition wf_load (tab : ftable) (fs : list (list nat)) : bool :=
  forallb (forallb (fun i => Nat.ltb i (List.length tab + List.length fs))) fs.

Fixpoint wf_ops (tab : ftable) (ops : list hop) : bool :=
  match ops with
  | [] => true
  | HLoad fs :: r => wf_load tab fs && wf_ops (tab ++ fs)%list r
  | _ :: r => wf_ops tab r
  end.

(* refresh: a GIVEN state has its tables copied again before it is used (newRulesRunner: UpdateEvalEnv).
   states: what every state created so far sees *)
Fixpoint exec (refresh : bool) (tab : ftable) (states : list nat) (ops : list hop) : outcome unit :=
  match ops with
  | [] => Ok tt
  | HLoad fs :: r => exec refresh (tab ++ fs)%list states r
  | HNew :: r => exec refresh tab (states ++ [List.length tab])%list r
  | HRun None :: r => match run_view tab (List.length tab) with Ok _ => exec refresh tab states r | p => p end
  | HRun (Some k) :: r =>
      match nth_error states k with
      | None => exec refresh tab states r        (* no such state: not a step of a history *)
      | Some seen =>
          match run_view tab (if refresh then List.length tab else seen) with Ok _ => exec refresh tab states r | p => p end
      end
  end.

Lemma view_ok_app tab fs : view_ok tab (List.length tab) = true -> wf_load tab fs = true ->
  view_ok (tab ++ fs)%list (List.length (tab ++ fs)%list) = true.
Proof.
  unfold view_ok, wf_load. intros Ht Hf. rewrite app_length, forallb_app. apply andb_true_intro. split; [|exact Hf].
  rewrite forallb_forall in Ht |- *. intros f Hin. specialize (Ht f Hin).
  rewrite forallb_forall in Ht |- *. intros i Hi. specialize (Ht i Hi).
  apply Nat.ltb_lt in Ht. apply Nat.ltb_lt. lia.
Qed.

(* with the refresh: every run of every history is total -- whenever the states were created, in whatever order the files
   were loaded, however often a state is used *)
Theorem given_state_run_total ops : forall tab states,
  view_ok tab (List.length tab) = true -> wf_ops tab ops = true -> exec true tab states ops = Ok tt.
Proof.
  induction ops as [|op r IH]; intros tab states Hc Hw; [reflexivity|].
  destruct op as [fs| |[k|]]; cbn [exec wf_ops] in *.
  - apply andb_prop in Hw as [H1 H2]. apply IH; [now apply view_ok_app|exact H2].
  - now apply IH.
  - destruct (nth_error states k); [|now apply IH]. unfold run_view. rewrite Hc. now apply IH.
  - unfold run_view. rewrite Hc. now apply IH.
Qed.

(* without it: a state created before a Load whose code calls one of its own helpers runs out of the table it sees *)
Theorem stale_state_crashes :
  wf_ops [] [HNew; HLoad [[1]; []]; HRun (Some 0)] = true /\
  exec false [] [] [HNew; HLoad [[1]; []]; HRun (Some 0)] = Panic PIndex /\
  exec false [] [] [HLoad [[]]; HNew; HLoad [[2]; []]; HRun (Some 0)] = Panic PIndex /\
  exec false [] [] [HNew; HLoad [[1]; []]; HNew; HRun None; HRun (Some 1)] = Ok tt.
Proof. vm_compute. repeat split. Qed.

(* the regenerated facts (go2coq filtertotal2, filters_reuse.go): which tables GetEvalEnv copies and UpdateEvalEnv copies again,
   what Reset resets, where a new state's environment comes from, and what newRulesRunner does with a state it is given *)
Definition doc_given_state_calls (var : string) : list string := [var ++ ".Reset()"; "state.env.UpdateEvalEnv(" ++ var ++ ".evalEnv)"].
Definition doc_state_reset : list string := ["state.nodePath.stack = state.nodePath.stack[:0]"; "state.evalEnv.Stack.Reset()"].

Fixpoint list_eqb (a b : list string) : bool :=
  match a, b with
  | [], [] => true
  | x :: a', y :: b' => String.eqb x y && list_eqb a' b'
  | _, _ => false
  end.

Definition state_reuse_okb (copied refreshed reset : list string) (evalenv_from var : string) (given : list string) : bool :=
  negb (match copied with [] => true | _ => false end) &&
  forallb (fun f => mem f refreshed) copied &&
  list_eqb reset doc_state_reset && String.eqb evalenv_from "es.env.GetEvalEnv()" &&
  list_eqb given (doc_given_state_calls var).

(* the obligation is what makes [refresh] true *)
Theorem state_reuse_total copied refreshed reset from var given ops :
  wf_ops [] ops = true ->
  exec (state_reuse_okb copied refreshed reset from var given) [] [] ops = Ok tt \/ state_reuse_okb copied refreshed reset from var given = false.
Proof.
  intros Hw. destruct (state_reuse_okb copied refreshed reset from var given); [left|now right].
  now apply given_state_run_total.
Qed.

(* ------------------------------------------------------------------ 8. predicates whose argument is one name of a fixed set *)
(* Object.Is(kind): the LOADER accepts a set of names (a case list in newFilter), the CONSTRUCTOR picks the predicate for the name
   (makeObjectIsFilter's switch) and leaves a nil function behind for a name it has no case for -- the closure then calls nil on
   the first identifier it is evaluated on.  [accepted] and [dispatch] are regenerated (go2coq filterenums). *)
Definition enum_call (dispatch : list string) (name : string) : outcome unit :=
  if mem name dispatch then Ok tt else Panic PNilDeref.

Definition enum_dispatch_okb (accepted dispatch : list string) : bool :=
  negb (match accepted with [] => true | _ => false end) && forallb (fun n => mem n dispatch) accepted.

Theorem enum_call_total accepted dispatch : enum_dispatch_okb accepted dispatch = true ->
  forall n, In n accepted -> enum_call dispatch n = Ok tt.
Proof.
  unfold enum_dispatch_okb. rewrite andb_true_iff. intros [_ H] n Hn. rewrite forallb_forall in H.
  unfold enum_call. now rewrite (H n Hn).
Qed.

(* a name the loader lets through and the constructor does not know: the run crashes, and the obligation is false *)
Theorem enum_call_dropped_crashes :
  enum_call ["Func"; "Var"; "Const"; "TypeName"; "Label"; "PkgName"; "Builtin"] "Nil" = Panic PNilDeref /\
  enum_dispatch_okb ["Func"; "Var"; "Const"; "TypeName"; "Label"; "PkgName"; "Builtin"; "Nil"]
                    ["Func"; "Var"; "Const"; "TypeName"; "Label"; "PkgName"; "Builtin"] = false /\
  enum_dispatch_okb ["Func"; "Var"; "Const"; "TypeName"; "Label"; "PkgName"; "Builtin"; "Nil"]
                    ["Func"; "Var"; "Const"; "TypeName"; "Label"; "PkgName"; "Builtin"; "Nil"] = true.
Proof. vm_compute. repeat split. Qed.
