(* C03: message / suggestion interpolation (runner.go:renderMessage), source text of a node (nodeText), quick-fix
   application. Models are executable; the specification of interpolation is "longest capture name wins". *)
From Coq Require Import List ZArith Lia Bool Arith Permutation.
From RG.Base Require Import Outcome GoInt GoSlice.
From RG.Regex Require Import Utf8.
From RG.Engine Require Import TruncateSpec.
Import ListNotations.

Definition dollar : Z := 36.

Section Render.
Context {C : Type}.
Variable cname : C -> bytes.            (* capture name *)
Variable cval : C -> bytes -> bytes.    (* text inserted for the capture, given the template text that follows it *)
Variable whole : bytes -> bytes.        (* text inserted for $$ *)

(* renderMessage's inner loop: the first capture, in list order, whose name prefixes the rest of the template *)
Fixpoint first_prefix (caps : list C) (rest : bytes) : option C :=
  match caps with
  | [] => None
  | c :: t => if has_prefixb (cname c) rest then Some c else first_prefix t rest
  end.

(* specification: the capture with the LONGEST name prefixing the rest, whatever the list order *)
Fixpoint longest (caps : list C) (rest : bytes) : option C :=
  match caps with
  | [] => None
  | c :: t =>
      if has_prefixb (cname c) rest then
        match longest t rest with
        | Some d => if (length (cname c) <? length (cname d))%nat then Some d else Some c
        | None => Some c
        end
      else longest t rest
  end.

(* the interpolation loop, parameterised by the lookup *)
Fixpoint interp (lookup : bytes -> option C) (fuel : nat) (msg : bytes) : bytes :=
  match fuel with
  | O => []
  | S f =>
      match msg with
      | [] => []
      | ch :: rest =>
          if (ch =? dollar)%Z then
            match rest with
            | ch2 :: rest' =>
                if (ch2 =? dollar)%Z then whole rest' ++ interp lookup f rest'
                else match lookup rest with
                     | Some c => let rest'' := skipn (length (cname c)) rest in cval c rest'' ++ interp lookup f rest''
                     | None => dollar :: interp lookup f rest
                     end
            | [] => match lookup rest with
                    | Some c => cval c [] ++ interp lookup f []
                    | None => [dollar]
                    end
            end
          else ch :: interp lookup f rest
      end
  end.

Definition len_sorted (caps : list C) : Prop :=
  forall i j c d, (i < j)%nat -> nth_error caps i = Some c -> nth_error caps j = Some d ->
                  (length (cname d) <= length (cname c))%nat.

Lemma has_prefixb_length p s : has_prefixb p s = true -> (length p <= length s)%nat.
Proof.
  revert s. induction p as [|x p IH]; intros [|y s]; cbn; intros H; try lia; try discriminate.
  apply andb_prop in H as [_ H]. apply IH in H. lia.
Qed.

Lemma has_prefixb_firstn p s : has_prefixb p s = true -> firstn (length p) s = p.
Proof.
  revert s. induction p as [|x p IH]; intros [|y s]; cbn; intros H; try reflexivity; try discriminate.
  apply andb_prop in H as [H1 H2]. apply Z.eqb_eq in H1. subst. f_equal. now apply IH.
Qed.

(* two prefixes of one string with the same length are the same string *)
Lemma prefixes_same_length p q s :
  has_prefixb p s = true -> has_prefixb q s = true -> length p = length q -> p = q.
Proof.
  intros Hp Hq Hl. rewrite <- (has_prefixb_firstn p s Hp), <- (has_prefixb_firstn q s Hq), Hl. reflexivity.
Qed.

Lemma len_sorted_tail c t : len_sorted (c :: t) -> len_sorted t.
Proof. intros H i j x y Hij Hi Hj. apply (H (S i) (S j) x y); [lia|exact Hi|exact Hj]. Qed.

Lemma len_sorted_head c t d : len_sorted (c :: t) -> In d t -> (length (cname d) <= length (cname c))%nat.
Proof.
  intros H Hd. apply In_nth_error in Hd as [j Hj]. apply (H 0%nat (S j) c d); [lia|reflexivity|exact Hj].
Qed.

Definition is_longest (caps : list C) (rest : bytes) (c : C) : Prop :=
  In c caps /\ has_prefixb (cname c) rest = true /\
  forall d, In d caps -> has_prefixb (cname d) rest = true -> (length (cname d) <= length (cname c))%nat.

Lemma first_prefix_sorted caps rest :
  len_sorted caps ->
  match first_prefix caps rest with
  | Some c => is_longest caps rest c
  | None => forall d, In d caps -> has_prefixb (cname d) rest = false
  end.
Proof.
  induction caps as [|c t IH]; intros Hs; cbn [first_prefix].
  - intros d [].
  - destruct (has_prefixb (cname c) rest) eqn:E.
    + split; [now left|]. split; [exact E|]. intros d [<-|Hd] _; [lia|]. eapply len_sorted_head; eauto.
    + specialize (IH (len_sorted_tail _ _ Hs)). destruct (first_prefix t rest) as [c'|].
      * destruct IH as (Hin & Hp & Hmax). split; [now right|]. split; [exact Hp|].
        intros d [<-|Hd] Hpd; [congruence|]. now apply Hmax.
      * intros d [<-|Hd]; [exact E|]. now apply IH.
Qed.

Lemma longest_spec caps rest :
  match longest caps rest with
  | Some c => is_longest caps rest c
  | None => forall d, In d caps -> has_prefixb (cname d) rest = false
  end.
Proof.
  induction caps as [|c t IH]; cbn [longest].
  - intros d [].
  - destruct (has_prefixb (cname c) rest) eqn:E.
    + destruct (longest t rest) as [d0|].
      * destruct IH as (Hin & Hp & Hmax).
        destruct (length (cname c) <? length (cname d0))%nat eqn:El.
        -- apply Nat.ltb_lt in El. split; [now right|]. split; [exact Hp|].
           intros d [<-|Hd] Hpd; [lia|]. now apply Hmax.
        -- apply Nat.ltb_ge in El. split; [now left|]. split; [exact E|].
           intros d [<-|Hd] Hpd; [lia|]. specialize (Hmax d Hd Hpd). lia.
      * split; [now left|]. split; [exact E|]. intros d [<-|Hd] Hpd; [lia|]. rewrite IH in Hpd by assumption. discriminate.
    + destruct (longest t rest) as [d0|].
      * destruct IH as (Hin & Hp & Hmax). split; [now right|]. split; [exact Hp|].
        intros d [<-|Hd] Hpd; [congruence|]. now apply Hmax.
      * intros d [<-|Hd]; [exact E|]. now apply IH.
Qed.

Lemma NoDup_map_inj (l : list C) c d : NoDup (map cname l) -> In c l -> In d l -> cname c = cname d -> c = d.
Proof.
  induction l as [|x l IH]; cbn; intros Hn Hc Hd He; [contradiction|].
  inversion Hn as [|? ? Hx Hn']; subst.
  destruct Hc as [<-|Hc], Hd as [<-|Hd]; try reflexivity.
  - exfalso. apply Hx. rewrite He. now apply in_map.
  - exfalso. apply Hx. rewrite <- He. now apply in_map.
  - now apply IH.
Qed.

(* sorting by name length (any order among equal lengths, i.e. also an unstable sort) and taking the first prefix
   hit IS the longest-name match, for all capture sets with distinct names and every template position *)
Theorem first_prefix_is_longest caps caps' rest :
  NoDup (map cname caps) -> Permutation caps caps' -> len_sorted caps' ->
  first_prefix caps' rest = longest caps rest.
Proof.
  intros Hnd Hperm Hs.
  pose proof (first_prefix_sorted caps' rest Hs) as H1. pose proof (longest_spec caps rest) as H2.
  destruct (first_prefix caps' rest) as [c|], (longest caps rest) as [d|]; try reflexivity.
  - destruct H1 as (Hc & Hpc & Hmc), H2 as (Hd & Hpd & Hmd).
    assert (Hc' : In c caps) by (eapply Permutation_in; [symmetry; exact Hperm|exact Hc]).
    assert (Hd' : In d caps') by (eapply Permutation_in; eauto).
    f_equal. apply (NoDup_map_inj caps); auto.
    apply (prefixes_same_length _ _ rest); auto.
    specialize (Hmc d Hd' Hpd). specialize (Hmd c Hc' Hpc). lia.
  - destruct H1 as (Hc & Hpc & _). assert (Hc' : In c caps) by (eapply Permutation_in; [symmetry; exact Hperm|exact Hc]).
    rewrite H2 in Hpc by assumption. discriminate.
  - destruct H2 as (Hd & Hpd & _). assert (Hd' : In d caps') by (eapply Permutation_in; eauto).
    rewrite H1 in Hpd by assumption. discriminate.
Qed.

Lemma interp_ext l1 l2 fuel msg : (forall r, l1 r = l2 r) -> interp l1 fuel msg = interp l2 fuel msg.
Proof.
  intros He. revert msg. induction fuel as [|f IH]; intros msg; [reflexivity|].
  cbn [interp]. destruct msg as [|ch rest]; [reflexivity|].
  destruct (ch =? dollar)%Z; [|now rewrite IH].
  destruct rest as [|ch2 rest']; [rewrite He; destruct (l2 []); [now rewrite IH|reflexivity]|].
  destruct (ch2 =? dollar)%Z; [now rewrite IH|]. rewrite He.
  destruct (l2 (ch2 :: rest')); now rewrite IH.
Qed.

(* render_longest_name: for all templates *)
Theorem render_longest_name caps caps' fuel msg :
  NoDup (map cname caps) -> Permutation caps caps' -> len_sorted caps' ->
  interp (first_prefix caps') fuel msg = interp (longest caps) fuel msg.
Proof. intros Hn Hp Hs. apply interp_ext. intros r. now apply first_prefix_is_longest. Qed.

(* ---- sort.SliceStable(capture, len(name_i) > len(name_j)): modelled by a STABLE insertion sort (captures whose names
   have the same length keep their order). For captures with distinct names any sorted permutation will do
   (first_prefix_is_longest above); when two captures carry the same name -- a regexp may name two groups alike --
   stability is what makes `$name` the FIRST of them (first_prefix_stable_is_longest below). *)
Fixpoint insert_len (c : C) (l : list C) : list C :=
  match l with
  | [] => [c]
  | d :: t => if (length (cname d) <=? length (cname c))%nat then c :: d :: t else d :: insert_len c t
  end.
Fixpoint sort_len (l : list C) : list C := match l with [] => [] | c :: t => insert_len c (sort_len t) end.

Lemma insert_len_perm c l : Permutation (c :: l) (insert_len c l).
Proof.
  induction l as [|d t IH]; cbn [insert_len]; [apply Permutation_refl|].
  destruct (length (cname d) <=? length (cname c))%nat; [apply Permutation_refl|].
  eapply Permutation_trans; [apply perm_swap|]. now apply perm_skip.
Qed.

Lemma sort_len_perm l : Permutation l (sort_len l).
Proof.
  induction l as [|c t IH]; cbn [sort_len]; [constructor|].
  eapply Permutation_trans; [apply perm_skip; exact IH|apply insert_len_perm].
Qed.

Inductive desc : list C -> Prop :=
| desc_nil : desc []
| desc_cons c t : (forall d, In d t -> (length (cname d) <= length (cname c))%nat) -> desc t -> desc (c :: t).

Lemma desc_len_sorted l : desc l -> len_sorted l.
Proof.
  induction 1 as [|c t Hc Ht IH]; intros i j x y Hij Hi Hj.
  - destruct i; discriminate.
  - destruct j as [|j]; [lia|]. destruct i as [|i].
    + cbn in Hi. injection Hi as <-. apply Hc. eapply nth_error_In; exact Hj.
    + apply (IH i j x y); [lia|exact Hi|exact Hj].
Qed.

Lemma insert_len_desc c l : desc l -> desc (insert_len c l).
Proof.
  induction 1 as [|d t Hd Ht IH]; cbn [insert_len].
  - constructor; [intros ? []|constructor].
  - destruct (length (cname d) <=? length (cname c))%nat eqn:E.
    + apply Nat.leb_le in E. constructor; [|now constructor].
      intros x [<-|Hx]; [lia|]. specialize (Hd x Hx). lia.
    + apply Nat.leb_gt in E. constructor; [|exact IH].
      intros x Hx. eapply Permutation_in in Hx; [|symmetry; apply insert_len_perm].
      destruct Hx as [<-|Hx]; [lia|now apply Hd].
Qed.

Lemma sort_len_sorted l : len_sorted (sort_len l).
Proof. apply desc_len_sorted. induction l as [|c t IH]; cbn [sort_len]; [constructor|now apply insert_len_desc]. Qed.

Lemma sort_len_desc l : desc (sort_len l).
Proof. induction l as [|c t IH]; cbn [sort_len]; [constructor|now apply insert_len_desc]. Qed.

Lemma first_prefix_In caps rest c : first_prefix caps rest = Some c -> In c caps.
Proof.
  induction caps as [|d t IH]; cbn [first_prefix]; [discriminate|].
  destruct (has_prefixb (cname d) rest); [intros [= <-]; now left|intros H; right; auto].
Qed.

(* inserting c in front of everything that is not longer: c wins against every later capture of the same length *)
Lemma first_prefix_insert c l rest :
  desc l ->
  first_prefix (insert_len c l) rest =
  if has_prefixb (cname c) rest then
    match first_prefix l rest with
    | Some d => if (length (cname c) <? length (cname d))%nat then Some d else Some c
    | None => Some c
    end
  else first_prefix l rest.
Proof.
  induction 1 as [|d t Hd Ht IH]; cbn [insert_len first_prefix].
  - destruct (has_prefixb (cname c) rest); reflexivity.
  - destruct (length (cname d) <=? length (cname c))%nat eqn:E; cbn [first_prefix].
    + apply Nat.leb_le in E. destruct (has_prefixb (cname c) rest); [|reflexivity].
      destruct (has_prefixb (cname d) rest) eqn:Ed.
      * replace (length (cname c) <? length (cname d))%nat with false by (symmetry; apply Nat.ltb_ge; lia). reflexivity.
      * destruct (first_prefix t rest) as [x|] eqn:Ex; [|reflexivity].
        apply first_prefix_In in Ex. specialize (Hd x Ex).
        replace (length (cname c) <? length (cname x))%nat with false by (symmetry; apply Nat.ltb_ge; lia). reflexivity.
    + apply Nat.leb_gt in E. destruct (has_prefixb (cname d) rest) eqn:Ed.
      * destruct (has_prefixb (cname c) rest); [|reflexivity].
        replace (length (cname c) <? length (cname d))%nat with true by (symmetry; apply Nat.ltb_lt; lia). reflexivity.
      * exact IH.
Qed.

(* the STABLE sort by name length followed by the first prefix hit is the longest-name match with ties resolved in favour
   of the EARLIER capture -- for ALL capture lists, also with repeated names: `$name` is the first capture of that name *)
Theorem first_prefix_stable_is_longest caps rest : first_prefix (sort_len caps) rest = longest caps rest.
Proof.
  induction caps as [|c t IH]; [reflexivity|].
  cbn [sort_len longest]. rewrite first_prefix_insert by apply sort_len_desc. rewrite IH. reflexivity.
Qed.

(* among captures that carry the SAME name the first one is the one a template sees *)
Lemma longest_first_of_name caps rest c :
  longest caps rest = Some c ->
  forall pre d post, caps = pre ++ d :: post -> cname d = cname c ->
    (forall x, In x pre -> cname x <> cname c) -> c = d.
Proof.
  revert c. induction caps as [|e t IH]; intros c; cbn [longest]; [discriminate|].
  intros H pre d post Hsplit Hname Hpre.
  pose proof (longest_spec t rest) as Hs.
  destruct pre as [|p pre]; cbn [app] in Hsplit; injection Hsplit as <- ->.
  - (* d is the head *)
    destruct (has_prefixb (cname e) rest) eqn:Ee.
    + destruct (longest (post) rest) as [d0|] eqn:El.
      * destruct (length (cname e) <? length (cname d0))%nat eqn:Elt; injection H as <-; [|reflexivity].
        apply Nat.ltb_lt in Elt. rewrite Hname in Elt. lia.
      * now injection H as <-.
    + (* the head does not prefix rest, but c (same name) does: impossible *)
      destruct (longest post rest) as [d0|]; [|discriminate]. injection H as <-.
      destruct Hs as (_ & Hp & _). rewrite <- Hname in Hp. congruence.
  - (* d is further down: the head has another name *)
    assert (Hne : cname e <> cname c) by (apply Hpre; now left).
    destruct (has_prefixb (cname e) rest) eqn:Ee.
    + destruct (longest (pre ++ d :: post) rest) as [d0|] eqn:El.
      * destruct (length (cname e) <? length (cname d0))%nat eqn:Elt; injection H as <-.
        -- apply (IH d0 eq_refl pre d post eq_refl Hname). intros x Hx. apply Hpre. now right.
        -- contradiction.
      * injection H as <-. contradiction.
    + apply (IH c H pre d post eq_refl Hname). intros x Hx. apply Hpre. now right.
Qed.

(* renderMessage: captures sorted by name length, first prefix hit *)
Definition render (caps : list C) (msg : bytes) : bytes := interp (first_prefix (sort_len caps)) (S (length msg)) msg.
(* its specification *)
Definition render_spec (caps : list C) (msg : bytes) : bytes := interp (longest caps) (S (length msg)) msg.

Corollary render_is_spec caps msg : NoDup (map cname caps) -> render caps msg = render_spec caps msg.
Proof. intros Hn. apply render_longest_name; [exact Hn|apply sort_len_perm|apply sort_len_sorted]. Qed.

(* with the stable sort the same holds for ALL capture lists (names may repeat) *)
Theorem render_is_spec_any caps msg : render caps msg = render_spec caps msg.
Proof. apply interp_ext. intros r. apply first_prefix_stable_is_longest. Qed.

(* a template without `$` is returned unchanged (the early exit of renderMessage is consistent with the loop) *)
Lemma interp_no_dollar lookup msg fuel :
  (length msg < fuel)%nat -> forallb (fun ch => negb (ch =? dollar)%Z) msg = true -> interp lookup fuel msg = msg.
Proof.
  revert msg. induction fuel as [|f IH]; intros msg Hl Hn; [lia|].
  destruct msg as [|ch rest]; [reflexivity|]. cbn [interp]. cbn in Hn, Hl. apply andb_prop in Hn as [H1 H2].
  destruct (ch =? dollar)%Z; [discriminate|]. f_equal. apply IH; [lia|exact H2].
Qed.
End Render.

(* ------------------------------------------------------------------ concrete captures used by the correspondence *)
(* (name, exact source text of the node, node is `&x` / `&x[i]` / `&x.y`) *)
Definition ccap := (bytes * bytes * bool)%type.
Definition ccap_name (c : ccap) : bytes := fst (fst c).

Definition trim_amp (t : bytes) : bytes := match t with 38%Z :: t' => t' | _ => t end.   (* bytes.TrimPrefix(text, "&") *)
(* runner.go:fixedText *)
Definition fixed_text (fixable : bool) (text following : bytes) : bytes :=
  if fixable && has_prefixb [46%Z] following then trim_amp text else text.

(* text shown for a node: fixedText, then truncation when rendering a message (not a suggestion) *)
Definition shown_text (trunc : option Z) (fixable : bool) (text following : bytes) : bytes :=
  let t := fixed_text fixable text following in
  match trunc with
  | Some l => match shown_oracle t l with Some r => r | None => firstn (Z.to_nat (Z.max (eff_len l) 0)) t end
  | None => t
  end.

Definition ccap_val (trunc : option Z) (c : ccap) (following : bytes) : bytes :=
  shown_text trunc (snd c) (snd (fst c)) following.

Definition render_msg (trunc : option Z) (caps : list ccap) (whole_text : bytes) (whole_fixable : bool) (msg : bytes) : bytes :=
  render ccap_name (ccap_val trunc) (shown_text trunc whole_fixable whole_text) caps msg.
Definition render_msg_spec (trunc : option Z) (caps : list ccap) (whole_text : bytes) (whole_fixable : bool) (msg : bytes) : bytes :=
  render_spec ccap_name (ccap_val trunc) (shown_text trunc whole_fixable whole_text) caps msg.

(* ------------------------------------------------------------------ nodeText and quick-fix application *)
Local Open Scope Z_scope.

(* nodeText with the in-range test abstracted (it is regenerated from source); fb = what the fallbacks would print *)
Definition node_text (in_range : Z -> Z -> bytes -> outcome bool) (src : bytes) (from to : Z) (fb : bytes) : outcome bytes :=
  bind (in_range from to src) (fun ok => if ok : bool then slice src from to else Ok fb).

Definition sub (src : bytes) (from to : Z) : bytes := firstn (Z.to_nat (to - from)) (skipn (Z.to_nat from) src).

Definition apply_edit (src : bytes) (from to : Z) (repl : bytes) : bytes :=
  firstn (Z.to_nat from) src ++ repl ++ skipn (Z.to_nat to) src.

Lemma skipn_skipn_add {A} (m n : nat) (l : list A) : skipn n (skipn m l) = skipn (m + n) l.
Proof.
  revert l. induction m as [|m IH]; intros l; [reflexivity|].
  destruct l as [|x l]; [now rewrite !skipn_nil|]. cbn [skipn Nat.add]. apply IH.
Qed.

(* suggesting a node's own text leaves the file unchanged *)
Theorem suggest_own_text_identity src from to :
  0 <= from -> from <= to -> to <= len src -> apply_edit src from to (sub src from to) = src.
Proof.
  intros H1 H2 H3. unfold apply_edit, sub.
  rewrite <- (firstn_skipn (Z.to_nat from) src) at 4. f_equal.
  rewrite <- (firstn_skipn (Z.to_nat (to - from)) (skipn (Z.to_nat from) src)) at 2. f_equal.
  rewrite skipn_skipn_add. f_equal. lia.
Qed.

(* a replacement touches nothing outside [from, to) *)
Theorem apply_edit_outside src from to repl :
  0 <= from -> from <= to -> to <= len src ->
  firstn (Z.to_nat from) (apply_edit src from to repl) = firstn (Z.to_nat from) src /\
  skipn (Z.to_nat from + length repl) (apply_edit src from to repl) = skipn (Z.to_nat to) src.
Proof.
  intros H1 H2 H3. unfold apply_edit, len in *.
  assert (Hl : length (firstn (Z.to_nat from) src) = Z.to_nat from) by (rewrite firstn_length; lia).
  split.
  - rewrite firstn_app, Hl, Nat.sub_diag. cbn [firstn]. rewrite app_nil_r. rewrite firstn_firstn. f_equal. lia.
  - rewrite skipn_app, Hl. replace (Z.to_nat from + length repl - Z.to_nat from)%nat with (length repl) by lia.
    rewrite (skipn_all2 (firstn _ _)) by (rewrite Hl; lia). cbn [app].
    rewrite skipn_app, skipn_all, Nat.sub_diag. reflexivity.
Qed.
(* ------------------------------------------------------------------ the report (handleMatch / handleCommentMatch) *)
Record mnode := { n_pos : Z; n_end : Z; n_text : bytes; n_fix : bool }.

Record mrule := {
  r_msg : bytes;                (* Report template *)
  r_sugg : bytes;               (* Suggest template, [] = none *)
  r_loc : option bytes;         (* At(m["v"]) *)
  r_line : Z                    (* line of the pattern alternative this rule was loaded from *)
}.

Record mreport := {
  rep_pos : Z; rep_end : Z; rep_msg : bytes;
  rep_sugg : option (Z * Z * bytes);   (* From, To, Replacement *)
  rep_line : Z
}.

Fixpoint captured_by_name (v : bytes) (caps : list (bytes * mnode)) : option mnode :=
  match caps with
  | [] => None
  | (n, nd) :: t => if bytes_eqb n v then Some nd else captured_by_name v t
  end.

Definition ccaps_of (caps : list (bytes * mnode)) : list ccap := map (fun p => (fst p, n_text (snd p), n_fix (snd p))) caps.

(* CapturedByName as handleMatch uses it for At(): "$$" is the match itself; a capture that matched nothing (an empty `$*xs`
   list, a typed nil) has no position to report at -- the match is reported then. File offsets are >= 0, a negative n_pos
   stands for token.NoPos. *)
Definition dollar_dollar : bytes := [36; 36].
Definition absent (nd : mnode) : bool := n_pos nd <? 0.
Definition loc_node (v : bytes) (whole : mnode) (caps : list (bytes * mnode)) : option mnode :=
  if bytes_eqb v dollar_dollar then Some whole
  else match captured_by_name v caps with
       | Some nd => Some (if absent nd then whole else nd)
       | None => None
       end.

Lemma loc_node_whole whole caps : loc_node dollar_dollar whole caps = Some whole.
Proof. unfold loc_node. rewrite (proj2 (bytes_eqb_eq _ _) eq_refl). reflexivity. Qed.

Lemma loc_node_capture v whole caps nd :
  v <> dollar_dollar -> captured_by_name v caps = Some nd ->
  loc_node v whole caps = Some (if absent nd then whole else nd).
Proof.
  intros Hv Hc. unfold loc_node. destruct (bytes_eqb v dollar_dollar) eqn:E.
  - apply bytes_eqb_eq in E. contradiction.
  - rewrite Hc. reflexivity.
Qed.

(* None = the At() variable is not bound (rejected at load time by a separate check, C06) *)
Definition mk_report (r : mrule) (l : Z) (whole : mnode) (caps : list (bytes * mnode)) : option mreport :=
  match (match r_loc r with None => Some whole | Some v => loc_node v whole caps end) with
  | None => None
  | Some node =>
      let msg := render_msg (Some l) (ccaps_of caps) (n_text whole) (n_fix whole) (r_msg r) in
      let st := match r_sugg r with [] => [] | tpl => render_msg None (ccaps_of caps) (n_text whole) (n_fix whole) tpl end in
      Some {| rep_pos := n_pos node; rep_end := n_end node; rep_msg := msg;
              rep_sugg := match st with [] => None | _ => Some (n_pos node, n_end node, st) end;
              rep_line := r_line r |}
  end.

(* at_relocates / suggestion_range: the reported node is the At() capture when given (the match itself for "$$" and for a capture
   that matched nothing), else the whole match, and a suggestion replaces exactly the reported node's byte range *)
Theorem at_relocates r l whole caps rep :
  mk_report r l whole caps = Some rep ->
  exists node, (match r_loc r with None => node = whole | Some v => loc_node v whole caps = Some node end) /\
               rep_pos rep = n_pos node /\ rep_end rep = n_end node /\
               (forall f t s, rep_sugg rep = Some (f, t, s) -> f = n_pos node /\ t = n_end node).
Proof.
  unfold mk_report. destruct (r_loc r) as [v|].
  - destruct (loc_node v whole caps) as [node|] eqn:E; [|discriminate]. intros [= <-]. exists node. cbn.
    repeat split; auto; destruct (match r_sugg r with [] => [] | _ => _ end); congruence.
  - intros [= <-]. exists whole. cbn.
    repeat split; auto; destruct (match r_sugg r with [] => [] | _ => _ end); congruence.
Qed.

(* suggest_untruncated: the replacement is the Suggest template interpolated with UNtruncated texts *)
Theorem suggest_untruncated r l whole caps rep f t s :
  mk_report r l whole caps = Some rep -> rep_sugg rep = Some (f, t, s) ->
  s = render_msg None (ccaps_of caps) (n_text whole) (n_fix whole) (r_sugg r).
Proof.
  unfold mk_report. destruct (match r_loc r with None => Some whole | Some v => _ end) as [node|]; [|discriminate].
  intros [= <-]. cbn [rep_sugg]. destruct (r_sugg r) as [|c tpl] eqn:E; [intros H; discriminate H|].
  remember (render_msg None (ccaps_of caps) (n_text whole) (n_fix whole) (c :: tpl)) as st.
  destruct st; intros H; [discriminate H|]. injection H as _ _ <-. reflexivity.
Qed.

(* loader: one rule per pattern alternative, each carrying its alternative's line (loadSyntaxRule / loadCommentRule) *)
Definition load_alternatives (proto : mrule) (alt_lines : list Z) : list mrule :=
  map (fun ln => {| r_msg := r_msg proto; r_sugg := r_sugg proto; r_loc := r_loc proto; r_line := ln |}) alt_lines.

Theorem rule_line_is_alternative_line proto alt_lines i ln :
  nth_error alt_lines i = Some ln ->
  exists r, nth_error (load_alternatives proto alt_lines) i = Some r /\ r_line r = ln /\ r_msg r = r_msg proto.
Proof.
  intros H. unfold load_alternatives. eexists. split; [apply map_nth_error; exact H|]. split; reflexivity.
Qed.
