(* C01: Load calls that fail.  A rule set carries the names of its groups; mergeRuleSets appends a set's rules and
   then checks its groups against the ones it has, returning an error at the first clash ("redefinition of X()").
   Whether the rules of a rejected file reach the live rule set depends on WHERE the merge accumulates: in a fresh
   set that is thrown away on error (the engine keeps its old set), or in place in its first argument.  The mode is
   read from the source on every run. *)
From Coq Require Import List NArith Lia Bool Arith.
From RG.Engine Require Import Dispatch.
Import ListNotations.

Inductive merge_mode := MergeFresh | MergeInPlaceFirst.

Section LoadFail.
Variable cmode : count_mode.
Variable kmode : comment_mode.
Variable nb : nat.

Local Notation merge2 := (merge2 cmode kmode nb).
Local Notation merge_all := (merge_all cmode kmode nb).
Local Notation engine_load := (engine_load cmode kmode nb).

Record gset := { g_rules : rset; g_names : list N }.

Definition gclash (have new : list N) : bool := existsb (fun g => nmem g have) new.

(* one round of the loop of mergeRuleSets: the rules of x are appended, then its groups are checked (on a clash the
   groups registered before the clashing one stay; which ones is the iteration order of a Go map -- all of them here,
   it does not matter for the rules) *)
Definition gstep (acc x : gset) : gset * bool :=
  ({| g_rules := merge2 (g_rules acc) (g_rules x); g_names := g_names acc ++ g_names x |},
   negb (gclash (g_names acc) (g_names x))).

Fixpoint gloop (acc : gset) (sets : list gset) : gset * bool :=
  match sets with
  | [] => (acc, true)
  | x :: r => let (acc', ok) := gstep acc x in if ok then gloop acc' r else (acc', false)
  end.

Definition empty_gset : gset := {| g_rules := empty_set; g_names := [] |}.

(* mergeRuleSets (first :: rest): what the object `first` holds afterwards, and the result (None: an error) *)
Definition gmerge (mode : merge_mode) (first : gset) (rest : list gset) : gset * option gset :=
  match mode with
  | MergeFresh => let (out, ok) := gloop empty_gset (first :: rest) in (first, if ok then Some out else None)
  | MergeInPlaceFirst => let (out, ok) := gloop first rest in (out, if ok then Some out else None)
  end.

(* Engine.Load / LoadFromIR. The call: None -- the loader itself failed (the file does not parse / type-check, a pattern
   is rejected, its bundles clash); Some fs -- LoadFile produced the set fs. The engine: None -- no rule set yet. On an
   error of the merge the engine's pointer is not reassigned: it keeps the object it had, in the state the merge left it. *)
Definition gengine_load (mode : merge_mode) (e : option gset) (c : option gset) : option gset :=
  match c with
  | None => e
  | Some fs =>
    match e with
    | None => Some fs
    | Some s => match gmerge mode s [fs] with
                | (_, Some out) => Some out
                | (s', None) => Some s'
                end
    end
  end.

Definition ghistory (mode : merge_mode) (e : option gset) (calls : list (option gset)) : option gset :=
  fold_left (gengine_load mode) calls e.

(* the specification: a call is accepted iff its loader succeeded and none of its groups is loaded already *)
Definition gaccepts (e : option gset) (c : option gset) : bool :=
  match c, e with
  | None, _ => false
  | Some _, None => true
  | Some fs, Some s => negb (gclash (g_names s) (g_names fs))
  end.

Lemma gclash_nil new : gclash [] new = false.
Proof. induction new as [|g new IH]; [reflexivity|]. cbn. exact IH. Qed.

Lemma merge2_empty_l s : merge2 empty_set s =
  {| rs_buckets := merge empty (rs_buckets s);
     rs_cnum := rs_cnum (merge2 empty_set s); rs_comments := rs_comments (merge2 empty_set s) |}.
Proof. reflexivity. Qed.

(* a rejected call leaves the engine exactly as it was *)
Theorem fresh_rejected_is_noop e c : gaccepts e c = false -> gengine_load MergeFresh e c = e.
Proof.
  destruct c as [fs|]; [|reflexivity]. destruct e as [s|]; [|discriminate]. cbn [gaccepts]. intros H.
  apply negb_false_iff in H. unfold gengine_load, gmerge. cbn [gloop gstep g_names empty_gset].
  rewrite gclash_nil. cbn [negb app]. rewrite H. reflexivity.
Qed.

(* an accepted call: the rules are those of Dispatch.engine_load, the names are appended *)
Theorem fresh_accepted e c fs : c = Some fs -> gaccepts e c = true ->
  exists out, gengine_load MergeFresh e c = Some out /\
              Some (g_rules out) = engine_load (option_map g_rules e) (g_rules fs) /\
              g_names out = match e with Some s => g_names s | None => [] end ++ g_names fs.
Proof.
  intros -> H. destruct e as [s|].
  - cbn [gaccepts] in H. apply negb_true_iff in H. unfold gengine_load, gmerge. cbn [gloop gstep g_names empty_gset].
    rewrite gclash_nil. cbn [negb app]. rewrite H. cbn [negb]. eexists. split; [reflexivity|]. split; reflexivity.
  - eexists. split; [reflexivity|]. split; reflexivity.
Qed.

(* the calls of a history that are accepted, decided along the way *)
Fixpoint gaccepted (e : option gset) (calls : list (option gset)) : list gset :=
  match calls with
  | [] => []
  | c :: r => if gaccepts e c
              then match c with Some fs => fs :: gaccepted (gengine_load MergeFresh e c) r | None => gaccepted e r end
              else gaccepted e r
  end.

(* whatever the sequence of Load calls -- rejected ones anywhere in it --, the engine holds what the accepted calls
   alone produce *)
Theorem fresh_history_is_accepted_history e calls :
  ghistory MergeFresh e calls = ghistory MergeFresh e (map Some (gaccepted e calls)).
Proof.
  revert e. induction calls as [|c r IH]; intros e; [reflexivity|]. cbn [ghistory fold_left gaccepted].
  destruct (gaccepts e c) eqn:A.
  - destruct c as [fs|]; [|discriminate]. cbn [map fold_left]. apply IH.
  - rewrite (fresh_rejected_is_noop e c A). apply IH.
Qed.

(* ... and its rules are those of the engine of Dispatch.v that was given the accepted files only *)
Theorem fresh_history_rules calls : forall e,
  option_map g_rules (ghistory MergeFresh e calls) =
  fold_left engine_load (map g_rules (gaccepted e calls)) (option_map g_rules e).
Proof.
  induction calls as [|c r IH]; intros e; [reflexivity|]. cbn [ghistory fold_left gaccepted].
  destruct (gaccepts e c) eqn:A.
  - destruct c as [fs|]; [|discriminate]. cbn [map fold_left].
    destruct (fresh_accepted e (Some fs) fs eq_refl A) as (out & E & R & _). fold (ghistory MergeFresh (gengine_load MergeFresh e (Some fs)) r).
    rewrite IH. rewrite E. cbn [option_map]. rewrite R. reflexivity.
  - rewrite (fresh_rejected_is_noop e c A). fold (ghistory MergeFresh e r). apply IH.
Qed.
End LoadFail.

(* merging in place into the engine's own set: the rules of a rejected file are in the live rule set *)
Lemma in_place_refuted :
  let a := {| g_rules := load_set [] [] [ {| r_id := 0; r_tag := 5 |} ] []; g_names := [1%N] |} in
  let b := {| g_rules := load_set [] [] [ {| r_id := 1; r_tag := 5 |} ] []; g_names := [2%N; 1%N] |} in
  gaccepts (Some a) (Some b) = false /\
  option_map (fun s => map r_id (rs_buckets (g_rules s) 5%N)) (gengine_load CountPerBucket CommentsAppend 49 MergeInPlaceFirst (Some a) (Some b)) = Some [0%N; 1%N] /\
  option_map (fun s => map r_id (rs_buckets (g_rules s) 5%N)) (gengine_load CountPerBucket CommentsAppend 49 MergeFresh (Some a) (Some b)) = Some [0%N].
Proof. vm_compute. auto. Qed.
