(* C15: specification of text truncation, independent of the implementation. *)
From Coq Require Import List ZArith Lia Bool.
From RG.Base Require Import Outcome GoInt GoSlice.
Import ListNotations.
Local Open Scope Z_scope.

Definition marker : bytes := [60; 46; 46; 46; 62].   (* "<...>" *)

Lemma len_marker_app (q : bytes) : len (marker ++ q) = 5 + len q.
Proof. unfold len, marker. cbn [app length]. lia. Qed.

(* effective TruncateLen: 60 when unset *)
Definition eff_len (l : Z) : Z := if l =? 0 then 60 else l.

(* r is "s shortened to exactly n bytes around the marker" *)
Definition shortened (s : bytes) (n : Z) (r : bytes) : Prop :=
  exists p q, r = p ++ marker ++ q /\ is_prefix p s /\ is_suffix q s /\ len r = n.

(* the specification of what a message shows for a captured text s under TruncateLen setting l *)
Definition shown_spec (s : bytes) (l : Z) (r : bytes) : Prop :=
  (len s <= eff_len l -> r = s) /\
  (eff_len l < len s -> 5 <= eff_len l -> shortened s (eff_len l) r).

(* executable version of the specification, used as the oracle of the correspondence check *)
Definition shown_oracle (s : bytes) (l : Z) : option bytes :=
  let e := eff_len l in
  if len s <=? e then Some s
  else if 5 <=? e then
    let m := e - 5 in
    let lft := Z.quot m 2 in
    let rgt := m - lft in
    Some (firstn (Z.to_nat lft) s ++ marker ++ skipn (Z.to_nat (len s - rgt)) s)
  else None (* no room for the marker: the property only demands that nothing fails *).

(* the oracle satisfies the spec whenever it answers *)
Lemma shown_oracle_sound s l r : shown_oracle s l = Some r -> shown_spec s l r.
Proof.
  unfold shown_oracle, shown_spec. set (e := eff_len l).
  destruct (len s <=? e) eqn:E1.
  - intros [= <-]. split; [reflexivity|lia].
  - destruct (5 <=? e) eqn:E2; [|discriminate].
    intros [= <-]. split; [lia|]. intros _ _.
    assert (Hm : 0 <= e - 5) by lia.
    pose proof (Z.quot_rem' (e - 5) 2) as Hqr.
    pose proof (Z.rem_bound_pos (e - 5) 2 Hm ltac:(lia)) as Hb.
    set (lft := Z.quot (e - 5) 2) in *.
    exists (firstn (Z.to_nat lft) s), (skipn (Z.to_nat (len s - ((e - 5) - lft))) s).
    split; [reflexivity|]. split; [apply firstn_is_prefix|]. split; [apply skipn_is_suffix|].
    pose proof (len_nonneg s) as Hs. unfold len in *.
    rewrite app_length, firstn_length. cbn [length app marker]. rewrite skipn_length. lia.
Qed.

(* --- limits with no room for the marker (TruncateLen below 5, negative ones included) ---
   The property's "exactly TruncateLen bytes long" cannot be met with the marker there; the reading used by the
   specification below is the remaining part of that sentence: the text shown is never longer than the limit --
   it is the plain prefix of max(limit, 0) bytes. *)
Definition shown_spec_full (s : bytes) (l : Z) (r : bytes) : Prop :=
  shown_spec s l r /\
  (eff_len l < len s -> eff_len l < 5 -> is_prefix r s /\ len r = Z.max (eff_len l) 0).

Definition shown_total (s : bytes) (l : Z) : bytes :=
  match shown_oracle s l with
  | Some r => r
  | None => firstn (Z.to_nat (Z.max (eff_len l) 0)) s
  end.

Lemma shown_total_sound s l : shown_spec_full s l (shown_total s l).
Proof.
  unfold shown_total, shown_spec_full.
  destruct (shown_oracle s l) as [r|] eqn:E.
  - split; [now apply shown_oracle_sound|].
    intros Hlong Hsmall. unfold shown_oracle in E.
    destruct (len s <=? eff_len l) eqn:E1; [lia|].
    destruct (5 <=? eff_len l) eqn:E2; [lia|discriminate].
  - unfold shown_oracle in E.
    destruct (len s <=? eff_len l) eqn:E1; [discriminate|].
    destruct (5 <=? eff_len l) eqn:E2; [discriminate|].
    split.
    + split; intros; lia.
    + intros Hlong Hsmall. split; [apply firstn_is_prefix|].
      pose proof (len_nonneg s) as Hs. apply len_firstn. lia.
Qed.
