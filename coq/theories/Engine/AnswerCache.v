(* C09: answers an engine keeps between runs (types by name, imported packages).

   An engine-wide table remembers what a resolver answered for a key. The resolver is deterministic (what a fresh engine
   answers); it may fail. The table is filled on the way out of a lookup; the question is WHEN: only after the error that
   came with the answer has been looked at (StoreChecked), or whatever came back (StoreAlways: a failed lookup leaves the
   junk value that accompanies the error -- nil -- under the key).

   checked_history_independent: with StoreChecked every lookup of every sequence, from any sound table, answers what the
   resolver answers -- what ran before is invisible. always_refuted: with StoreAlways the second lookup of a failing key
   succeeds with the junk value. *)
From Coq Require Import List Bool.
Import ListNotations.

Section AnswerCache.
  Variables key val err : Type.
  Variable key_eqb : key -> key -> bool.
  Hypothesis key_eqb_spec : forall a b, reflect (a = b) (key_eqb a b).
  Variable resolve : key -> val + err.
  Variable junk : val.

  Inductive store_policy := StoreChecked | StoreAlways.

  Definition table := list (key * val).

  Fixpoint lookup (k : key) (c : table) : option val :=
    match c with
    | [] => None
    | (k', v) :: r => if key_eqb k k' then Some v else lookup k r
    end.

  Definition ask (p : store_policy) (c : table) (k : key) : (val + err) * table :=
    match lookup k c with
    | Some v => (inl v, c)
    | None => match resolve k with
              | inl v => (inl v, (k, v) :: c)
              | inr e => (inr e, match p with StoreChecked => c | StoreAlways => (k, junk) :: c end)
              end
    end.

  Fixpoint asks (p : store_policy) (c : table) (ks : list key) : list (val + err) * table :=
    match ks with
    | [] => ([], c)
    | k :: r => let '(a, c1) := ask p c k in
                let '(rest, c2) := asks p c1 r in (a :: rest, c2)
    end.

  (* a table holds correct entries only *)
  Definition sound (c : table) : Prop := forall k v, lookup k c = Some v -> resolve k = inl v.

  Lemma sound_nil : sound [].
  Proof. intros k v H. discriminate. Qed.

  Lemma ask_checked c k : sound c ->
    fst (ask StoreChecked c k) = resolve k /\ sound (snd (ask StoreChecked c k)).
  Proof.
    intros S. unfold ask. destruct (lookup k c) as [v|] eqn:L.
    - split; [cbn; symmetry; apply S; exact L | exact S].
    - destruct (resolve k) as [v|e] eqn:R; cbn [fst snd].
      + split; [reflexivity|]. intros k' v' H. cbn in H.
        destruct (key_eqb_spec k' k) as [->|N]; [inversion H; subst; exact R | apply S; exact H].
      + split; [reflexivity | exact S].
  Qed.

  Theorem checked_history_independent : forall ks c, sound c ->
    fst (asks StoreChecked c ks) = map resolve ks /\ sound (snd (asks StoreChecked c ks)).
  Proof.
    induction ks as [|k r IH]; intros c S; cbn [asks map].
    - split; [reflexivity | exact S].
    - destruct (ask_checked c k S) as [A S1].
      destruct (ask StoreChecked c k) as [a c1] eqn:E. cbn [fst snd] in A, S1.
      destruct (IH c1 S1) as [B S2].
      destruct (asks StoreChecked c1 r) as [rest c2] eqn:E2. cbn [fst snd] in *.
      split; [congruence | exact S2].
  Qed.

  Corollary checked_fresh_engine : forall ks, fst (asks StoreChecked [] ks) = map resolve ks.
  Proof. intros ks. apply checked_history_independent. apply sound_nil. Qed.

  (* the same key asked twice on a fresh table, the resolver failing: the second answer is a success carrying junk *)
  Theorem always_refuted : forall k e, resolve k = inr e ->
    fst (asks StoreAlways [] [k; k]) = [inr e; inl junk].
  Proof.
    intros k e R. cbn [asks]. unfold ask at 1. cbn [lookup]. rewrite R.
    unfold ask. cbn [lookup]. destruct (key_eqb_spec k k) as [_|N]; [reflexivity | congruence].
  Qed.
End AnswerCache.

