(* C09: answers an engine keeps between runs (types by name, imported packages).

   An engine-wide table remembers what a resolver answered for a key. The resolver is deterministic (what a fresh engine
   answers); it may fail. The table is filled on the way out of a lookup; the question is WHEN: only after the error that
   came with the answer has been looked at (StoreChecked), or whatever came back (StoreAlways: a failed lookup leaves the
   junk value that accompanies the error -- nil -- under the key).

   checked_history_independent: with StoreChecked every lookup of every sequence, from any sound table, answers what the
   resolver answers -- what ran before is invisible. always_refuted: with StoreAlways the second lookup of a failing key
   succeeds with the junk value. *)
From Coq Require Import List Bool.
Import ListNotations.

Section AnswerCache.
  Variables key val err : Type.
  Variable key_eqb : key -> key -> bool.
  Hypothesis key_eqb_spec : forall a b, reflect (a = b) (key_eqb a b).
  Variable resolve : key -> val + err.
  Variable junk : val.

  Inductive store_policy := StoreChecked | StoreAlways.

  Definition table := list (key * val).

  Fixpoint lookup (k : key) (c : table) : option val :=
    match c with
    | [] => None
    | (k', v) :: r => if key_eqb k k' then Some v else lookup k r
    end.

  Definition ask (p : store_policy) (c : table) (k : key) : (val + err) * table :=
    match lookup k c with
    | Some v => (inl v, c)
    | None => match resolve k with
              | inl v => (inl v, (k, v) :: c)
              | inr e => (inr e, match p with StoreChecked => c | StoreAlways => (k, junk) :: c end)
              end
    end.

  Fixpoint asks (p : store_policy) (c : table) (ks : list key) : list (val + err) * table :=
    match ks with
    | [] => ([], c)
    | k :: r => let '(a, c1) := ask p c k in
                let '(rest, c2) := asks p c1 r in (a :: rest, c2)
    end.

  (* a table holds correct entries only *)
  Definition sound (c : table) : Prop := forall k v, lookup k c = Some v -> resolve k = inl v.

  Lemma sound_nil : sound [].
  Proof. intros k v H. discriminate. Qed.

  Lemma ask_checked c k : sound c ->
    fst (ask StoreChecked c k) = resolve k /\ sound (snd (ask StoreChecked c k)).
  Proof.
    intros S. unfold ask. destruct (lookup k c) as [v|] eqn:L.
    - split; [cbn; symmetry; apply S; exact L | exact S].
    - destruct (resolve k) as [v|e] eqn:R; cbn [fst snd].
      + split; [reflexivity|]. intros k' v' H. cbn in H.
        destruct (key_eqb_spec k' k) as [->|N]; [inversion H; subst; exact R | apply S; exact H].
      + split; [reflexivity | exact S].
  Qed.

  Theorem checked_history_independent : forall ks c, sound c ->
    fst (asks StoreChecked c ks) = map resolve ks /\ sound (snd (asks StoreChecked c ks)).
  Proof.
    induction ks as [|k r IH]; intros c S; cbn [asks map].
    - split; [reflexivity | exact S].
    - destruct (ask_checked c k S) as [A S1].
      destruct (ask StoreChecked c k) as [a c1] eqn:E. cbn [fst snd] in A, S1.
      destruct (IH c1 S1) as [B S2].
      destruct (asks StoreChecked c1 r) as [rest c2] eqn:E2. cbn [fst snd] in *.
      split; [congruence | exact S2].
  Qed.

  Corollary checked_fresh_engine : forall ks, fst (asks StoreChecked [] ks) = map resolve ks.
  Proof. intros ks. apply checked_history_independent. apply sound_nil. Qed.

  (* the same key asked twice on a fresh table, the resolver failing: the second answer is a success carrying junk *)
  Theorem always_refuted : forall k e, resolve k = inr e ->
    fst (asks StoreAlways [] [k; k]) = [inr e; inl junk].
  Proof.
    intros k e R. cbn [asks]. unfold ask at 1. cbn [lookup]. rewrite R.
    unfold ask. cbn [lookup]. destruct (key_eqb_spec k k) as [_|N]; [reflexivity | congruence].
  Qed.
End AnswerCache.


(* A negative memo in front of the table (FindType since d9e46be): a lookup first searches a place of its own -- the
   dependencies of the package being checked -- and only when that has nothing asks the second stage. A per-run memo keeps what
   the first stage said: its answer (when `keep` says so: answers that came with an error are not kept), or the MARKER "nothing
   there" (a nil entry). A marker is never served as an answer: it only spares the search, the second stage is asked as if the
   first one had just said "nothing".

   memo_history_independent: from any sound memo every lookup of every sequence answers what the two stages answer without a
   memo. marker_served_refuted: a reader that takes the marker for an answer is wrong on the second lookup. *)
Section NegativeMemo.
  Variables key ans : Type.
  Variable key_eqb : key -> key -> bool.
  Hypothesis key_eqb_spec : forall a b, reflect (a = b) (key_eqb a b).
  Variable first : key -> option ans.
  Variable second : key -> ans.
  Variable keep : ans -> bool.

  Definition resolve2 (k : key) : ans := match first k with Some a => a | None => second k end.

  Definition memo := list (key * option ans).

  Fixpoint mlookup (k : key) (m : memo) : option (option ans) :=
    match m with
    | [] => None
    | (k', o) :: r => if key_eqb k k' then Some o else mlookup k r
    end.

  (* marker_is_answer = false: the engine's reader (`known && typ != nil`); true: a reader that returns what the memo holds *)
  Definition ask2 (marker_is_answer : option ans) (m : memo) (k : key) : ans * memo :=
    match mlookup k m with
    | Some (Some a) => (a, m)
    | Some None => match marker_is_answer with Some junk => (junk, m) | None => (second k, m) end
    | None => match first k with
              | Some a => (a, if keep a then (k, Some a) :: m else m)
              | None => (second k, (k, None) :: m)
              end
    end.

  Fixpoint asks2 (mia : option ans) (m : memo) (ks : list key) : list ans * memo :=
    match ks with
    | [] => ([], m)
    | k :: r => let '(a, m1) := ask2 mia m k in
                let '(rest, m2) := asks2 mia m1 r in (a :: rest, m2)
    end.

  Definition msound (m : memo) : Prop := forall k o, mlookup k m = Some o -> first k = o.

  Lemma msound_nil : msound [].
  Proof. intros k o H. discriminate. Qed.

  Lemma msound_cons m k o : msound m -> first k = o -> msound ((k, o) :: m).
  Proof.
    intros S F k' o' H. cbn in H.
    destruct (key_eqb_spec k' k) as [->|N]; [inversion H; subst; reflexivity | apply S; exact H].
  Qed.

  Lemma ask2_sound m k : msound m ->
    fst (ask2 None m k) = resolve2 k /\ msound (snd (ask2 None m k)).
  Proof.
    intros S. unfold ask2, resolve2. destruct (mlookup k m) as [[a|]|] eqn:L.
    - rewrite (S _ _ L). split; [reflexivity | exact S].
    - rewrite (S _ _ L). split; [reflexivity | exact S].
    - destruct (first k) as [a|] eqn:F; cbn [fst snd].
      + split; [reflexivity|]. destruct (keep a); [apply msound_cons; assumption | exact S].
      + split; [reflexivity | apply msound_cons; assumption].
  Qed.

  Theorem memo_history_independent : forall ks m, msound m ->
    fst (asks2 None m ks) = map resolve2 ks /\ msound (snd (asks2 None m ks)).
  Proof.
    induction ks as [|k r IH]; intros m S; cbn [asks2 map].
    - split; [reflexivity | exact S].
    - destruct (ask2_sound m k S) as [A S1].
      destruct (ask2 None m k) as [a m1] eqn:E. cbn [fst snd] in A, S1.
      destruct (IH m1 S1) as [B S2].
      destruct (asks2 None m1 r) as [rest m2] eqn:E2. cbn [fst snd] in *.
      split; [congruence | exact S2].
  Qed.

  Corollary memo_fresh_run : forall ks, fst (asks2 None [] ks) = map resolve2 ks.
  Proof. intros ks. apply memo_history_independent. apply msound_nil. Qed.

  Theorem marker_served_refuted : forall k junk, first k = None ->
    fst (asks2 (Some junk) [] [k; k]) = [second k; junk].
  Proof.
    intros k junk F. cbn [asks2]. unfold ask2 at 1. cbn [mlookup]. rewrite F.
    unfold ask2. cbn [mlookup]. destruct (key_eqb_spec k k) as [_|N]; [reflexivity | congruence].
  Qed.
End NegativeMemo.
