(* C12: runCommentRules in the form in which go2coq regenerates it from the source (nested range loops with break /
   continue over explicit loop states), and the bridge to CommentSpec's model: a rule loop whose body does rule_step on
   every rule is CommentSpec.run_comment_rules, a group loop whose body does group_step on every group is
   CommentSpec.group_caps_from. *)
From Coq Require Import List ZArith Lia Bool Arith.
From RG.Base Require Import Outcome GoInt GoSlice.
From RG.Regex Require Import Utf8.
From RG.Engine Require Import TruncateSpec RenderSpec RenderLoop CommentSpec.
Import ListNotations.
Local Open Scope Z_scope.

(* `for i, x := range xs { body }` over a loop state; the body says break / next element (continue, end of body) *)
Fixpoint range_loop {X S : Type} (xs : list X) (i : Z) (body : Z -> X -> S -> outcome (ctl S)) (st : S) : outcome S :=
  match xs with
  | [] => Ok st
  | x :: t => bind (body i x st) (fun r => match r with Brk s => Ok s | Nxt s => range_loop t (i + 1) body s end)
  end.

Lemma is_empty_eqb (b : bytes) : bytes_eqb b [] = is_empty b.
Proof. destruct b; reflexivity. Qed.

Lemma index_firstn2 (res : list Z) i : 0 <= i < 2 -> index (firstn 2 res) i = index res i.
Proof.
  intros Hi. unfold index.
  assert (Hl : forall s : list Z, (0 <=? i) && (i <? len s) = (Z.to_nat i <? length s)%nat).
  { intros s. unfold len. destruct (Nat.ltb_spec (Z.to_nat i) (length s)); lia. }
  rewrite !Hl. assert (Z.to_nat i = 0%nat \/ Z.to_nat i = 1%nat) as [-> | ->] by lia;
    destruct res as [|a [|b r]]; reflexivity.
Qed.

(* the operations on the match data that the translation names *)
Definition md_add (m : mdata) (name : bytes) (nd : mnode) : mdata := {| md_caps := md_caps m ++ [(name, nd)]; md_node := md_node m |}.
Definition md_set (m : mdata) (nd : mnode) : mdata := {| md_caps := md_caps m; md_node := Some nd |}.

Section Bridge.
Variable in_range : Z -> Z -> bytes -> outcome bool.
Variable re_match : bytes -> bytes -> option bool.
Variable l : Z.
Variable src : bytes.
Variable off : Z.
Variable text : bytes.

(* &ast.Comment{Slash: file.Pos(off + ..), Text: t}: the node together with the text nodeText yields for it; pos is the
   FILE OFFSET of the slash *)
Definition comment_node (pos : Z) (t : bytes) : outcome mnode :=
  bind (node_text in_range src pos (pos + len t) t) (fun shown =>
  Ok {| n_pos := pos; n_end := pos + len t; n_text := shown; n_fix := false |}).

Lemma cnode_comment_node b e :
  cnode in_range src off text b e = bind (slice text b e) (fun t => comment_node (off + b) t).
Proof. reflexivity. Qed.

Lemma cnode_0_0 : cnode in_range src off text 0 0 = comment_node off [].
Proof.
  unfold cnode. rewrite slice_ok by (unfold len; lia). cbn [bind]. change (Z.to_nat (0 - 0)) with 0%nat. cbn [firstn].
  unfold comment_node. rewrite Z.add_0_r. reflexivity.
Qed.

(* what the body of the group loop does for group i named name *)
Definition group_step (res : list Z) (i : Z) (name : bytes) (m : mdata) : outcome (ctl mdata) :=
  if (i =? 0) || is_empty name then Ok (Nxt m)
  else
    bind (index res (i * 2 + 0)) (fun b =>
    bind (index res (i * 2 + 1)) (fun e =>
    bind (if (b <? 0) || (e <? 0) then cnode in_range src off text 0 0 else cnode in_range src off text b e) (fun nd =>
    Ok (Nxt (md_add m name nd))))).

Lemma group_loop_is_group_caps (res : list Z) (body : Z -> bytes -> mdata -> outcome (ctl mdata)) :
  (forall i name m, body i name m = group_step res i name m) ->
  forall names k m,
  range_loop names (Z.of_nat k) body m =
  bind (group_caps_from in_range src off text k names res) (fun caps => Ok {| md_caps := md_caps m ++ caps; md_node := md_node m |}).
Proof.
  intros Hb. induction names as [|name rest IH]; intros k m.
  - cbn [range_loop group_caps_from bind]. rewrite app_nil_r. destruct m; reflexivity.
  - cbn [range_loop group_caps_from]. rewrite Hb. unfold group_step.
    replace (Z.of_nat k =? 0) with (k =? 0)%nat by (destruct k; reflexivity).
    replace (Z.of_nat k + 1) with (Z.of_nat (S k)) by lia.
    destruct ((k =? 0)%nat || is_empty name); cbn [bind]; [apply IH|].
    destruct (index res (Z.of_nat k * 2 + 0)) as [b|w]; cbn [bind]; [|reflexivity].
    destruct (index res (Z.of_nat k * 2 + 1)) as [e|w]; cbn [bind]; [|reflexivity].
    destruct (if (b <? 0) || (e <? 0) then _ else _) as [nd|w]; cbn [bind]; [|reflexivity].
    rewrite IH. destruct (group_caps_from in_range src off text (S k) rest res) as [tl|w]; cbn [bind md_add md_caps md_node]; [|reflexivity].
    rewrite <- app_assoc. reflexivity.
Qed.

(* what the body of the rule loop does for one rule (with the regexp oracle's answer for it); the world is the list of
   reports delivered so far *)
Definition rule_step (r : crule * option (list Z)) (w : list mreport) : outcome (ctl (list mreport)) :=
  match snd r with
  | None => Ok (Nxt w)
  | Some res =>
      bind (fill in_range src off text md_zero (fst r) res) (fun md =>
      bind (handle re_match l src (fst r) md) (fun out =>
      match out with Some rep => Ok (Brk (w ++ [rep])) | None => Ok (Nxt w) end))
  end.

Definition deliver (w : list mreport) (r : option mreport) : list mreport := match r with Some rep => w ++ [rep] | None => w end.

Lemma rule_loop_is_run (body : Z -> crule * option (list Z) -> list mreport -> outcome (ctl (list mreport))) :
  (forall i r w, body i r w = rule_step r w) ->
  forall rules i w,
  range_loop rules i body w = bind (run_comment_rules in_range re_match l src off text rules) (fun r => Ok (deliver w r)).
Proof.
  intros Hb. induction rules as [|[r m] t IH]; intros i w; [reflexivity|].
  cbn [range_loop run_comment_rules]. rewrite Hb. unfold rule_step, try_rule. cbn [fst snd].
  destruct m as [res|]; cbn [bind]; [|apply IH].
  destruct (fill in_range src off text md_zero r res) as [md|p]; cbn [bind]; [|reflexivity].
  destruct (handle re_match l src r md) as [[rep|]|p]; cbn [bind]; [reflexivity|apply IH|reflexivity].
Qed.
End Bridge.
