(* C01 / C09: runs of one engine that overlap -- a Report callback that calls Engine.Run itself (same goroutine), or a run
   on another goroutine that starts while this one is in the middle of its file.
   A RunnerState carries the runner object of the run that uses it (context, rule set, Report callback, node path): a
   report is delivered through the object found in the state of the run whose walk produced it.  If every state is used
   by one run at a time, every run delivers exactly its own reports, whatever the interleaving; a state that is handed
   to a second run while its first one is still walking (a pool that gets the state back too early) breaks that. *)
From Coq Require Import List NArith Lia Bool Arith.
Import ListNotations.
Local Open Scope N_scope.

Inductive step :=
| Start (r s : N)      (* run r begins on state s: newRulesRunner resets the state and overwrites its runner object *)
| Visit (r v : N)      (* the walk of run r produces report v *)
| Finish (r : N).      (* run r returns *)

Record world := { owner : N -> option N;      (* state -> the run its runner object belongs to *)
                  sidof : N -> option N;      (* run -> the state it walks with *)
                  out : list (N * N) }.       (* (run whose Report callback was called, report) *)

Definition upd (m : N -> option N) (k v : N) : N -> option N := fun x => if N.eqb x k then Some v else m x.

Definition w0 : world := {| owner := fun _ => None; sidof := fun _ => None; out := [] |}.

Definition exec_step (w : world) (st : step) : world :=
  match st with
  | Start r s => {| owner := upd (owner w) s r; sidof := upd (sidof w) r s; out := out w |}
  | Visit r v => match sidof w r with
                 | Some s => match owner w s with
                             | Some o => {| owner := owner w; sidof := sidof w; out := out w ++ [(o, v)] |}
                             | None => w
                             end
                 | None => w
                 end
  | Finish _ => w
  end.

Definition exec (w : world) (steps : list step) : world := fold_left exec_step steps w.

(* what the Report callback of run r received *)
Definition delivered (w : world) (r : N) : list N := map snd (filter (fun p => N.eqb (fst p) r) (out w)).
(* what run r reports when it runs alone: the reports its walk produces, in order *)
Fixpoint lone (steps : list step) (r : N) : list N :=
  match steps with
  | [] => []
  | Visit r' v :: t => if N.eqb r' r then v :: lone t r else lone t r
  | _ :: t => lone t r
  end.

(* a state is used by one run at a time (and a run walks only between its Start and its Finish) *)
Fixpoint exclusive (act : list (N * N)) (steps : list step) : bool :=
  match steps with
  | [] => true
  | Start r s :: t => negb (existsb (fun p => N.eqb (fst p) r || N.eqb (snd p) s) act) && exclusive ((r, s) :: act) t
  | Visit r _ :: t => existsb (fun p => N.eqb (fst p) r) act && exclusive act t
  | Finish r :: t => exclusive (filter (fun p => negb (N.eqb (fst p) r)) act) t
  end.

Definition inv (act : list (N * N)) (w : world) : Prop :=
  forall r s, In (r, s) act -> sidof w r = Some s /\ owner w s = Some r.

Lemma delivered_app w r o v : 
  map snd (filter (fun p => N.eqb (fst p) r) (out w ++ [(o, v)])) =
  delivered w r ++ (if N.eqb o r then [v] else []).
Proof. unfold delivered. rewrite filter_app, map_app. cbn [filter fst]. destruct (N.eqb o r); reflexivity. Qed.

Lemma exclusive_delivers : forall steps act w r,
  inv act w -> exclusive act steps = true ->
  delivered (exec w steps) r = delivered w r ++ lone steps r.
Proof.
  induction steps as [|st t IH]; intros act w r Hinv Hex; [cbn; now rewrite app_nil_r|].
  destruct st as [r0 s0|r0 v|r0]; cbn [exclusive] in Hex; cbn [exec fold_left lone].
  - apply andb_prop in Hex as [Hnew Hex]. apply negb_true_iff in Hnew.
    fold (exec (exec_step w (Start r0 s0)) t). rewrite (IH ((r0, s0) :: act) _ r); [reflexivity| |exact Hex].
    intros r' s' [E|Hin].
    + inversion E; subst. cbn [exec_step sidof owner]. unfold upd. now rewrite !N.eqb_refl.
    + destruct (Hinv r' s' Hin) as [H1 H2]. cbn [exec_step sidof owner]. unfold upd.
      assert (N.eqb r' r0 = false /\ N.eqb s' s0 = false) as [Er Es].
      { rewrite <- Bool.not_true_iff_false in Hnew. split; apply Bool.not_true_iff_false; intros E; apply Hnew;
        apply existsb_exists; exists (r', s'); (split; [exact Hin|]); cbn [fst snd]; rewrite E; [reflexivity|apply orb_true_r]. }
      rewrite Er, Es. split; assumption.
  - apply andb_prop in Hex as [Hact Hex]. apply existsb_exists in Hact as ([r1 s1] & Hin & E). cbn [fst] in E.
    apply N.eqb_eq in E. subst r1. destruct (Hinv r0 s1 Hin) as [H1 H2].
    fold (exec (exec_step w (Visit r0 v)) t). cbn [exec_step]. rewrite H1, H2.
    rewrite (IH act _ r); [|intros r' s' Hin'; exact (Hinv r' s' Hin')|exact Hex].
    unfold delivered at 1. cbn [out]. rewrite delivered_app. rewrite <- app_assoc. f_equal.
    destruct (N.eqb r0 r); reflexivity.
  - fold (exec (exec_step w (Finish r0)) t). cbn [exec_step]. apply (IH (filter (fun p => negb (N.eqb (fst p) r0)) act)); [|exact Hex].
    intros r' s' Hin. apply filter_In in Hin as [Hin _]. exact (Hinv r' s' Hin).
Qed.

(* every run of every exclusive schedule -- any nesting depth, any number of runs, any interleaving of their walks --
   delivers exactly the reports of its own walk *)
Theorem exclusive_runs_exact steps : exclusive [] steps = true -> forall r, delivered (exec w0 steps) r = lone steps r.
Proof. intros H r. rewrite (exclusive_delivers steps [] w0 r); [reflexivity|intros ? ? []|exact H]. Qed.

(* how a run without a caller-provided state gets one *)
Inductive nil_state_policy :=
| NilFresh              (* newRunnerState: an object no other run has *)
| NilPooledUntilReturn  (* borrowed from a pool for the duration of the run *)
| NilPooledEarlyRelease. (* borrowed and given back before the walk (the next taker shares it with a run in progress) *)
Definition nil_policy_ok (p : nil_state_policy) : bool := match p with NilPooledEarlyRelease => false | _ => true end.

(* a fresh state passes the check of [exclusive] whatever is active *)
Lemma fresh_state_is_exclusive act r s t :
  (forall p, In p act -> fst p <> r /\ snd p <> s) -> exclusive ((r, s) :: act) t = true -> exclusive act (Start r s :: t) = true.
Proof.
  intros Hf Ht. cbn [exclusive]. rewrite Ht, andb_true_r. apply negb_true_iff. apply Bool.not_true_iff_false. intros E.
  apply existsb_exists in E as (p & Hin & E). destruct (Hf p Hin) as [H1 H2]. apply orb_prop in E as [E|E]; apply N.eqb_eq in E; congruence.
Qed.

(* a state given back before the walk: the nested run takes it, the outer run's later reports go to the nested run's
   callback *)
Lemma early_release_refuted :
  let steps := [Start 0 7; Visit 0 1; Start 1 7; Visit 1 5; Finish 1; Visit 0 2; Finish 0] in
  exclusive [] steps = false /\
  delivered (exec w0 steps) 0 = [1] /\ lone steps 0 = [1; 2] /\ delivered (exec w0 steps) 1 = [5; 2].
Proof. vm_compute. auto. Qed.

(* executable comparison for the correspondence runs: the schedule a tree of runs produced (states numbered by object
   identity), and per run the number of reports its callback received. 0: the schedule is exclusive and the counts are
   the model's; 1: not exclusive (the harness misused a state); 2: counts differ *)
Definition check_schedule (steps : list step) (counts : list (N * N)) : N :=
  if negb (exclusive [] steps) then 1
  else if forallb (fun c => N.eqb (N.of_nat (length (delivered (exec w0 steps) (fst c)))) (snd c)) counts then 0 else 2.
