(* The bytes nodeText slices: rulesRunner.fileBytes and the life of rr.src across the runs of ONE RunnerState.

   A report's `$$` / `$name` texts, the texts Where() sees and a Suggest replacement are slices of "the file bytes".
   Which bytes? The ones the file at the run's path has WHEN IT IS ANALYSED: fileBytes reads the file once per run
   (rr.src is nil at the start of a run, because newRulesRunner overwrites the whole reused runner object) and keeps the
   slice for the rest of that run only.  This file states that as a specification (file_bytes), proves what a run and a
   HISTORY of runs through one state read (history_reads_current_disk: every run reads the disk of its own time, whatever
   earlier runs read -- same path, same length, same modification time or not), and shows that the reset is needed
   (stale_without_reset).  The function itself is translated from runner.go (go2coq c03src) and proved equal to
   file_bytes on every run (coq/tmpl/C03/Inst_FileBytes.v). *)
From Coq Require Import List ZArith Bool Lia.
From RG.Base Require Import Outcome GoSlice.
Import ListNotations.
Local Open Scope Z_scope.

(* a Go []byte: nil or a slice *)
Definition gslice := option bytes.
Definition is_nil (s : gslice) : bool := match s with None => true | Some _ => false end.

(* what os.ReadFile answered: the data (nil or not) and whether err != nil *)
Definition read_result := (gslice * bool)%type.

(* the disk at one moment *)
Definition disk := bytes -> read_result.

(* the bytes of a file as the engine is to see them: the data when the read succeeded, nothing otherwise *)
Definition disk_bytes (d : disk) (name : bytes) : bytes :=
  match d name with (Some b, false) => b | _ => [] end.

(* the part of the runner object fileBytes works on: rr.src *)
Record fworld := { w_src : gslice }.
Definition set_src (w : fworld) (s : gslice) : fworld := {| w_src := s |}.
Definition fresh_runner : fworld := {| w_src := None |}.

(* specification of fileBytes: the slice kept by this run if there is one, else the file as it is on disk now (kept) *)
Definition file_bytes (d : disk) (name : bytes) (w : fworld) : gslice * fworld :=
  match w_src w with
  | Some b => (Some b, w)
  | None => let b := disk_bytes d name in (Some b, set_src w (Some b))
  end.

Lemma file_bytes_first d name : file_bytes d name fresh_runner = (Some (disk_bytes d name), set_src fresh_runner (Some (disk_bytes d name))).
Proof. reflexivity. Qed.

Lemma file_bytes_again d name w b : w_src w = Some b -> file_bytes d name w = (Some b, w).
Proof. intros H. unfold file_bytes. rewrite H. reflexivity. Qed.

Lemma file_bytes_never_nil d name w : is_nil (fst (file_bytes d name w)) = false /\ is_nil (w_src (snd (file_bytes d name w))) = false.
Proof. unfold file_bytes. destruct (w_src w) eqn:E; cbn; rewrite ?E; auto. Qed.

(* a run calls fileBytes n times (once per nodeText), the disk and the file name being those of the run *)
Fixpoint fb_calls (fb : disk -> bytes -> fworld -> gslice * fworld) (d : disk) (name : bytes) (w : fworld) (n : nat) : list gslice * fworld :=
  match n with
  | O => ([], w)
  | S n' => let '(b, w1) := fb d name w in let '(bs, w2) := fb_calls fb d name w1 n' in (b :: bs, w2)
  end.

Lemma fb_calls_kept d name b : forall n w, w_src w = Some b -> fb_calls file_bytes d name w n = (repeat (Some b) n, w).
Proof.
  induction n as [|n IH]; intros w H; cbn [fb_calls repeat]; [reflexivity|].
  rewrite (file_bytes_again d name w b H). rewrite (IH w H). reflexivity.
Qed.

(* every nodeText of a run that starts with a fresh runner object slices the bytes the file has on disk during that run *)
Theorem run_reads_disk d name n :
  fst (fb_calls file_bytes d name fresh_runner n) = repeat (Some (disk_bytes d name)) n.
Proof.
  destruct n as [|n]; [reflexivity|].
  cbn [fb_calls]. rewrite file_bytes_first.
  rewrite (fb_calls_kept d name (disk_bytes d name) n (set_src fresh_runner (Some (disk_bytes d name))) eq_refl). reflexivity.
Qed.

(* a history of runs through one RunnerState: each run has its own disk (the file may have been rewritten in between), its
   own file name and its number of nodeText calls.  `reset` says whether the runner object is overwritten at the start of
   a run (newRulesRunner: `*rr = rulesRunner{...}` without src) or carried over. *)
Definition frun := (disk * bytes * nat)%type.

Fixpoint history (fb : disk -> bytes -> fworld -> gslice * fworld) (reset : bool) (w : fworld) (runs : list frun) : list (list gslice) :=
  match runs with
  | [] => []
  | (d, name, n) :: rest =>
      let w0 := if reset then fresh_runner else w in
      let '(outs, w') := fb_calls fb d name w0 n in
      outs :: history fb reset w' rest
  end.

Definition expected_of (r : frun) : list gslice := let '(d, name, n) := r in repeat (Some (disk_bytes d name)) n.

(* whatever the earlier runs of the state read -- the same path or another, a version of the same byte length or not --
   every run slices the bytes its file has when it is analysed *)
Theorem history_reads_current_disk : forall runs w, history file_bytes true w runs = map expected_of runs.
Proof.
  induction runs as [|[[d name] n] rest IH]; intros w; [reflexivity|].
  cbn [history map expected_of].
  destruct (fb_calls file_bytes d name fresh_runner n) as [outs w'] eqn:E.
  f_equal; [|apply IH].
  pose proof (run_reads_disk d name n) as H. rewrite E in H. exact H.
Qed.

(* the same for any function that IS file_bytes (the translated one) *)
Corollary history_reads_current_disk_ext fb :
  (forall d name w, fb d name w = file_bytes d name w) ->
  forall runs w, history fb true w runs = map expected_of runs.
Proof.
  intros Hfb runs w. rewrite <- history_reads_current_disk with (w := w).
  revert w. induction runs as [|[[d name] n] rest IH]; intros w; [reflexivity|].
  cbn [history].
  assert (Hrc : forall n w0, fb_calls fb d name w0 n = fb_calls file_bytes d name w0 n).
  { induction n0 as [|n0 IHn]; intros w0; [reflexivity|]. cbn [fb_calls]. rewrite Hfb.
    destruct (file_bytes d name w0) as [b w1]. rewrite IHn. reflexivity. }
  rewrite Hrc. destruct (fb_calls file_bytes d name fresh_runner n) as [outs w']. f_equal. apply IH.
Qed.

(* the reset is needed: a runner object carried from one run to the next answers the second run -- another version of
   the file at the same path with the same byte length -- from the bytes of the first *)
Definition disk_v1 : disk := fun _ => (Some [97; 109; 121], false).
Definition disk_v2 : disk := fun _ => (Some [101; 118; 101], false).

Example stale_without_reset :
  history file_bytes false fresh_runner [(disk_v1, [102], 1%nat); (disk_v2, [102], 1%nat)] = [[Some [97; 109; 121]]; [Some [97; 109; 121]]]
  /\ history file_bytes true fresh_runner [(disk_v1, [102], 1%nat); (disk_v2, [102], 1%nat)] = [[Some [97; 109; 121]]; [Some [101; 118; 101]]].
Proof. split; reflexivity. Qed.

(* A cache of the previous run's bytes inside the REUSED state, consulted under a key (file name, byte length, ...):
   sound exactly when the key determines the bytes.  `key d name` is what the cache compares; a key that two disks can
   share for different contents (name + length) lets the second run read the first run's bytes. *)
Section Cache.
Context {K : Type} (key : disk -> bytes -> K) (key_eqb : K -> K -> bool).

Definition cached_bytes (cache : option (K * bytes)) (d : disk) (name : bytes) : bytes * option (K * bytes) :=
  match cache with
  | Some (k, b) => if key_eqb k (key d name) then (b, cache) else (disk_bytes d name, Some (key d name, disk_bytes d name))
  | None => (disk_bytes d name, Some (key d name, disk_bytes d name))
  end.

Fixpoint cached_history (cache : option (K * bytes)) (runs : list (disk * bytes)) : list bytes :=
  match runs with
  | [] => []
  | (d, name) :: rest => let '(b, c') := cached_bytes cache d name in b :: cached_history c' rest
  end.

(* a key that determines the bytes: the cache never shows *)
Definition key_determines := forall d1 n1 d2 n2, key_eqb (key d1 n1) (key d2 n2) = true -> disk_bytes d1 n1 = disk_bytes d2 n2.

Definition cache_ok (cache : option (K * bytes)) : Prop :=
  match cache with Some (k, b) => forall d name, key_eqb k (key d name) = true -> b = disk_bytes d name | None => True end.

Theorem cached_history_sound : key_determines ->
  forall runs cache, cache_ok cache -> cached_history cache runs = map (fun r => disk_bytes (fst r) (snd r)) runs.
Proof.
  intros Hk. induction runs as [|[d name] rest IH]; intros cache Hc; [reflexivity|].
  cbn [cached_history map fst snd]. unfold cached_bytes.
  destruct cache as [[k b]|].
  - destruct (key_eqb k (key d name)) eqn:E.
    + f_equal; [exact (Hc d name E)|]. apply IH. exact Hc.
    + f_equal. apply IH. cbn. intros d2 n2 H2. apply (Hk d name d2 n2 H2).
  - f_equal. apply IH. cbn. intros d2 n2 H2. apply (Hk d name d2 n2 H2).
Qed.
End Cache.

(* (file name, byte length) does not determine the bytes *)
Definition name_len_key (d : disk) (name : bytes) : bytes * Z := (name, len (disk_bytes d name)).
Definition name_len_eqb (a b : bytes * Z) : bool := bytes_eqb (fst a) (fst b) && (snd a =? snd b).

Example name_len_cache_is_stale :
  cached_history name_len_key name_len_eqb None [(disk_v1, [102]); (disk_v2, [102])] = [[97; 109; 121]; [97; 109; 121]].
Proof. reflexivity. Qed.
