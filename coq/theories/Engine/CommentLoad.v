(* C12: how comment rules come into being (ir_loader.go: the CommentPatterns loop of loadRule + loadCommentRule, and the
   order in which rules files are merged). A MatchComment(...) call of a rules file may carry SEVERAL regexps: every one of
   them becomes a comment rule of its own -- its own compiled regexp, hence its own group names and group numbering, its
   own capture flag, its own line -- and the rules stand in the order in which the regexps are written.
   The regexp compiler is an oracle: compile pat = None (rejected) or Some (SubexpNames of the compiled regexp). *)
From Coq Require Import List ZArith Lia Bool Arith.
From RG.Base Require Import Outcome GoInt GoSlice.
From RG.Regex Require Import Utf8.
From RG.Engine Require Import TruncateSpec RenderSpec CommentSpec.
Import ListNotations.
Local Open Scope Z_scope.

(* one regexp argument of a MatchComment call, with the line it stands on *)
Record calt := { a_pat : bytes; a_line : Z }.
(* one MatchComment(...).Where(...).At(...).Report(...).Suggest(...) chain *)
Record irule := { i_alts : list calt; i_filter : cfilter; i_msg : bytes; i_sugg : bytes; i_loc : option bytes }.

(* the variables a Where() expression mentions (filterInfo.Vars) *)
Fixpoint filter_vars (f : cfilter) : list bytes :=
  match f with
  | FTrue => []
  | FTextEq v _ | FTextNe v _ | FTextMatches v _ | FLineGtC v _ | FNodeIs v _ => [v]
  | FTextEqVar v w | FTextNeVar v w | FLineEq v w | FLineNe v w | FLineLt v w => [v; w]
  | FNot g => filter_vars g
  | FAnd g h | FOr g h => filter_vars g ++ filter_vars h
  end.

(* regexp.SubexpIndex(name) != -1: a non-empty name that some group of THIS regexp carries *)
Definition binds (names : list bytes) (v : bytes) : bool := negb (is_empty v) && existsb (fun n => bytes_eqb n v) names.

(* Regexp.SubexpIndex: the index of the first group with that name; -1 for the empty name or no such group *)
Fixpoint first_index (v : bytes) (names : list bytes) (i : Z) : Z :=
  match names with [] => -1 | n :: t => if bytes_eqb n v then i else first_index v t (i + 1) end.
Definition subexp_index (names : list bytes) (v : bytes) : Z := if is_empty v then -1 else first_index v names 0.

Lemma first_index_spec v names : forall i, 0 <= i ->
  (existsb (fun n => bytes_eqb n v) names = true -> i <= first_index v names i) /\
  (existsb (fun n => bytes_eqb n v) names = false -> first_index v names i = -1).
Proof.
  induction names as [|n t IH]; intros i Hi; cbn [existsb first_index]; [split; [discriminate|reflexivity]|].
  destruct (bytes_eqb n v); cbn [orb]; [split; [lia|discriminate]|].
  destruct (IH (i + 1) ltac:(lia)) as (H1 & H2). split; [intros H; specialize (H1 H); lia|exact H2].
Qed.

Lemma subexp_index_binds names v : negb (subexp_index names v =? -1) = binds names v.
Proof.
  unfold subexp_index, binds. destruct (is_empty v); [reflexivity|]. cbn [negb andb].
  destruct (first_index_spec v names 0 ltac:(lia)) as (H1 & H2).
  destruct (existsb (fun n => bytes_eqb n v) names).
  - specialize (H1 eq_refl). destruct (Z.eqb_spec (first_index v names 0) (-1)); [lia|reflexivity].
  - rewrite (H2 eq_refl). reflexivity.
Qed.

(* `for _, x := range xs { if err := f(x); err != nil { return err } }` over a state: the first error ends the function *)
Fixpoint ret_loop {X S E : Type} (xs : list X) (body : X -> S -> option E * S) (st : S) : option E * S :=
  match xs with
  | [] => (None, st)
  | x :: t => match body x st with (Some e, s) => (Some e, s) | (None, s) => ret_loop t body s end
  end.

(* checkBoundVars: every variable of the filter and the At() variable is `$$` or bound by this alternative *)
Definition vars_bound (r : irule) (names : list bytes) : bool :=
  forallb (fun v => bytes_eqb v dollar2 || binds names v) (filter_vars (i_filter r)) &&
  match i_loc r with None => true | Some v => bytes_eqb v dollar2 || binds names v end.

Section Load.
Variable compile : bytes -> option (list bytes).
Variable has_groups : bytes -> bool.                     (* regexpHasCaptureGroups on the SAME pattern source *)

(* the comment rule of alternative a of call r *)
Definition alt_rule (r : irule) (names : list bytes) (a : calt) : crule :=
  {| c_names := names; c_groups := has_groups (a_pat a); c_filter := i_filter r;
     c_rule := {| r_msg := i_msg r; r_sugg := i_sugg r; r_loc := i_loc r; r_line := a_line a |} |}.

(* loadCommentRule for one alternative: the rule, or None when the regexp does not compile / leaves a variable unbound *)
Definition alt_loaded (r : irule) (a : calt) : option crule :=
  match compile (a_pat a) with
  | None => None
  | Some names => if vars_bound r names then Some (alt_rule r names a) else None
  end.

(* for _, pat := range rule.CommentPatterns { if err := l.loadCommentRule(...); err != nil { return err } } *)
Fixpoint load_alts (r : irule) (alts : list calt) (dst : list crule) : option (list crule) :=
  match alts with
  | [] => Some dst
  | a :: t => match alt_loaded r a with None => None | Some cr => load_alts r t (dst ++ [cr]) end
  end.

Definition load_rule (r : irule) (dst : list crule) : option (list crule) := load_alts r (i_alts r) dst.

(* the calls of a rules file, group by group, rule by rule, in source order *)
Fixpoint load_rules (rs : list irule) (dst : list crule) : option (list crule) :=
  match rs with
  | [] => Some dst
  | r :: t => match load_rule r dst with None => None | Some d => load_rules t d end
  end.

(* Engine.Load called once per rules file: the comment rules of a later file come after those of the earlier ones
   (mergeRuleSets / appendScopedRuleSet) *)
Fixpoint load_files (files : list (list irule)) (dst : list crule) : option (list crule) :=
  match files with
  | [] => Some dst
  | f :: t => match load_rules f [] with None => None | Some rs => load_files t (dst ++ rs) end
  end.

(* ------------------------------------------------------------------ all alternatives, each on its own *)
Fixpoint all_some {A} (l : list (option A)) : option (list A) :=
  match l with
  | [] => Some []
  | None :: _ => None
  | Some x :: t => match all_some t with Some r => Some (x :: r) | None => None end
  end.

Lemma load_alts_all r alts : forall dst,
  load_alts r alts dst = match all_some (map (alt_loaded r) alts) with Some rs => Some (dst ++ rs) | None => None end.
Proof.
  induction alts as [|a t IH]; intros dst; cbn [load_alts map all_some]; [now rewrite app_nil_r|].
  destruct (alt_loaded r a) as [cr|]; [|reflexivity].
  rewrite IH. destruct (all_some (map (alt_loaded r) t)); [|reflexivity]. now rewrite <- app_assoc.
Qed.

Lemma all_some_nth {A} (l : list (option A)) rs :
  all_some l = Some rs -> length rs = length l /\ forall k x, nth_error rs k = Some x <-> nth_error l k = Some (Some x).
Proof.
  revert rs. induction l as [|o t IH]; intros rs; cbn [all_some].
  - intros [= <-]. split; [reflexivity|]. intros [|k] x; cbn; split; discriminate.
  - destruct o as [y|]; [|discriminate]. destruct (all_some t) as [r|]; [|discriminate]. intros [= <-].
    destruct (IH r eq_refl) as (Hl & Hn). split; [cbn; now rewrite Hl|].
    intros [|k] x; cbn [nth_error].
    + split; intros [= ->]; reflexivity.
    + apply Hn.
Qed.

(* a call with k regexps yields exactly k comment rules, appended in the written order; rule j is alternative j's own
   rule: ITS compiled regexp's names (so a shared group name is resolved in its own numbering), its flag, its line *)
Theorem alternatives_are_rules_in_written_order r dst out :
  load_rule r dst = Some out ->
  exists rs, out = dst ++ rs /\ length rs = length (i_alts r) /\
    forall j a, nth_error (i_alts r) j = Some a ->
      exists names, compile (a_pat a) = Some names /\ vars_bound r names = true /\
                    nth_error rs j = Some (alt_rule r names a).
Proof.
  unfold load_rule. rewrite load_alts_all.
  destruct (all_some (map (alt_loaded r) (i_alts r))) as [rs|] eqn:E; [|discriminate].
  intros [= <-]. exists rs. split; [reflexivity|].
  destruct (all_some_nth _ _ E) as (Hl & Hn). rewrite map_length in Hl. split; [exact Hl|].
  intros j a Ha.
  assert (Hj : (j < length rs)%nat) by (rewrite Hl; apply nth_error_Some; congruence).
  destruct (nth_error rs j) as [cr|] eqn:Ej; [|apply nth_error_None in Ej; lia].
  apply Hn in Ej. rewrite nth_error_map, Ha in Ej. cbn [option_map] in Ej. injection Ej as Ej.
  unfold alt_loaded in Ej. destruct (compile (a_pat a)) as [names|]; [|discriminate].
  destruct (vars_bound r names) eqn:Eb; [|discriminate]. injection Ej as <-.
  exists names. repeat split; auto.
Qed.

(* the call with the single alternative a *)
Definition single (r : irule) (a : calt) : irule :=
  {| i_alts := [a]; i_filter := i_filter r; i_msg := i_msg r; i_sugg := i_sugg r; i_loc := i_loc r |}.

Lemma alt_loaded_single r a b : alt_loaded (single r a) b = alt_loaded r b.
Proof. reflexivity. Qed.

Lemma load_rules_app rs1 rs2 dst :
  load_rules (rs1 ++ rs2) dst = match load_rules rs1 dst with Some d => load_rules rs2 d | None => None end.
Proof.
  revert dst. induction rs1 as [|r t IH]; intros dst; cbn [app load_rules]; [reflexivity|].
  destruct (load_rule r dst); [apply IH|reflexivity].
Qed.

Lemma load_singles r alts dst : load_rules (map (single r) alts) dst = load_alts r alts dst.
Proof.
  revert dst. induction alts as [|a t IH]; intros dst; cbn [map load_rules load_alts]; [reflexivity|].
  unfold load_rule. cbn [single i_alts load_alts]. rewrite alt_loaded_single.
  destruct (alt_loaded r a); [apply IH|reflexivity].
Qed.

(* A CALL WITH k ALTERNATIVES IS k CALLS WITH ONE ALTERNATIVE EACH, IN THE WRITTEN ORDER -- wherever it stands among the
   other calls, whatever was loaded before *)
Theorem k_alternatives_are_k_rules pre r post dst :
  load_rules (pre ++ r :: post) dst = load_rules (pre ++ map (single r) (i_alts r) ++ post) dst.
Proof.
  rewrite !load_rules_app. destruct (load_rules pre dst) as [d|]; [|reflexivity].
  rewrite load_rules_app, load_singles. reflexivity.
Qed.

(* the rule list of a file is the concatenation, in source order, of what each call contributes on its own *)
Theorem load_rules_is_concat rs : forall dst out,
  load_rules rs dst = Some out ->
  exists chunks, out = dst ++ concat chunks /\ Forall2 (fun r ch => load_rule r [] = Some ch) rs chunks.
Proof.
  induction rs as [|r t IH]; intros dst out; cbn [load_rules].
  - intros [= <-]. exists []. split; [now rewrite app_nil_r|constructor].
  - unfold load_rule at 1. rewrite load_alts_all.
    destruct (all_some (map (alt_loaded r) (i_alts r))) as [ch|] eqn:E; [|discriminate].
    intros H. destruct (IH _ _ H) as (chunks & -> & Hf).
    exists (ch :: chunks). split; [cbn [concat]; now rewrite app_assoc|].
    constructor; [|exact Hf]. unfold load_rule. rewrite load_alts_all, E. reflexivity.
Qed.

(* files loaded one after the other: the rules of the files in load order, each file's in source order *)
Theorem load_files_is_concat files : forall dst out,
  load_files files dst = Some out ->
  exists per_file, out = dst ++ concat per_file /\ Forall2 (fun f rs => load_rules f [] = Some rs) files per_file.
Proof.
  induction files as [|f t IH]; intros dst out; cbn [load_files].
  - intros [= <-]. exists []. split; [now rewrite app_nil_r|constructor].
  - destruct (load_rules f []) as [rs|] eqn:E; [|discriminate].
    intros H. destruct (IH _ _ H) as (pf & -> & Hf).
    exists (rs :: pf). split; [cbn [concat]; now rewrite app_assoc|]. constructor; assumption.
Qed.
End Load.

(* ------------------------------------------------------------------ loading, then running *)
Section LoadRun.
Variable compile : bytes -> option (list bytes).
Variable has_groups : bytes -> bool.
Variable in_range : Z -> Z -> bytes -> outcome bool.
Variable re_match : bytes -> bytes -> option bool.
Variable l : Z.
Variable src : bytes.
Variable off : Z.
Variable text : bytes.
(* the regexp oracle on THIS comment: what FindStringSubmatchIndex(comment.Text) of the regexp compiled from a pattern
   source returns (None = no match) -- a function of the pattern source of ONE alternative *)
Variable ans : bytes -> option (list Z).

Notation run := (run_comment_rules in_range re_match l src off text).
Notation try := (try_rule in_range re_match l src off text).

Definition first_report (o : option mreport) (k : outcome (option mreport)) : outcome (option mreport) :=
  match o with Some rep => Ok (Some rep) | None => k end.

(* THE SPECIFICATION: call by call in source order; within a call alternative by alternative in the written order; every
   alternative is matched on its own (its own regexp's answer, its own names); the first that matches and accepts reports *)
Fixpoint run_alts (r : irule) (alts : list calt) : outcome (option mreport) :=
  match alts with
  | [] => Ok None
  | a :: t =>
      match compile (a_pat a) with
      | None => Ok None
      | Some names => bind (try (alt_rule has_groups r names a) (ans (a_pat a))) (fun o => first_report o (run_alts r t))
      end
  end.
Fixpoint run_calls (rs : list irule) : outcome (option mreport) :=
  match rs with
  | [] => Ok None
  | r :: t => bind (run_alts r (i_alts r)) (fun o => first_report o (run_calls t))
  end.

Definition pats_of (rs : list irule) : list bytes := flat_map (fun r => map a_pat (i_alts r)) rs.

Lemma run_app a b : run (a ++ b) = bind (run a) (fun o => first_report o (run b)).
Proof.
  induction a as [|[r m] t IH]; cbn [app run_comment_rules]; [reflexivity|].
  destruct (try r m) as [[rep|]|w]; cbn [bind first_report]; [reflexivity|exact IH|reflexivity].
Qed.

Lemma combine_app {A B} (a b : list A) (ia ib : list B) :
  length a = length ia -> combine (a ++ b) (ia ++ ib) = combine a ia ++ combine b ib.
Proof.
  revert ia. induction a as [|x a IH]; intros [|y ia]; cbn; try discriminate; [reflexivity|].
  intros [= H]. now rewrite IH.
Qed.

Lemma load_rules_dst rs : forall dst,
  load_rules compile has_groups rs dst =
  match load_rules compile has_groups rs [] with Some x => Some (dst ++ x) | None => None end.
Proof.
  induction rs as [|r t IH]; intros dst; cbn [load_rules]; [now rewrite app_nil_r|].
  unfold load_rule. rewrite !load_alts_all.
  destruct (all_some (map (alt_loaded compile has_groups r) (i_alts r))) as [ch|]; [|reflexivity].
  rewrite (IH (dst ++ ch)), (IH ([] ++ ch)).
  destruct (load_rules compile has_groups t []); [|reflexivity]. cbn [app]. now rewrite app_assoc.
Qed.

Lemma alts_run r alts crs :
  all_some (map (alt_loaded compile has_groups r) alts) = Some crs ->
  length crs = length alts /\ run (combine crs (map ans (map a_pat alts))) = run_alts r alts.
Proof.
  revert crs. induction alts as [|a t IH]; intros crs; cbn [map all_some].
  - intros [= <-]. split; reflexivity.
  - unfold alt_loaded at 1. destruct (compile (a_pat a)) as [names|] eqn:Ec; [|discriminate].
    destruct (vars_bound r names); [|discriminate].
    destruct (all_some (map (alt_loaded compile has_groups r) t)) as [rest|]; [|discriminate].
    intros [= <-]. destruct (IH rest eq_refl) as (Hl & Hr). split; [cbn; now rewrite Hl|].
    cbn [combine run_comment_rules run_alts]. rewrite Ec.
    destruct (try _ _) as [[rep|]|w]; cbn [bind first_report]; [reflexivity|exact Hr|reflexivity].
Qed.

(* what runCommentRules does with the LOADED rule list is that specification *)
Theorem loaded_run_is_call_by_call rs rules :
  load_rules compile has_groups rs [] = Some rules ->
  length rules = length (pats_of rs) /\ run (combine rules (map ans (pats_of rs))) = run_calls rs.
Proof.
  revert rules. induction rs as [|r t IH]; intros rules; cbn [load_rules].
  - intros [= <-]. split; reflexivity.
  - unfold load_rule. rewrite load_alts_all. cbn [app].
    destruct (all_some (map (alt_loaded compile has_groups r) (i_alts r))) as [ch|] eqn:E; [|discriminate].
    rewrite load_rules_dst. destruct (load_rules compile has_groups t []) as [rest|] eqn:Et; [|discriminate].
    intros [= <-]. destruct (IH rest eq_refl) as (Hl & Hr). destruct (alts_run r _ _ E) as (Hl1 & Hr1).
    unfold pats_of in *. cbn [flat_map run_calls]. rewrite map_app, app_length, app_length, map_length, Hl, Hl1.
    split; [reflexivity|].
    rewrite combine_app by (now rewrite !map_length). rewrite run_app, Hr1, Hr. reflexivity.
Qed.

(* hence: the report comes from one alternative j of one call i, judged on that alternative's own names and its own
   regexp's answer; every call before call i reports nothing, and every alternative written before alternative j in call
   i does not match or does not accept. Which alternative matches further to the left in the comment plays no role. *)
Lemma run_alts_first r alts rep :
  run_alts r alts = Ok (Some rep) ->
  exists j a names, nth_error alts j = Some a /\ compile (a_pat a) = Some names /\
    try (alt_rule has_groups r names a) (ans (a_pat a)) = Ok (Some rep) /\
    forall j' a' names', (j' < j)%nat -> nth_error alts j' = Some a' -> compile (a_pat a') = Some names' ->
      try (alt_rule has_groups r names' a') (ans (a_pat a')) = Ok None.
Proof.
  induction alts as [|a t IH]; cbn [run_alts]; [discriminate|].
  destruct (compile (a_pat a)) as [names|] eqn:Ec; [|discriminate].
  destruct (try _ _) as [[rep'|]|w] eqn:Et; cbn [bind first_report]; try discriminate.
  - intros [= <-]. exists 0%nat, a, names. repeat split; auto. intros; lia.
  - intros H. destruct (IH H) as (j & b & nb & Hn & Hc & Hb & Hearlier).
    exists (S j), b, nb. repeat split; auto.
    intros [|j'] a' names' Hj Hn' Hc'; cbn in Hn'.
    + injection Hn' as <-. rewrite Ec in Hc'. injection Hc' as <-. exact Et.
    + apply (Hearlier j'); auto. lia.
Qed.

Theorem report_is_first_accepting_alternative rs rules rep :
  load_rules compile has_groups rs [] = Some rules ->
  run (combine rules (map ans (pats_of rs))) = Ok (Some rep) ->
  exists i r j a names,
    nth_error rs i = Some r /\ nth_error (i_alts r) j = Some a /\ compile (a_pat a) = Some names /\
    try (alt_rule has_groups r names a) (ans (a_pat a)) = Ok (Some rep) /\
    (forall j' a' names', (j' < j)%nat -> nth_error (i_alts r) j' = Some a' -> compile (a_pat a') = Some names' ->
       try (alt_rule has_groups r names' a') (ans (a_pat a')) = Ok None) /\
    (forall i' r', (i' < i)%nat -> nth_error rs i' = Some r' -> run_alts r' (i_alts r') = Ok None).
Proof.
  intros Hload. destruct (loaded_run_is_call_by_call rs rules Hload) as (_ & ->). clear Hload rules.
  induction rs as [|r t IH]; cbn [run_calls]; [discriminate|].
  destruct (run_alts r (i_alts r)) as [[rep'|]|w] eqn:Er; cbn [bind first_report]; try discriminate.
  - intros [= <-]. destruct (run_alts_first _ _ _ Er) as (j & a & names & H1 & H2 & H3 & H4).
    exists 0%nat, r, j, a, names. repeat split; auto. intros; lia.
  - intros H. destruct (IH H) as (i & r0 & j & a & names & H0 & H1 & H2 & H3 & H4 & H5).
    exists (S i), r0, j, a, names. repeat split; auto.
    intros [|i'] r' Hi Hn; cbn in Hn.
    + injection Hn as <-. exact Er.
    + apply (H5 i'); auto. lia.
Qed.
End LoadRun.
