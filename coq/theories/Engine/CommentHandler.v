(* C12: handleCommentMatch in the form in which go2coq regenerates it. The handler writes into a REUSED record
   (rulesRunner.reportData) and into the filter parameters, and hands the record to the Report callback: the world it
   transforms is that record, the match the filters see, and the list of what the callback saw (a snapshot of EVERY field
   of the record at the time of the call -- a field the handler forgets to assign shows whatever an earlier report left). *)
From Coq Require Import List ZArith Lia Bool Arith.
From RG.Base Require Import Outcome GoInt GoSlice.
From RG.Regex Require Import Utf8.
From RG.Engine Require Import TruncateSpec RenderSpec RenderLoop CommentSpec CommentLoop CommentLoad.
Import ListNotations.
Local Open Scope Z_scope.

Section World.
Context {INFO NV SG FN M : Type}.

Definition snapshot : Type := (INFO * NV * bytes * option SG * option FN)%type.

Record hworld := {
  rd_RuleInfo : INFO; rd_Node : NV; rd_Message : bytes; rd_Suggestion : option SG; rd_Func : option FN;  (* rr.reportData *)
  fp_match : M;                                                                                           (* rr.filterParams.match *)
  delivered : list snapshot                                                                               (* rr.ctx.Report calls *)
}.

Definition set_rd_RuleInfo (w : hworld) (v : INFO) := {| rd_RuleInfo := v; rd_Node := rd_Node w; rd_Message := rd_Message w; rd_Suggestion := rd_Suggestion w; rd_Func := rd_Func w; fp_match := fp_match w; delivered := delivered w |}.
Definition set_rd_Node (w : hworld) (v : NV) := {| rd_RuleInfo := rd_RuleInfo w; rd_Node := v; rd_Message := rd_Message w; rd_Suggestion := rd_Suggestion w; rd_Func := rd_Func w; fp_match := fp_match w; delivered := delivered w |}.
Definition set_rd_Message (w : hworld) (v : bytes) := {| rd_RuleInfo := rd_RuleInfo w; rd_Node := rd_Node w; rd_Message := v; rd_Suggestion := rd_Suggestion w; rd_Func := rd_Func w; fp_match := fp_match w; delivered := delivered w |}.
Definition set_rd_Suggestion (w : hworld) (v : option SG) := {| rd_RuleInfo := rd_RuleInfo w; rd_Node := rd_Node w; rd_Message := rd_Message w; rd_Suggestion := v; rd_Func := rd_Func w; fp_match := fp_match w; delivered := delivered w |}.
Definition set_rd_Func (w : hworld) (v : option FN) := {| rd_RuleInfo := rd_RuleInfo w; rd_Node := rd_Node w; rd_Message := rd_Message w; rd_Suggestion := rd_Suggestion w; rd_Func := v; fp_match := fp_match w; delivered := delivered w |}.
Definition set_fp_match (w : hworld) (v : M) := {| rd_RuleInfo := rd_RuleInfo w; rd_Node := rd_Node w; rd_Message := rd_Message w; rd_Suggestion := rd_Suggestion w; rd_Func := rd_Func w; fp_match := v; delivered := delivered w |}.

(* rr.ctx.Report(&rr.reportData): the callback sees the record as it is now *)
Definition deliver_report (w : hworld) : hworld :=
  {| rd_RuleInfo := rd_RuleInfo w; rd_Node := rd_Node w; rd_Message := rd_Message w; rd_Suggestion := rd_Suggestion w; rd_Func := rd_Func w;
     fp_match := fp_match w;
     delivered := delivered w ++ [(rd_RuleInfo w, rd_Node w, rd_Message w, rd_Suggestion w, rd_Func w)] |}.
End World.
Arguments hworld : clear implicits.
Arguments snapshot : clear implicits.

(* ------------------------------------------------------------------ the model's instance *)
(* INFO = the rule line, a node value = option mnode (None = nil), a suggestion = (From, To, Replacement), FN = unit *)
Definition mworld := hworld Z (option mnode) (Z * Z * bytes) unit mdata.
Definition msnapshot := snapshot Z (option mnode) (Z * Z * bytes) unit.

(* what the Report callback must have seen for the model's report: every field is this report's, Func is nil *)
Definition snap_of (rep : mreport) (nd : mnode) : msnapshot := (rep_line rep, Some nd, rep_msg rep, rep_sugg rep, None).

(* a snapshot read back as a report (None: the node is nil / it does not describe a comment-rule report) *)
Definition report_of (s : msnapshot) : option mreport :=
  match s with
  | (ln, Some nd, msg, sg, None) => Some {| rep_pos := n_pos nd; rep_end := n_end nd; rep_msg := msg; rep_sugg := sg; rep_line := ln |}
  | _ => None
  end.

Section Bound.
Variable in_range : Z -> Z -> bytes -> outcome bool.
Variable src : bytes.
Variable off : Z.
Variable text : bytes.

(* every named group of the regexp is bound by the match data, whether or not it took part in the match *)
Lemma group_caps_binds names res : forall k caps name,
  group_caps_from in_range src off text k names res = Ok caps ->
  name <> [] -> (exists p, nth_error names p = Some name /\ (k + p <> 0)%nat) ->
  captured_by_name name caps <> None.
Proof.
  induction names as [|n rest IH]; intros k caps name Hg Hne (p & Hp & Hk).
  - destruct p; discriminate.
  - cbn [group_caps_from] in Hg. destruct p as [|p].
    + cbn in Hp. injection Hp as ->. rewrite Nat.add_0_r in Hk.
      assert (Hk0 : (k =? 0)%nat = false) by (apply Nat.eqb_neq; exact Hk).
      assert (He : is_empty name = false) by (destruct name; [contradiction|reflexivity]).
      rewrite Hk0, He in Hg. cbn [orb] in Hg.
      destruct (index res (Z.of_nat k * 2 + 0)) as [b|w]; cbn [bind] in Hg; [|discriminate].
      destruct (index res (Z.of_nat k * 2 + 1)) as [e|w]; cbn [bind] in Hg; [|discriminate].
      destruct (if (b <? 0) || (e <? 0) then _ else _) as [nd|w]; cbn [bind] in Hg; [|discriminate].
      destruct (group_caps_from in_range src off text (S k) rest res) as [tl|w]; cbn [bind] in Hg; [|discriminate].
      injection Hg as <-. cbn [captured_by_name]. rewrite (proj2 (bytes_eqb_eq name name) eq_refl). discriminate.
    + cbn in Hp. assert (Hex : exists p0, nth_error rest p0 = Some name /\ (S k + p0 <> 0)%nat) by (exists p; split; [exact Hp|lia]).
      destruct ((k =? 0)%nat || is_empty n).
      * exact (IH (S k) caps name Hg Hne Hex).
      * destruct (index res (Z.of_nat k * 2 + 0)) as [b|w]; cbn [bind] in Hg; [|discriminate].
        destruct (index res (Z.of_nat k * 2 + 1)) as [e|w]; cbn [bind] in Hg; [|discriminate].
        destruct (if (b <? 0) || (e <? 0) then _ else _) as [nd|w]; cbn [bind] in Hg; [|discriminate].
        destruct (group_caps_from in_range src off text (S k) rest res) as [tl|w] eqn:Etl; cbn [bind] in Hg; [|discriminate].
        injection Hg as <-. cbn [captured_by_name]. destruct (bytes_eqb n name); [discriminate|].
        exact (IH (S k) tl name Etl Hne Hex).
Qed.
End Bound.

(* the At() variable of a rule is `$$` or one of the regexp's named groups (checkBoundVars at load time) *)
Definition loc_declared (r : crule) : Prop :=
  match r_loc (c_rule r) with
  | None => True
  | Some v => v = dollar2 \/ (c_groups r = true /\ v <> [] /\ exists p, nth_error (c_names r) p = Some v /\ p <> 0%nat)
  end.

(* ------------------------------------------------------------------ the handler on the world: specification *)
Section HandlerSpec.
Variable in_range : Z -> Z -> bytes -> outcome bool.
Variable re_match : bytes -> bytes -> option bool.
Variable l : Z.
Variable src : bytes.
Variable off : Z.
Variable text : bytes.

Definition has_filter (r : crule) : bool := match c_filter r with FTrue => false | _ => true end.   (* rule.base.filter.fn != nil *)

(* the node a report is attached to: the At() capture when given, else the whole match *)
Definition chosen_node (r : mrule) (whole : mnode) (caps : list (bytes * mnode)) : option mnode :=
  match r_loc r with None => Some whole | Some v => var_node v whole caps end.

Lemma mk_creport_node r whole caps rep :
  mk_creport r l whole caps = Some rep ->
  exists nd, chosen_node r whole caps = Some nd /\ rep_pos rep = n_pos nd /\ rep_end rep = n_end nd.
Proof.
  unfold mk_creport, chosen_node. destruct (match r_loc r with None => Some whole | Some v => var_node v whole caps end) as [nd|]; [|discriminate].
  intros [= <-]. exists nd. repeat split.
Qed.

(* what handleCommentMatch does to the world, in terms of the model's verdict `handle`: Func is reset, the filter (if any)
   sees this rule's match data; on accept EVERY field of the record is this report's and the callback sees exactly that *)
Definition handle_w (r : crule) (md : mdata) (w : mworld) : outcome (bool * mworld) :=
  bind (handle re_match l src r md) (fun o =>
  let w1 := set_rd_Func w None in
  let w2 := if has_filter r then set_fp_match w1 md else w1 in
  match o with
  | None => Ok (false, w2)
  | Some rep =>
      match md_node md with
      | Some whole =>
          match chosen_node (c_rule r) whole (md_caps md) with
          | Some nd => Ok (true, deliver_report (set_rd_Suggestion (set_rd_Message (set_rd_Node (set_rd_RuleInfo w2 (rep_line rep)) (Some nd)) (rep_msg rep)) (rep_sugg rep)))
          | None => Panic PNilDeref
          end
      | None => Panic PNilDeref
      end
  end).

(* the callback's view of an accepted match is the model's report, whatever the record held before *)
Lemma handle_w_accept r md w w' :
  handle_w r md w = Ok (true, w') ->
  exists rep, handle re_match l src r md = Ok (Some rep) /\
    map report_of (delivered w') = map report_of (delivered w) ++ [Some rep].
Proof.
  unfold handle_w. destruct (handle re_match l src r md) as [[rep|]|p] eqn:Eh; cbn [bind]; try discriminate.
  - unfold handle in Eh. destruct (md_node md) as [whole|]; [|discriminate].
    destruct (eval_filter re_match src (c_filter r) whole (md_caps md)) as [[|]|p]; cbn [bind] in Eh; try discriminate.
    injection Eh as Eh. destruct (mk_creport_node _ _ _ _ Eh) as (nd & Hn & Hp & He). rewrite Hn.
    intros [= <-]. exists rep. split; [reflexivity|].
    destruct (has_filter r); cbn [deliver_report delivered set_rd_Suggestion set_rd_Message set_rd_Node set_rd_RuleInfo set_fp_match set_rd_Func
                                   rd_RuleInfo rd_Node rd_Message rd_Suggestion rd_Func];
      rewrite map_app; cbn [map report_of]; rewrite <- Hp, <- He; destruct rep; reflexivity.
Qed.

Lemma handle_w_reject r md w w' :
  handle_w r md w = Ok (false, w') -> handle re_match l src r md = Ok None /\ delivered w' = delivered w.
Proof.
  unfold handle_w. destruct (handle re_match l src r md) as [[rep|]|p] eqn:Eh; cbn [bind]; try discriminate.
  - destruct (md_node md) as [whole|]; [|discriminate]. destruct (chosen_node _ _ _); discriminate.
  - intros [= <-]. split; [reflexivity|]. destruct (has_filter r); reflexivity.
Qed.

(* the body of the rule loop on the world *)
Definition rule_step_w (r : crule * option (list Z)) (w : mworld) : outcome (ctl mworld) :=
  match snd r with
  | None => Ok (Nxt w)
  | Some res =>
      bind (fill in_range src off text md_zero (fst r) res) (fun md =>
      bind (handle_w (fst r) md w) (fun bw => Ok (if fst bw : bool then Brk (snd bw) else Nxt (snd bw))))
  end.

(* a rule loop whose body does rule_step_w on every rule delivers, to the callback, exactly the model's report -- for EVERY
   incoming world: whatever an earlier report left in the reused record never shows *)
Lemma rule_loop_world (body : Z -> crule * option (list Z) -> mworld -> outcome (ctl mworld)) rules :
  (forall i r w, In r rules -> body i r w = rule_step_w r w) ->
  forall i w,
  bind (range_loop rules i body w) (fun w' => Ok (map report_of (delivered w'))) =
  bind (run_comment_rules in_range re_match l src off text rules)
       (fun o => Ok (map report_of (delivered w) ++ match o with Some rep => [Some rep] | None => [] end)).
Proof.
  induction rules as [|[r m] t IH]; intros Hb i w.
  - cbn [range_loop run_comment_rules bind]. now rewrite app_nil_r.
  - cbn [range_loop run_comment_rules]. rewrite Hb by (now left). unfold rule_step_w, try_rule. cbn [fst snd].
    assert (IH' := IH (fun i0 r0 w0 Hin => Hb i0 r0 w0 (or_intror Hin))).
    destruct m as [res|]; cbn [bind]; [|apply IH'].
    destruct (fill in_range src off text md_zero r res) as [md|p]; cbn [bind]; [|reflexivity].
    destruct (handle_w r md w) as [[[|] w']|p] eqn:Eh; cbn [bind fst snd].
    + destruct (handle_w_accept _ _ _ _ Eh) as (rep & Hh & Hd). rewrite Hh. cbn [bind]. now rewrite Hd.
    + destruct (handle_w_reject _ _ _ _ Eh) as (Hh & Hd). rewrite Hh. cbn [bind]. rewrite IH'. now rewrite Hd.
    + unfold handle_w in Eh. destruct (handle re_match l src r md) as [[rep|]|q] eqn:Eq; cbn [bind] in Eh.
      * exfalso. unfold handle in Eq. destruct (md_node md) as [whole|]; [|discriminate].
        destruct (eval_filter re_match src (c_filter r) whole (md_caps md)) as [[|]|q]; cbn [bind] in Eq; try discriminate.
        injection Eq as Eq. destruct (mk_creport_node _ _ _ _ Eq) as (nd & Hn & _). rewrite Hn in Eh. discriminate.
      * destruct (has_filter r); discriminate.
      * injection Eh as <-. reflexivity.
Qed.

(* checkBoundVars at load time makes the At() variable one of the names the match data binds *)
Lemma fill_binds_loc r res md :
  fill in_range src off text md_zero r res = Ok md -> loc_declared r ->
  exists whole, md_node md = Some whole /\ chosen_node (c_rule r) whole (md_caps md) <> None.
Proof.
  unfold fill, loc_declared, chosen_node. intros Hf Hl.
  destruct (if c_groups r then group_caps in_range src off text (c_names r) res else Ok []) as [caps|p] eqn:Ec; cbn [bind] in Hf; [|discriminate].
  destruct (index res 0) as [r0|p]; cbn [bind] in Hf; [|discriminate].
  destruct (index res 1) as [r1|p]; cbn [bind] in Hf; [|discriminate].
  destruct (cnode in_range src off text r0 r1) as [whole|p]; cbn [bind] in Hf; [|discriminate].
  injection Hf as <-. cbn [md_node md_caps md_zero app]. exists whole. split; [reflexivity|].
  destruct (r_loc (c_rule r)) as [v|]; [|discriminate].
  unfold var_node. destruct (bytes_eqb v dollar2) eqn:Ed; [discriminate|].
  destruct Hl as [->|(Hg & Hne & p & Hp & Hp0)].
  - rewrite (proj2 (bytes_eqb_eq dollar2 dollar2) eq_refl) in Ed. discriminate.
  - rewrite Hg in Ec. unfold group_caps in Ec.
    apply (group_caps_binds in_range src off text (c_names r) res 0%nat caps v Ec Hne). exists p. split; [exact Hp|lia].
Qed.
End HandlerSpec.

(* ------------------------------------------------------------------ loaded rules have their At() variable bound *)
(* what checkBoundVars establishes at load time is what the handler needs at run time. About the regexp oracle: group 0 of
   every regexp is the unnamed whole match, and a regexp that names a group has capture groups (C11's has_capture_correct
   for the flag) *)
Lemma vars_bound_loc_declared (has_groups : bytes -> bool) (r : irule) (names : list bytes) (a : calt) :
  vars_bound r names = true -> nth_error names 0 = Some [] ->
  (forall v, v <> [] -> In v names -> has_groups (a_pat a) = true) ->
  loc_declared (alt_rule has_groups r names a).
Proof.
  intros Hb H0 Hg. unfold loc_declared, alt_rule. cbn [c_rule r_loc c_groups c_names].
  unfold vars_bound in Hb. apply andb_prop in Hb as [_ Hb].
  destruct (i_loc r) as [v|]; [|exact I].
  apply orb_prop in Hb as [Hd|Hbind]; [left; now apply bytes_eqb_eq|right].
  unfold binds in Hbind. apply andb_prop in Hbind as [Hne Hex].
  assert (Hv : v <> []) by (destruct v; [discriminate Hne|discriminate]).
  apply existsb_exists in Hex as (n & Hin & Hn). apply bytes_eqb_eq in Hn. subst n.
  split; [exact (Hg v Hv Hin)|]. split; [exact Hv|].
  apply In_nth_error in Hin as [p Hp]. exists p. split; [exact Hp|].
  intros ->. rewrite H0 in Hp. injection Hp as Hp. now apply Hv.
Qed.
