(* C03: what renderMessage does with the capture list before its scanning loop, in the form in which go2coq regenerates it
   (a fold over the captures in the outcome monad, a library sort), and the bridge to RenderSpec: dropping the captures
   without a usable node and sorting the rest STABLY by name length is `sort_len` of the live captures. *)
From Coq Require Import List ZArith Lia Bool Arith Permutation.
From RG.Base Require Import Outcome GoInt GoSlice.
From RG.Regex Require Import Utf8.
From RG.Engine Require Import TruncateSpec RenderSpec.
Import ListNotations.
Local Open Scope Z_scope.

(* `for _, x := range xs { body }` over a state; `continue` and the end of the body both yield the next state *)
Fixpoint fold_loop {X S : Type} (xs : list X) (body : X -> S -> outcome S) (st : S) : outcome S :=
  match xs with
  | [] => Ok st
  | x :: t => bind (body x st) (fun s => fold_loop t body s)
  end.

(* an ast.Node INTERFACE VALUE as a capture may hold it *)
Inductive nval (N : Type) :=
| VNilIface                 (* the nil interface: a capture bound to no node at all *)
| VTypedNil                 (* a typed nil pointer, e.g. the nil FieldList pointer of absent results *)
| VEmptySlice               (* an empty gogrep node slice: a real (non-nil) value that stands for no nodes *)
| VNode (n : N).
Arguments VNilIface {N}. Arguments VTypedNil {N}. Arguments VEmptySlice {N}. Arguments VNode {N} n.

Definition v_is_nil_interface {N} (v : nval N) : bool := match v with VNilIface => true | _ => false end.
(* reflect.ValueOf(n).IsNil(): ValueOf(nil) is the zero Value, on which IsNil panics *)
Definition v_reflect_IsNil {N} (v : nval N) : outcome bool :=
  match v with VNilIface => Panic PExplicit | VTypedNil => Ok true | _ => Ok false end.
Definition v_IsEmptyNodeSlice {N} (v : nval N) : bool := match v with VEmptySlice => true | _ => false end.

(* a capture the renderer can show: it holds a node (possibly the empty slice, whose text is empty) *)
Definition usable {N} (v : nval N) : bool := match v with VNilIface | VTypedNil => false | _ => true end.

(* sort.SliceStable: equal elements keep their order; modelled by the stable insertion sort *)
Section StableSort.
Context {A : Type}.
Variable less : A -> A -> bool.
Fixpoint insert_stable (x : A) (l : list A) : list A :=
  match l with
  | [] => [x]
  | y :: t => if less y x then y :: insert_stable x t else x :: y :: t
  end.
Fixpoint stable_sort (l : list A) : list A := match l with [] => [] | x :: t => insert_stable x (stable_sort t) end.

Lemma stable_sort_short l : (length l <= 1)%nat -> stable_sort l = l.
Proof. destruct l as [|x [|y t]]; cbn; intros H; try reflexivity; lia. Qed.
End StableSort.

Lemma gtb_of_nat (a b : nat) : (Z.of_nat a >? Z.of_nat b) = negb (a <=? b)%nat.
Proof. destruct (Nat.leb_spec a b), (Z.gtb_spec (Z.of_nat a) (Z.of_nat b)); try reflexivity; lia. Qed.

(* sorting captures by `len(name_i) > len(name_j)` stably IS RenderSpec.sort_len *)
Lemma stable_sort_is_sort_len {V} (l : list (bytes * V)) :
  stable_sort (fun a b => len (fst a) >? len (fst b)) l = sort_len fst l.
Proof.
  induction l as [|x t IH]; [reflexivity|]. cbn [stable_sort sort_len]. rewrite IH.
  generalize (sort_len fst t) as s. intros s. induction s as [|y s IHs]; [reflexivity|].
  cbn [insert_stable insert_len]. unfold len, bytes in *. rewrite gtb_of_nat.
  destruct (length (fst y) <=? length (fst x))%nat; cbn [negb]; [reflexivity|now rewrite IHs].
Qed.

(* the specification of the statements in front of the scanning loop: the live captures, longest name first, captures
   with names of the same length (in particular: the same name) in their original order *)
Definition live_sorted {N} (caps : list (bytes * nval N)) : list (bytes * nval N) :=
  sort_len fst (filter (fun c => usable (snd c)) caps).

Lemma live_sorted_usable {N} (caps : list (bytes * nval N)) c : In c (live_sorted caps) -> usable (snd c) = true.
Proof.
  unfold live_sorted. intros H. eapply Permutation_in in H; [|symmetry; apply sort_len_perm].
  apply filter_In in H. tauto.
Qed.

(* a fold whose body appends the element when p holds and passes the state on otherwise is `filter p` *)
Lemma fold_loop_filter {X : Type} (p : X -> bool) (body : X -> list X -> outcome (list X)) :
  (forall x acc, body x acc = Ok (if p x then acc ++ [x] else acc)) ->
  forall xs acc, fold_loop xs body acc = Ok (acc ++ filter p xs).
Proof.
  intros Hb. induction xs as [|x t IH]; intros acc; cbn [fold_loop filter]; [now rewrite app_nil_r|].
  rewrite Hb. cbn [bind]. rewrite IH. destruct (p x); [now rewrite <- app_assoc|reflexivity].
Qed.

Lemma sort_len_short {C} (cname : C -> bytes) (l : list C) : (length l <= 1)%nat -> sort_len cname l = l.
Proof. destruct l as [|x [|y t]]; cbn; intros H; try reflexivity; lia. Qed.

(* sort_len commutes with a renaming-free map *)
Lemma sort_len_map {C D} (f : C -> D) (cn : D -> bytes) (l : list C) :
  sort_len cn (map f l) = map f (sort_len (fun c => cn (f c)) l).
Proof.
  induction l as [|x t IH]; [reflexivity|]. cbn [map sort_len]. rewrite IH.
  generalize (sort_len (fun c => cn (f c)) t) as s. intros s. induction s as [|y s IHs]; [reflexivity|].
  cbn [map insert_len]. destruct (length (cn (f y)) <=? length (cn (f x)))%nat; [reflexivity|]. cbn [map]. now rewrite IHs.
Qed.
