(* C03: the scanning loop of renderMessage as an index-based loop over (i, result), the form in which go2coq regenerates
   it from the source. step_spec says what one iteration must do in terms of the text after position i; a loop whose
   body meets step_spec computes RenderSpec.interp (for all templates, capture lists and value functions). *)
From Coq Require Import List ZArith Lia Bool Arith.
From RG.Base Require Import Outcome GoInt GoSlice.
From RG.Regex Require Import Utf8.
From RG.Engine Require Import TruncateSpec RenderSpec.
Import ListNotations.
Local Open Scope Z_scope.

Inductive ctl (A : Type) : Type := Brk (a : A) | Nxt (a : A).
Arguments Brk {A} a.
Arguments Nxt {A} a.

(* `for { body }` over a state; the body says break / next iteration *)
Fixpoint for_loop {S : Type} (fuel : nat) (body : S -> outcome (ctl S)) (st : S) : outcome S :=
  match fuel with
  | O => Panic PFuel
  | S f => bind (body st) (fun r => match r with Brk s => Ok s | Nxt s => for_loop f body s end)
  end.

(* strings.IndexByte *)
Fixpoint index_byte_nat (s : bytes) (c : Z) : option nat :=
  match s with
  | [] => None
  | x :: t => if x =? c then Some O else match index_byte_nat t c with Some n => Some (S n) | None => None end
  end.
Definition index_byte (s : bytes) (c : Z) : Z := match index_byte_nat s c with Some n => Z.of_nat n | None => -1 end.

(* `for _, c := range xs { if cond(c) { ...; break } }`: the first element that satisfies the condition *)
Fixpoint range_first {C : Type} (xs : list C) (cond : C -> outcome bool) : outcome (option C) :=
  match xs with
  | [] => Ok None
  | c :: t => bind (cond c) (fun b => if b : bool then Ok (Some c) else range_first t cond)
  end.

(* text before the first `$`, and the text after it if there is one *)
Fixpoint split_dollar (s : bytes) : bytes * option bytes :=
  match s with
  | [] => ([], None)
  | x :: t => if x =? dollar then ([], Some t) else let (pre, r) := split_dollar t in (x :: pre, r)
  end.

Lemma split_dollar_none s pre : split_dollar s = (pre, None) -> pre = s /\ forallb (fun ch => negb (ch =? dollar)) s = true.
Proof.
  revert pre. induction s as [|x t IH]; intros pre; cbn [split_dollar forallb].
  - intros [= <-]. auto.
  - destruct (x =? dollar) eqn:E; [discriminate|]. destruct (split_dollar t) as [p r]. intros [= <- ->].
    destruct (IH p eq_refl) as [-> H]. cbn. auto.
Qed.

Lemma split_dollar_some s pre rest :
  split_dollar s = (pre, Some rest) -> s = pre ++ dollar :: rest /\ forallb (fun ch => negb (ch =? dollar)) pre = true.
Proof.
  revert pre. induction s as [|x t IH]; intros pre; cbn [split_dollar].
  - discriminate.
  - destruct (x =? dollar) eqn:E.
    + intros [= <- <-]. apply Z.eqb_eq in E. subst. auto.
    + destruct (split_dollar t) as [p r]. intros [= <- ->]. destruct (IH p eq_refl) as [-> H]. cbn [forallb app]. rewrite E. auto.
Qed.

Lemma index_byte_split s :
  match split_dollar s with
  | (pre, None) => index_byte s dollar = -1
  | (pre, Some rest) => index_byte s dollar = len pre
  end.
Proof.
  unfold index_byte. induction s as [|x t IH]; cbn [split_dollar index_byte_nat]; [reflexivity|].
  destruct (x =? dollar); [reflexivity|].
  destruct (split_dollar t) as [p [r|]]; destruct (index_byte_nat t dollar) as [n|]; try reflexivity; unfold len in *; cbn [length]; lia.
Qed.

Section Loop.
Context {C : Type}.
Variable cname : C -> bytes.
Variable cval : C -> bytes -> bytes.
Variable whole : bytes -> bytes.
Variable caps : list C.            (* the captures in the order the loop scans them *)
Variable msg : bytes.

Definition lookup := first_prefix cname caps.

(* what one iteration at position i does *)
Definition step_spec (i : Z) (result : bytes) : ctl (Z * bytes) :=
  match split_dollar (skipn (Z.to_nat i) msg) with
  | (pre, None) => Brk (i, result ++ pre)
  | (pre, Some rest) =>
      let dollarPos := i + len pre in
      match rest with
      | ch2 :: rest' =>
          if ch2 =? dollar then Nxt (dollarPos + 1 + 1, (result ++ pre) ++ whole rest')
          else match lookup rest with
               | Some c => Nxt (dollarPos + 1 + len (cname c), (result ++ pre) ++ cval c (skipn (length (cname c)) rest))
               | None => Nxt (dollarPos + 1 + 0, (result ++ pre) ++ [dollar])
               end
      | [] => match lookup rest with
              | Some c => Nxt (dollarPos + 1 + len (cname c), (result ++ pre) ++ cval c (skipn (length (cname c)) rest))
              | None => Nxt (dollarPos + 1 + 0, (result ++ pre) ++ [dollar])
              end
      end
  end.

(* fuel beyond the length of the template changes nothing *)
Lemma interp_fuel (L : bytes -> option C) f1 f2 s :
  (length s < f1)%nat -> (length s < f2)%nat -> interp cname cval whole L f1 s = interp cname cval whole L f2 s.
Proof.
  revert f2 s. induction f1 as [|f1 IH]; intros f2 s H1 H2; [lia|].
  destruct f2 as [|f2]; [lia|]. cbn [interp].
  destruct s as [|ch rest]; [reflexivity|]. cbn [length] in H1, H2.
  assert (Hs : forall k, (length (skipn k rest) <= length rest)%nat) by (intros k; rewrite skipn_length; lia).
  destruct (ch =? dollar).
  - destruct rest as [|ch2 rest'].
    + destruct (L []); [|reflexivity]. f_equal. apply IH; cbn; lia.
    + destruct (ch2 =? dollar).
      * f_equal. apply IH; cbn [length] in *; lia.
      * destruct (L (ch2 :: rest')) as [c|].
        -- f_equal. apply IH; pose proof (Hs (length (cname c))); lia.
        -- f_equal. apply IH; lia.
  - f_equal. apply IH; lia.
Qed.

Lemma interp_pre (L : bytes -> option C) pre s f :
  forallb (fun ch => negb (ch =? dollar)) pre = true -> (length (pre ++ s) < f)%nat ->
  interp cname cval whole L f (pre ++ s) = pre ++ interp cname cval whole L (S (length s)) s.
Proof.
  revert f. induction pre as [|x p IH]; intros f Hn Hl.
  - cbn [app] in *. apply interp_fuel; lia.
  - cbn [forallb] in Hn. apply andb_prop in Hn as [Hx Hp]. destruct f as [|f]; [lia|].
    cbn [app interp]. destruct (x =? dollar); [discriminate|]. f_equal. apply IH; [exact Hp|]. cbn [app length] in Hl. lia.
Qed.

Definition full (s : bytes) : bytes := interp cname cval whole lookup (S (length s)) s.

Lemma skipn_len_le (k : nat) (s : bytes) : (length (skipn k s) <= length s)%nat.
Proof. rewrite skipn_length. lia. Qed.

Lemma interp_S (L : bytes -> option C) f ch rest :
  interp cname cval whole L (S f) (ch :: rest) =
  if ch =? dollar then
    match rest with
    | ch2 :: rest' =>
        if ch2 =? dollar then whole rest' ++ interp cname cval whole L f rest'
        else match L rest with
             | Some c => let rest'' := skipn (length (cname c)) rest in cval c rest'' ++ interp cname cval whole L f rest''
             | None => dollar :: interp cname cval whole L f rest
             end
    | [] => match L rest with
            | Some c => cval c [] ++ interp cname cval whole L f []
            | None => [dollar]
            end
    end
  else ch :: interp cname cval whole L f rest.
Proof. reflexivity. Qed.

Lemma full_dollar rest :
  full (dollar :: rest) =
  match rest with
  | ch2 :: rest' =>
      if ch2 =? dollar then whole rest' ++ full rest'
      else match lookup rest with
           | Some c => cval c (skipn (length (cname c)) rest) ++ full (skipn (length (cname c)) rest)
           | None => dollar :: full rest
           end
  | [] => match lookup [] with Some c => cval c [] ++ full [] | None => [dollar] end
  end.
Proof.
  unfold full. rewrite interp_S. change (dollar =? dollar) with true. cbv iota.
  destruct rest as [|ch2 rest'].
  - destruct (lookup []) as [c|]; reflexivity.
  - destruct (ch2 =? dollar).
    + f_equal. apply interp_fuel; cbn [length]; lia.
    + destruct (lookup (ch2 :: rest')) as [c|].
      * cbv zeta. f_equal. apply interp_fuel; pose proof (skipn_len_le (length (cname c)) (ch2 :: rest')); cbn [length] in *; lia.
      * reflexivity.
Qed.

Lemma lookup_prefix rest c : lookup rest = Some c -> has_prefixb (cname c) rest = true.
Proof.
  unfold lookup. induction caps as [|d t IH]; cbn [first_prefix]; [discriminate|].
  destruct (has_prefixb (cname d) rest) eqn:Ep; [intros [= <-]; exact Ep|exact IH].
Qed.

(* one iteration, read on the text after position i *)
Lemma step_spec_sound i result :
  0 <= i <= len msg ->
  match step_spec i result with
  | Brk (_, r) => r = result ++ full (skipn (Z.to_nat i) msg)
  | Nxt (i', r) => i < i' <= len msg /\ r ++ full (skipn (Z.to_nat i') msg) = result ++ full (skipn (Z.to_nat i) msg)
  end.
Proof.
  intros Hi. unfold step_spec. set (s := skipn (Z.to_nat i) msg).
  assert (Hls : len s = len msg - i) by (unfold s, len in *; rewrite skipn_length; lia).
  destruct (split_dollar s) as [pre [rest|]] eqn:E.
  - apply split_dollar_some in E as [Es Hpre].
    assert (Hlen : len s = len pre + 1 + len rest) by (rewrite Es; unfold len; rewrite app_length; cbn [length]; lia).
    (* the text k bytes after the dollar, as a suffix of msg *)
    assert (Hskip : forall k, (k <= length rest)%nat ->
              skipn (Z.to_nat (i + len pre + 1 + Z.of_nat k)) msg = skipn k rest).
    { intros k Hk. replace (Z.to_nat (i + len pre + 1 + Z.of_nat k)) with (Z.to_nat i + (length pre + (1 + k)))%nat by (unfold len; lia).
      rewrite <- skipn_skipn_add. fold s. rewrite Es.
      rewrite <- skipn_skipn_add. rewrite skipn_app, skipn_all, Nat.sub_diag. cbn [app skipn Nat.add]. reflexivity. }
    assert (Hfull : full s = pre ++ full (dollar :: rest)).
    { unfold full. rewrite Es at 2. rewrite interp_pre; [reflexivity|exact Hpre|rewrite <- Es; lia]. }
    rewrite Hfull, full_dollar.
    assert (Hgen : forall (c : option C), c = lookup rest ->
      match (match c with
             | Some c => Nxt (i + len pre + 1 + len (cname c), (result ++ pre) ++ cval c (skipn (length (cname c)) rest))
             | None => Nxt (i + len pre + 1 + 0, (result ++ pre) ++ [dollar])
             end) with
      | Brk (_, r) => False
      | Nxt (i', r) => i < i' <= len msg /\
          r ++ full (skipn (Z.to_nat i') msg) =
          result ++ pre ++ match c with
                           | Some c => cval c (skipn (length (cname c)) rest) ++ full (skipn (length (cname c)) rest)
                           | None => dollar :: full rest
                           end
      end).
    { intros [c|] Hc.
      - symmetry in Hc. apply lookup_prefix, has_prefixb_length in Hc.
        split; [unfold len in *; lia|]. unfold len at 2. rewrite (Hskip _ Hc). rewrite <- !app_assoc. reflexivity.
      - split; [unfold len in *; lia|]. change 0 with (Z.of_nat 0). rewrite (Hskip 0%nat) by lia. cbn [skipn].
        rewrite <- !app_assoc. reflexivity. }
    destruct rest as [|ch2 rest'].
    + specialize (Hgen (lookup []) eq_refl). destruct (lookup []) as [c|] eqn:EL.
      * destruct Hgen as [H1 H2]. split; [exact H1|]. rewrite H2.
        assert (Hc : cname c = []) by (apply lookup_prefix in EL; destruct (cname c); [reflexivity|discriminate]).
        rewrite Hc. reflexivity.
      * destruct Hgen as [H1 H2]. split; [exact H1|]. rewrite H2. reflexivity.
    + destruct (ch2 =? dollar) eqn:E2.
      * split; [unfold len in *; cbn [length] in *; lia|].
        replace (i + len pre + 1 + 1) with (i + len pre + 1 + Z.of_nat 1) by lia.
        rewrite (Hskip 1%nat) by (cbn [length]; lia). cbn [skipn]. rewrite <- !app_assoc. reflexivity.
      * specialize (Hgen (lookup (ch2 :: rest')) eq_refl). destruct (lookup (ch2 :: rest')) as [c|]; exact Hgen.
  - apply split_dollar_none in E as [-> Hn]. f_equal. unfold full. symmetry. apply interp_no_dollar; [lia|exact Hn].
Qed.

(* a loop whose body does step_spec on every position computes the interpolation, for every template *)
Theorem loop_is_interp (body : Z * bytes -> outcome (ctl (Z * bytes))) :
  (forall i result, 0 <= i <= len msg -> body (i, result) = Ok (step_spec i result)) ->
  forall fuel, (length msg < fuel)%nat ->
  exists i, for_loop fuel body (0, []) = Ok (i, interp cname cval whole lookup (S (length msg)) msg).
Proof.
  intros Hbody.
  assert (H : forall fuel i result, 0 <= i <= len msg -> (length msg - Z.to_nat i < fuel)%nat ->
            exists i', for_loop fuel body (i, result) = Ok (i', result ++ full (skipn (Z.to_nat i) msg))).
  { induction fuel as [|f IH]; intros i result Hi Hf; [lia|].
    cbn [for_loop]. rewrite Hbody by exact Hi. cbn [bind].
    pose proof (step_spec_sound i result Hi) as Hs.
    destruct (step_spec i result) as [[i' r]|[i' r]].
    - subst r. eauto.
    - destruct Hs as [Hi' Hr]. destruct (IH i' r) as [i'' E]; [lia|unfold len in *; lia|]. rewrite E, Hr. eauto. }
  intros fuel Hf. destruct (H fuel 0 [] ltac:(unfold len; lia) ltac:(cbn; lia)) as [i' E].
  exists i'. etransitivity; [exact E|]. reflexivity.
Qed.
End Loop.

(* ---- slices of the template in terms of the text after a position (used by the proofs about the regenerated body) *)
Lemma slice_from (msg : bytes) i : 0 <= i <= len msg -> slice msg i (len msg) = Ok (skipn (Z.to_nat i) msg).
Proof.
  intros H. rewrite slice_ok by lia. f_equal. apply firstn_all2. rewrite skipn_length. unfold len in *. lia.
Qed.

Lemma slice_pre (msg pre tl : bytes) i :
  0 <= i <= len msg -> skipn (Z.to_nat i) msg = pre ++ tl -> slice msg i (i + len pre) = Ok pre.
Proof.
  intros H E. assert (Hl : len pre <= len msg - i).
  { assert (L : length (skipn (Z.to_nat i) msg) = length (pre ++ tl)) by now rewrite E.
    rewrite skipn_length, app_length in L. unfold len in *. lia. }
  rewrite slice_ok by (unfold len in *; lia). f_equal. rewrite E. replace (Z.to_nat (i + len pre - i)) with (length pre) by (unfold len; lia).
  rewrite firstn_app, Nat.sub_diag, firstn_all. cbn [firstn]. apply app_nil_r.
Qed.

Lemma slice_after (msg pre tl : bytes) i k :
  0 <= i <= len msg -> skipn (Z.to_nat i) msg = pre ++ tl -> 0 <= k <= len tl ->
  slice msg (i + len pre + k) (len msg) = Ok (skipn (Z.to_nat k) tl).
Proof.
  intros H E Hk. assert (Hl : len pre + len tl = len msg - i).
  { assert (L : length (skipn (Z.to_nat i) msg) = length (pre ++ tl)) by now rewrite E.
    rewrite skipn_length, app_length in L. unfold len in *. lia. }
  rewrite slice_from by (unfold len in *; lia). f_equal.
  replace (Z.to_nat (i + len pre + k)) with (Z.to_nat i + (length pre + Z.to_nat k))%nat by (unfold len in *; lia).
  rewrite <- skipn_skipn_add, E, <- skipn_skipn_add, skipn_app, skipn_all, Nat.sub_diag. reflexivity.
Qed.

Lemma range_first_is_first_prefix {C : Type} (cname : C -> bytes) (caps : list C) (rest : bytes) :
  range_first caps (fun c => Ok (has_prefixb (cname c) rest)) = Ok (first_prefix cname caps rest).
Proof.
  induction caps as [|c t IH]; cbn [range_first first_prefix bind]; [reflexivity|].
  destruct (has_prefixb (cname c) rest); [reflexivity|exact IH].
Qed.

(* the interpolation does not depend on how the captures are represented *)
Lemma first_prefix_map {C D : Type} (f : C -> D) (cnC : C -> bytes) (cnD : D -> bytes) (caps : list C) (rest : bytes) :
  (forall c, cnD (f c) = cnC c) -> first_prefix cnD (map f caps) rest = option_map f (first_prefix cnC caps rest).
Proof.
  intros Hn. induction caps as [|c t IH]; cbn [map first_prefix option_map]; [reflexivity|].
  rewrite Hn. destruct (has_prefixb (cnC c) rest); [reflexivity|exact IH].
Qed.

Lemma interp_map {C D : Type} (f : C -> D) (cnC : C -> bytes) (cvC : C -> bytes -> bytes) (cnD : D -> bytes) (cvD : D -> bytes -> bytes)
      (whole : bytes -> bytes) (caps : list C) (fuel : nat) (msg : bytes) :
  (forall c, cnD (f c) = cnC c) -> (forall c r, cvD (f c) r = cvC c r) ->
  interp cnD cvD whole (first_prefix cnD (map f caps)) fuel msg = interp cnC cvC whole (first_prefix cnC caps) fuel msg.
Proof.
  intros Hn Hv. revert msg. induction fuel as [|fu IH]; intros msg; [reflexivity|].
  cbn [interp]. destruct msg as [|ch rest]; [reflexivity|].
  destruct (ch =? dollar); [|now rewrite IH].
  destruct rest as [|ch2 rest'].
  - rewrite (first_prefix_map f cnC cnD caps [] Hn). destruct (first_prefix cnC caps []) as [c|]; cbn [option_map]; [|reflexivity].
    now rewrite Hv, IH.
  - destruct (ch2 =? dollar); [now rewrite IH|].
    rewrite (first_prefix_map f cnC cnD caps (ch2 :: rest') Hn).
    destruct (first_prefix cnC caps (ch2 :: rest')) as [c|]; cbn [option_map]; [|now rewrite IH].
    cbv zeta. now rewrite Hn, Hv, IH.
Qed.

Lemma interp_ext_whole {C : Type} (cname : C -> bytes) (cval : C -> bytes -> bytes) (w1 w2 : bytes -> bytes) (L : bytes -> option C) fuel msg :
  (forall r, w1 r = w2 r) -> interp cname cval w1 L fuel msg = interp cname cval w2 L fuel msg.
Proof.
  intros Hw. revert msg. induction fuel as [|fu IH]; intros msg; [reflexivity|].
  cbn [interp]. destruct msg as [|ch rest]; [reflexivity|].
  destruct (ch =? dollar); [|now rewrite IH].
  destruct rest as [|ch2 rest'].
  - destruct (L []); [now rewrite IH|reflexivity].
  - destruct (ch2 =? dollar); [now rewrite Hw, IH|].
    destruct (L (ch2 :: rest')); cbv zeta; now rewrite IH.
Qed.
