(* C01: what a rule's matcher runs with, besides the node.
   (1) the import table its pattern is compiled with: the table of the rule's OWN group, whatever groups were loaded
       before it (Matcher.Import is per group);
   (2) the scratch state of the matcher: the rule loop enumerates the matches of a node out of one matcher state while
       the filters of accepted candidates run further matchers (Contains()); the enumeration is undisturbed iff those
       run on a state of their own. *)
From Coq Require Import List NArith Bool Arith Ascii String Lia.
From RG.Engine Require Import RunState.
Import ListNotations.

(* ---------- (1) import tables ---------- *)
Definition imports := list (string * string).          (* package name -> path, in Import() order *)
Definition has_imports (g : imports) : bool := match g with [] => false | _ => true end.

(* the table each group's patterns are compiled with, for the groups of a file in load order. The loader either builds
   the table from the group at every compilation (policy always), or keeps it in a field that is stored under some
   condition -- the natural one being "the group has imports" -- and read by every compilation. [init]: what the field
   holds before the first group (nil for a new loader). *)
Definition group_envs (pol : write_policy) (init : imports) (gs : list imports) : list imports :=
  reg_history imports pol init (map (fun g => (g, has_imports g)) gs).

Theorem group_envs_own pol : pol = WriteAlways -> forall init gs, group_envs pol init gs = gs.
Proof.
  intros Hp init gs. unfold group_envs. rewrite (reg_history_independent imports pol Hp).
  rewrite map_map. cbn [fst]. apply map_id.
Qed.

(* a table stored only for groups that have imports: a group without any inherits its predecessor's *)
Lemma group_envs_sometimes_refuted :
  group_envs WriteSometimes [] [[("rand", "crypto/rand")]; []; [("util", "example.com/util")]; []]%string =
  [[("rand", "crypto/rand")]; [("rand", "crypto/rand")]; [("util", "example.com/util")]; [("util", "example.com/util")]]%string.
Proof. reflexivity. Qed.

(* the rules of a file paired with the table their pattern is compiled with *)
Definition compile_envs {R} (pol : write_policy) (init : imports) (groups : list (imports * list R)) : list (R * imports) :=
  List.concat (map (fun ge => map (fun r => (r, snd ge)) (snd (fst ge)))
              (combine groups (group_envs pol init (map fst groups)))).
Definition spec_envs {R} (groups : list (imports * list R)) : list (R * imports) :=
  List.concat (map (fun g => map (fun r => (r, fst g)) (snd g)) groups).

Theorem compile_envs_spec {R} pol : pol = WriteAlways -> forall init (groups : list (imports * list R)),
  compile_envs pol init groups = spec_envs groups.
Proof.
  intros Hp init groups. unfold compile_envs, spec_envs. rewrite (group_envs_own pol Hp). f_equal.
  induction groups as [|[g rs] groups IH]; [reflexivity|]. cbn [map combine fst snd]. now rewrite IH.
Qed.

(* ---------- (2) matcher scratch states ---------- *)
Section Scratch.
Variable V : Type.
Definition mem := string -> list V.
Definition write (m : mem) (a : string) (v : list V) : mem := fun x => if String.eqb x a then v else m x.

(* the rule loop's matcher keeps the candidates of the node in its scratch cell [main] and reads candidate i out of it
   after the callbacks of candidates 0..i-1 have run; each callback may run sub-matchers, which leave whatever they
   like ([cb c]) in the cell [sub] *)
Fixpoint enum (fuel : nat) (main sub : string) (m : mem) (i : nat) (cb : V -> list V) : list V :=
  match fuel with
  | O => []
  | S f => match nth_error (m main) i with
           | None => []
           | Some c => c :: enum f main sub (write m sub (cb c)) (S i) cb
           end
  end.

Lemma write_other m a v x : x <> a -> write m a v x = m x.
Proof. intros H. unfold write. destruct (String.eqb_spec x a); [contradiction|reflexivity]. Qed.

Lemma enum_distinct_from main sub cb : main <> sub -> forall fuel m i,
  (List.length (m main) <= i + fuel)%nat -> enum fuel main sub m i cb = skipn i (m main).
Proof.
  intros Hd. induction fuel as [|f IH]; intros m i Hl.
  - cbn [enum]. rewrite skipn_all2; [reflexivity|lia].
  - cbn [enum]. destruct (nth_error (m main) i) as [c|] eqn:E.
    + rewrite IH by (rewrite write_other by exact Hd; lia). rewrite write_other by exact Hd.
      clear - E. revert i E. induction (m main) as [|x l IHl]; intros [|i] E; cbn in *; try discriminate.
      * now inversion E.
      * now apply IHl.
    + apply nth_error_None in E. rewrite skipn_all2; [reflexivity|exact E].
Qed.

(* every candidate of the node is offered exactly once, in order, whatever the callbacks' sub-matches leave behind *)
Theorem enum_distinct main sub cb : main <> sub -> forall fuel m,
  (List.length (m main) <= fuel)%nat -> enum fuel main sub m 0 cb = m main.
Proof. intros Hd fuel m Hl. now rewrite (enum_distinct_from main sub cb Hd) by lia. Qed.
End Scratch.

(* one state for both: the enumeration continues in what the sub-matcher left (candidates skipped, others offered
   although they are not candidates of this node) *)
Lemma enum_aliased_refuted :
  enum N 4 "s" "s" (fun _ => [1; 2; 3]%N) 0 (fun c => [7; 8]%N) = [1; 8]%N.
Proof. reflexivity. Qed.

(* ---------- where a matcher state comes from: holder -> source edges read from source ---------- *)
Definition strip_amp (s : string) : string :=
  match s with String c s' => if Ascii.eqb c "&"%char then s' else s | EmptyString => s end.
Fixpoint slookup (l : list (string * string)) (k : string) : option string :=
  match l with [] => None | (k', v) :: l' => if String.eqb k' k then Some v else slookup l' k end.
Fixpoint origin (fuel : nat) (flow : list (string * string)) (h : string) : string :=
  match fuel with
  | O => h
  | S f => match slookup flow (strip_amp h) with Some s => origin f flow s | None => strip_amp h end
  end.
Definition is_alloc (s : string) : bool := String.prefix "alloc:" s.

(* the MatchNode call sites: exactly the rule loop and the Contains() filter, on states of different allocations *)
Definition states_distinct (flow sites : list (string * string)) (main_site sub_site : string) : bool :=
  match sites with
  | [a; b] =>
    let pick s := if String.eqb (fst a) s then Some (snd a) else if String.eqb (fst b) s then Some (snd b) else None in
    match pick main_site, pick sub_site with
    | Some m, Some s => let om := origin 8 flow m in let os := origin 8 flow s in
                        is_alloc om && is_alloc os && negb (String.eqb om os) && negb (String.eqb main_site sub_site)
    | _, _ => false
    end
  | _ => false
  end.

Lemma states_distinct_origins flow sites ms ss : states_distinct flow sites ms ss = true ->
  exists m s, In (ms, m) sites /\ In (ss, s) sites /\ origin 8 flow m <> origin 8 flow s.
Proof.
  unfold states_distinct. destruct sites as [|a [|b [|c l]]]; try discriminate.
  destruct a as [a1 a2], b as [b1 b2]. cbn [fst snd].
  assert (fin : forall x y, In (ms, x) [(a1, a2); (b1, b2)] -> In (ss, y) [(a1, a2); (b1, b2)] ->
            is_alloc (origin 8 flow x) && is_alloc (origin 8 flow y) && negb (String.eqb (origin 8 flow x) (origin 8 flow y)) &&
            negb (String.eqb ms ss) = true ->
            exists m s, In (ms, m) [(a1, a2); (b1, b2)] /\ In (ss, s) [(a1, a2); (b1, b2)] /\ origin 8 flow m <> origin 8 flow s).
  { intros x y Hx Hy H. exists x, y. split; [exact Hx|split; [exact Hy|]].
    apply andb_prop in H as [H _]. apply andb_prop in H as [_ H]. intros Heq. rewrite Heq, String.eqb_refl in H. discriminate. }
  destruct (String.eqb_spec a1 ms) as [E1|E1]; destruct (String.eqb_spec a1 ss) as [E2|E2];
  destruct (String.eqb_spec b1 ms) as [E3|E3]; destruct (String.eqb_spec b1 ss) as [E4|E4]; try discriminate;
  intros H; apply (fin _ _) in H; try exact H; cbn; subst; auto.
Qed.
