(* C12: comment rules (runner.go:runCommentRules + handleCommentMatch). The regexp engine is an oracle: for every rule
   the caller supplies what FindStringSubmatchIndex returned on comment.Text (None = no match; the FLAT index vector, as
   Go returns it) and SubexpNames; Text.Matches filters consult a second oracle (pattern, text) -> verdict.
   The match data `m` of the rule loop is an explicit loop variable (run_loop): where it is (re)initialised is a
   parameter that is read off the source on every run. *)
From Coq Require Import List ZArith Lia Bool Arith.
From RG.Base Require Import Outcome GoInt GoSlice.
From RG.Regex Require Import Utf8.
From RG.Engine Require Import TruncateSpec RenderSpec.
Import ListNotations.
Local Open Scope Z_scope.

(* Where() expressions over comment captures *)
Inductive cfilter :=
| FTrue
| FTextEq (v lit : bytes)          (* m[v].Text == "lit" *)
| FTextNe (v lit : bytes)          (* m[v].Text != "lit" *)
| FTextEqVar (v w : bytes)         (* m[v].Text == m[w].Text *)
| FTextNeVar (v w : bytes)
| FTextMatches (v pat : bytes)     (* m[v].Text.Matches(`pat`) *)
| FLineEq (v w : bytes)            (* m[v].Line == m[w].Line *)
| FLineNe (v w : bytes)
| FLineLt (v w : bytes)            (* m[v].Line < m[w].Line *)
| FLineGtC (v : bytes) (n : Z)     (* m[v].Line > n *)
| FNodeIs (v tag : bytes)          (* m[v].Node.Is(`tag`) *)
| FNot (f : cfilter)
| FAnd (f g : cfilter)
| FOr (f g : cfilter).

Record crule := {
  c_names : list bytes;               (* regexp.SubexpNames(): index 0 is "", unnamed groups are "" *)
  c_groups : bool;                    (* goCommentRule.captureGroups = regexpHasCaptureGroups(pattern) *)
  c_filter : cfilter;
  c_rule : mrule
}.

Definition is_empty (b : bytes) : bool := match b with [] => true | _ => false end.
Definition dollar2 : bytes := [36; 36].

(* gogrep.MatchData.CapturedByName: "$$" is the whole match, otherwise the FIRST capture of that name *)
Definition var_node (v : bytes) (whole : mnode) (caps : list (bytes * mnode)) : option mnode :=
  if bytes_eqb v dollar2 then Some whole else captured_by_name v caps.
(* filterParams.nodeText(subNode(v)): an unbound name is a nil node and has the empty text *)
Definition var_text (v : bytes) (whole : mnode) (caps : list (bytes * mnode)) : bytes :=
  match var_node v whole caps with Some nd => n_text nd | None => [] end.

(* token.File's line table: the line of a file offset is 1 + the number of newlines in front of it *)
Fixpoint count_nl (s : bytes) : Z := match s with [] => 0 | c :: t => (if c =? 10 then 1 else 0) + count_nl t end.
Definition line_of (src : bytes) (pos : Z) : Z := 1 + count_nl (firstn (Z.to_nat pos) src).
Definition tag_Node : bytes := [78; 111; 100; 101].

(* the match data of runCommentRules: m.match.Capture and m.match.Node *)
Record mdata := { md_caps : list (bytes * mnode); md_node : option mnode }.
Definition md_zero : mdata := {| md_caps := []; md_node := None |}.     (* `var m matchData` *)

(* a finite regexp oracle for Text.Matches: (pattern, text, verdict) triples supplied with each case *)
Definition table_oracle (tbl : list (bytes * bytes * bool)) (pat txt : bytes) : option bool :=
  match find (fun x => bytes_eqb (fst (fst x)) pat && bytes_eqb (snd (fst x)) txt) tbl with
  | Some x => Some (snd x)
  | None => None
  end.

(* handleCommentMatch's report: unlike handleMatch, a Suggest template always yields a Suggestion (possibly with an
   empty replacement: the span is deleted) *)
Definition mk_creport (r : mrule) (l : Z) (whole : mnode) (caps : list (bytes * mnode)) : option mreport :=
  match (match r_loc r with None => Some whole | Some v => var_node v whole caps end) with
  | None => None
  | Some node =>
      Some {| rep_pos := n_pos node; rep_end := n_end node;
              rep_msg := render_msg (Some l) (ccaps_of caps) (n_text whole) (n_fix whole) (r_msg r);
              rep_sugg := match r_sugg r with
                          | [] => None
                          | tpl => Some (n_pos node, n_end node, render_msg None (ccaps_of caps) (n_text whole) (n_fix whole) tpl)
                          end;
              rep_line := r_line r |}
  end.

Section Run.
Variable in_range : Z -> Z -> bytes -> outcome bool.   (* nodeText's in-range test (regenerated; see C03) *)
Variable re_match : bytes -> bytes -> option bool.      (* Text.Matches oracle: pattern, text *)
Variable l : Z.                                         (* TruncateLen *)
Variable src : bytes.                                   (* the file's bytes *)
Variable off : Z.                                       (* file.Offset(comment.Pos()) *)
Variable text : bytes.                                  (* comment.Text as go/parser delivers it *)

(* &ast.Comment{Slash: file.Pos(b + off), Text: text[b:e]} together with the text nodeText yields for it *)
Definition cnode (b e : Z) : outcome mnode :=
  bind (slice text b e) (fun t =>
  let from := off + b in
  bind (node_text in_range src from (from + len t) t) (fun shown =>
  Ok {| n_pos := from; n_end := from + len t; n_text := shown; n_fix := false |})).

(* for i, name := range SubexpNames(): resultIndex := i*2; beginPos, endPos := result[resultIndex+0], result[resultIndex+1] *)
Fixpoint group_caps_from (i : nat) (names : list bytes) (res : list Z) : outcome (list (bytes * mnode)) :=
  match names with
  | [] => Ok []
  | name :: rest =>
      if (i =? 0)%nat || is_empty name then group_caps_from (S i) rest res
      else
        let ri := Z.of_nat i * 2 in
        bind (index res (ri + 0)) (fun b =>
        bind (index res (ri + 1)) (fun e =>
        bind (if (b <? 0) || (e <? 0) then cnode 0 0     (* group did not participate: empty node at the comment *)
              else cnode b e) (fun nd =>
        bind (group_caps_from (S i) rest res) (fun tl => Ok ((name, nd) :: tl)))))
  end.

Definition group_caps (names : list bytes) (res : list Z) : outcome (list (bytes * mnode)) := group_caps_from 0 names res.

(* ctx.Fset.Position(subNode(v).Pos()).Line; an unbound name has no node and hence no line *)
Definition var_line (v : bytes) (whole : mnode) (caps : list (bytes * mnode)) : option Z :=
  match var_node v whole caps with Some nd => Some (line_of src (n_pos nd)) | None => None end.
Definition line_cmp (cmp : Z -> Z -> bool) (a b : option Z) : bool :=
  match a, b with Some x, Some y => cmp x y | _, _ => false end.           (* "no node, no line": the filter fails *)

Fixpoint eval_filter (f : cfilter) (whole : mnode) (caps : list (bytes * mnode)) : outcome bool :=
  match f with
  | FTrue => Ok true
  | FTextEq v lit => Ok (bytes_eqb (var_text v whole caps) lit)
  | FTextNe v lit => Ok (negb (bytes_eqb (var_text v whole caps) lit))
  | FTextEqVar v w => Ok (bytes_eqb (var_text v whole caps) (var_text w whole caps))
  | FTextNeVar v w => Ok (negb (bytes_eqb (var_text v whole caps) (var_text w whole caps)))
  | FTextMatches v pat => match re_match pat (var_text v whole caps) with Some b => Ok b | None => Panic PExplicit end
  | FLineEq v w => Ok (line_cmp Z.eqb (var_line v whole caps) (var_line w whole caps))
  | FLineNe v w => Ok (line_cmp (fun x y => negb (x =? y)) (var_line v whole caps) (var_line w whole caps))
  | FLineLt v w => Ok (line_cmp Z.ltb (var_line v whole caps) (var_line w whole caps))
  | FLineGtC v n => Ok (line_cmp Z.gtb (var_line v whole caps) (Some n))
  (* a piece of a comment is an *ast.Comment: it is a Node, not an Expr / Stmt, and has no node tag of its own *)
  | FNodeIs v tag => Ok (bytes_eqb tag tag_Node)
  | FNot g => bind (eval_filter g whole caps) (fun b => Ok (negb b))
  | FAnd g h => bind (eval_filter g whole caps) (fun b => if b : bool then eval_filter h whole caps else Ok false)
  | FOr g h => bind (eval_filter g whole caps) (fun b => if b : bool then Ok true else eval_filter h whole caps)
  end.

(* the part of the loop body between `var m matchData` and the call of handleCommentMatch: this rule's named groups are
   APPENDED to m.match.Capture, m.match.Node is set (both paths: FindStringSubmatchIndex / FindStringIndex) *)
Definition fill (m0 : mdata) (r : crule) (res : list Z) : outcome mdata :=
  bind (if c_groups r then group_caps (c_names r) res else Ok []) (fun caps =>
  bind (index res 0) (fun r0 =>
  bind (index res 1) (fun r1 =>
  bind (cnode r0 r1) (fun whole =>
  Ok {| md_caps := md_caps m0 ++ caps; md_node := Some whole |})))).

(* handleCommentMatch: filter on the match data, then the report; None = rejected (the loop goes on) *)
Definition handle (r : crule) (m : mdata) : outcome (option mreport) :=
  match md_node m with
  | None => Panic PNilDeref
  | Some whole =>
      bind (eval_filter (c_filter r) whole (md_caps m)) (fun ok =>
      if ok : bool then Ok (mk_creport (c_rule r) l whole (md_caps m)) else Ok None)
  end.

(* runCommentRules with the match data as an explicit loop variable. fresh_each = true: `var m matchData` is a statement
   of the loop body (every rule starts from the zero value); false: declared once before the loop and carried along. *)
Fixpoint run_loop (fresh_each : bool) (carried : mdata) (rules : list (crule * option (list Z))) : outcome (option mreport) :=
  match rules with
  | [] => Ok None
  | (r, m) :: t =>
      let m0 := if fresh_each then md_zero else carried in
      match m with
      | None => run_loop fresh_each m0 t                      (* result == nil: continue *)
      | Some res =>
          bind (fill m0 r res) (fun md =>
          bind (handle r md) (fun out =>
          match out with
          | Some rep => Ok (Some rep)                         (* accept: break *)
          | None => run_loop fresh_each md t
          end))
      end
  end.

(* one rule on one comment, as a function of this rule and ITS OWN submatch indices only *)
Definition try_rule (r : crule) (m : option (list Z)) : outcome (option mreport) :=
  match m with
  | None => Ok None
  | Some res => bind (fill md_zero r res) (handle r)
  end.

(* rules in load order; the first one that accepts reports and ends the loop *)
Fixpoint run_comment_rules (rules : list (crule * option (list Z))) : outcome (option mreport) :=
  match rules with
  | [] => Ok None
  | (r, m) :: t =>
      bind (try_rule r m) (fun res => match res with Some rep => Ok (Some rep) | None => run_comment_rules t end)
  end.

(* ------------------------------------------------------------------ per-rule freshness of the match data *)
(* with the declaration inside the loop body nothing of an earlier (matched but rejected) rule reaches a later one:
   whatever the loop variable holds on entry, each rule is judged on its own submatches *)
Theorem run_loop_fresh carried rules : run_loop true carried rules = run_comment_rules rules.
Proof.
  revert carried. induction rules as [|[r m] t IH]; intros carried; [reflexivity|].
  cbn [run_loop run_comment_rules]. unfold try_rule. destruct m as [res|]; cbn [bind]; [|apply IH].
  destruct (fill md_zero r res) as [md|w]; cbn [bind]; [|reflexivity].
  destruct (handle r md) as [[rep|]|w]; cbn [bind]; try reflexivity. apply IH.
Qed.

Corollary match_data_fresh c1 c2 rules : run_loop true c1 rules = run_loop true c2 rules.
Proof. now rewrite !run_loop_fresh. Qed.

(* ------------------------------------------------------------------ first accepting rule wins *)
Theorem first_comment_rule_wins rules rep :
  run_comment_rules rules = Ok (Some rep) ->
  exists pre r m post, rules = pre ++ (r, m) :: post /\
    try_rule r m = Ok (Some rep) /\
    Forall (fun p => try_rule (fst p) (snd p) = Ok None) pre.
Proof.
  induction rules as [|[r m] t IH]; cbn [run_comment_rules]; [discriminate|].
  destruct (try_rule r m) as [[rep'|]|w] eqn:E; cbn [bind]; try discriminate.
  - intros [= <-]. exists [], r, m, t. repeat split; auto.
  - intros H. destruct (IH H) as (pre & r' & m' & post & -> & Ht & Hpre).
    exists ((r, m) :: pre), r', m', post. repeat split; auto.
Qed.

Theorem no_rule_reports rules :
  run_comment_rules rules = Ok None -> Forall (fun p => try_rule (fst p) (snd p) = Ok None) rules.
Proof.
  induction rules as [|[r m] t IH]; cbn [run_comment_rules]; [constructor|].
  destruct (try_rule r m) as [[rep'|]|w] eqn:E; cbn [bind]; try discriminate.
  intros H. constructor; auto.
Qed.

(* the report of rule k depends only on rule k and rule k's own submatches: it is try_rule of that pair, whatever the
   other rules are, whatever they matched, and whatever the loop variable held before *)
Theorem report_from_own_submatches carried rules rep :
  run_loop true carried rules = Ok (Some rep) ->
  exists k r res, nth_error rules k = Some (r, Some res) /\ try_rule r (Some res) = Ok (Some rep) /\
    forall j p, (j < k)%nat -> nth_error rules j = Some p -> try_rule (fst p) (snd p) = Ok None.
Proof.
  rewrite run_loop_fresh. intros H.
  destruct (first_comment_rule_wins rules rep H) as (pre & r & m & post & -> & Ht & Hpre).
  destruct m as [res|]; [|discriminate].
  exists (length pre), r, res. split; [|split].
  - rewrite nth_error_app2, Nat.sub_diag by lia. reflexivity.
  - exact Ht.
  - intros j p Hj Hn. rewrite nth_error_app1 in Hn by exact Hj.
    rewrite Forall_forall in Hpre. apply Hpre. eapply nth_error_In; exact Hn.
Qed.

(* ------------------------------------------------------------------ spans and texts, when comment.Text IS the comment's source *)
Hypothesis in_range_spec : forall from to s,
  in_range from to s = Ok ((0 <=? from) && (from <? len s) && ((from <=? to) && (to <=? len s))).
Hypothesis off_ok : 0 <= off.
Hypothesis text_is_source : sub src off (off + len text) = text.     (* no byte was stripped by the scanner *)
Hypothesis text_in_file : off + len text <= len src.
Hypothesis text_nonempty : 0 < len text.
Variable res0 : list Z.                                 (* submatch index vector of the rule under consideration *)

Lemma firstn_firstn_le {A} (a b : nat) (x : list A) : (a <= b)%nat -> firstn a (firstn b x) = firstn a x.
Proof. intros H. rewrite firstn_firstn. f_equal. lia. Qed.

Lemma sub_sub (s : bytes) a n x y :
  0 <= a -> 0 <= x -> x <= y -> y <= n -> sub (sub s a (a + n)) x y = sub s (a + x) (a + y).
Proof.
  intros Ha Hx Hxy Hyn. unfold sub.
  replace (a + n - a) with n by lia. replace (a + y - (a + x)) with (y - x) by lia.
  rewrite skipn_firstn_comm, firstn_firstn_le by lia.
  rewrite skipn_skipn_add. do 2 f_equal. lia.
Qed.

Lemma src_sub b e : 0 <= b -> b <= e -> e <= len text -> sub src (off + b) (off + e) = sub text b e.
Proof. intros H1 H2 H3. rewrite <- (sub_sub src off (len text) b e) by lia. rewrite text_is_source. reflexivity. Qed.

Lemma cnode_exact b e :
  0 <= b -> b <= e -> e <= len text ->
  cnode b e = Ok {| n_pos := off + b; n_end := off + e; n_text := sub text b e; n_fix := false |}.
Proof.
  intros Hb Hbe He. unfold cnode. rewrite slice_ok by lia. cbn [bind]. fold (sub text b e).
  assert (Hl : len (sub text b e) = e - b).
  { unfold sub, len in *. rewrite firstn_length, skipn_length. lia. }
  rewrite Hl. replace (off + b + (e - b)) with (off + e) by lia.
  unfold node_text. rewrite in_range_spec. cbn [bind].
  destruct (Z.eq_dec b (len text)) as [Heq|Hne].
  - (* empty node at the very end of the comment: may or may not be in range; both branches give the empty text *)
    assert (e = b) by lia. subst e.
    assert (Hs : sub text b b = []) by (unfold sub; rewrite Z.sub_diag; reflexivity).
    rewrite Hs. destruct ((0 <=? off + b) && (off + b <? len src) && ((off + b <=? off + b) && (off + b <=? len src))).
    + rewrite slice_ok by lia. cbn [bind]. rewrite Z.sub_diag. reflexivity.
    + reflexivity.
  - replace ((0 <=? off + b) && (off + b <? len src) && ((off + b <=? off + e) && (off + e <=? len src))) with true by lia.
    rewrite slice_ok by lia. cbn [bind]. fold (sub src (off + b) (off + e)).
    rewrite src_sub by lia. reflexivity.
Qed.

Lemma index_nth (s : list Z) i x : nth_error s i = Some x -> index s (Z.of_nat i) = Ok x.
Proof.
  intros H. unfold index. assert (i < length s)%nat by (apply nth_error_Some; congruence).
  replace ((0 <=? Z.of_nat i) && (Z.of_nat i <? len s)) with true by (unfold len; lia).
  rewrite Nat2Z.id, H. reflexivity.
Qed.

(* comment_span_exact: the reported node covers exactly the bytes of the match, inside the comment, and `$$` is
   the matched text; a Suggest replaces exactly that span *)
Theorem comment_span_exact r res r0 r1 rep :
  r_loc (c_rule r) = None ->
  nth_error res 0 = Some r0 -> nth_error res 1 = Some r1 -> 0 <= r0 -> r0 <= r1 -> r1 <= len text ->
  try_rule r (Some res) = Ok (Some rep) ->
  rep_pos rep = off + r0 /\ rep_end rep = off + r1 /\
  off <= rep_pos rep /\ rep_end rep <= off + len text /\
  sub src (rep_pos rep) (rep_end rep) = sub text r0 r1 /\
  (forall f t s, rep_sugg rep = Some (f, t, s) -> f = off + r0 /\ t = off + r1).
Proof.
  intros Hloc Hi0 Hi1 H0 H01 H1. unfold try_rule, fill.
  destruct (if c_groups r then group_caps (c_names r) res else Ok []) as [caps|w]; cbn [bind]; [|discriminate].
  pose proof (index_nth res 0 r0 Hi0) as E0. pose proof (index_nth res 1 r1 Hi1) as E1.
  change (Z.of_nat 0) with 0 in E0. change (Z.of_nat 1) with 1 in E1. rewrite E0, E1. cbn [bind].
  rewrite cnode_exact by lia. cbn [bind]. unfold handle. cbn [md_node md_caps app].
  match goal with |- context [eval_filter ?f ?w ?c] => destruct (eval_filter f w c) as [[|]|?] end; cbn [bind]; try discriminate.
  intros [= Hrep].
  unfold mk_creport in Hrep. rewrite Hloc in Hrep. injection Hrep as <-. cbn.
  repeat split; try lia.
  - apply src_sub; lia.
  - destruct (r_sugg (c_rule r)); congruence.
  - destruct (r_sugg (c_rule r)); congruence.
Qed.

(* groups_interpolate: a named group is bound to its own submatch (by regexp group index, so unnamed groups in front
   never shift the mapping) with exactly the submatch text, or to the empty text when it did not participate *)
Definition group_node_ok (nd : mnode) (b e : Z) : Prop :=
  if (b <? 0) || (e <? 0) then n_text nd = [] /\ n_pos nd = off
  else n_text nd = sub text b e /\ n_pos nd = off + b /\ n_end nd = off + e.

Lemma bytes_eqb_refl (a : bytes) : bytes_eqb a a = true.
Proof. now apply bytes_eqb_eq. Qed.

Lemma bytes_eqb_neq (a b : bytes) : a <> b -> bytes_eqb a b = false.
Proof. intros H. destruct (bytes_eqb a b) eqn:E; [|reflexivity]. apply bytes_eqb_eq in E. contradiction. Qed.

Lemma group_caps_from_spec names : forall k caps p name b e,
  group_caps_from k names res0 = Ok caps ->
  NoDup (filter (fun n => negb (is_empty n)) names) ->
  nth_error names p = Some name -> (k + p <> 0)%nat -> name <> [] ->
  nth_error res0 (2 * (k + p)) = Some b -> nth_error res0 (2 * (k + p) + 1) = Some e ->
  (b < 0 \/ e < 0 \/ (0 <= b /\ b <= e /\ e <= len text)) ->
  exists nd, captured_by_name name caps = Some nd /\ group_node_ok nd b e.
Proof.
  induction names as [|n rest IH]; intros k caps p name b e Hg Hnd Hn Hk Hne Hib Hie Hb.
  - destruct p; discriminate.
  - cbn [group_caps_from] in Hg.
    destruct p as [|p].
    + (* this very group *)
      cbn in Hn. injection Hn as ->. rewrite Nat.add_0_r in Hib, Hie, Hk.
      assert (Hk0 : (k =? 0)%nat = false) by (apply Nat.eqb_neq; exact Hk).
      assert (He : is_empty name = false) by (destruct name; [contradiction|reflexivity]).
      rewrite Hk0, He in Hg. cbn [orb] in Hg.
      replace (Z.of_nat k * 2 + 0) with (Z.of_nat (2 * k)) in Hg by lia.
      replace (Z.of_nat k * 2 + 1) with (Z.of_nat (2 * k + 1)) in Hg by lia.
      rewrite (index_nth _ _ _ Hib), (index_nth _ _ _ Hie) in Hg. cbn [bind] in Hg.
      unfold group_node_ok. destruct ((b <? 0) || (e <? 0)) eqn:Eneg.
      * rewrite cnode_exact in Hg by lia. cbn [bind] in Hg.
        destruct (group_caps_from (S k) rest res0) as [tl|w]; cbn [bind] in Hg; [|discriminate]. injection Hg as <-.
        eexists. cbn [captured_by_name]. rewrite bytes_eqb_refl. split; [reflexivity|]. cbn. split; [reflexivity|lia].
      * assert (0 <= b /\ b <= e /\ e <= len text) as (Hb0 & Hbe & Hel) by lia.
        rewrite cnode_exact in Hg by lia. cbn [bind] in Hg.
        destruct (group_caps_from (S k) rest res0) as [tl|w]; cbn [bind] in Hg; [|discriminate]. injection Hg as <-.
        eexists. cbn [captured_by_name]. rewrite bytes_eqb_refl. split; [reflexivity|]. cbn. auto.
    + (* a later group *)
      cbn in Hn. replace (k + S p)%nat with (S k + p)%nat in Hib, Hie, Hk by lia.
      assert (Hnd' : NoDup (filter (fun n0 => negb (is_empty n0)) rest)).
      { cbn [filter] in Hnd. destruct (negb (is_empty n)); [now inversion Hnd|exact Hnd]. }
      destruct ((k =? 0)%nat || is_empty n) eqn:Eskip.
      * exact (IH (S k) caps p name b e Hg Hnd' Hn Hk Hne Hib Hie Hb).
      * apply orb_false_elim in Eskip as [_ Hen].
        assert (Hneq : n <> name).
        { intros ->. cbn [filter] in Hnd. rewrite Hen in Hnd. cbn [negb] in Hnd. inversion Hnd as [|? ? Hnotin _]; subst.
          apply Hnotin. apply filter_In. split; [eapply nth_error_In; exact Hn|]. now rewrite Hen. }
        destruct (index res0 (Z.of_nat k * 2 + 0)) as [b'|w]; cbn [bind] in Hg; [|discriminate].
        destruct (index res0 (Z.of_nat k * 2 + 1)) as [e'|w]; cbn [bind] in Hg; [|discriminate].
        destruct (if (b' <? 0) || (e' <? 0) then cnode 0 0 else cnode b' e') as [nd'|w]; cbn [bind] in Hg; [|discriminate].
        destruct (group_caps_from (S k) rest res0) as [tl|w] eqn:Etl; cbn [bind] in Hg; [|discriminate]. injection Hg as <-.
        destruct (IH (S k) tl p name b e Etl Hnd' Hn Hk Hne Hib Hie Hb) as (nd & Hc & Hok).
        exists nd. split; [|exact Hok].
        cbn [captured_by_name]. rewrite bytes_eqb_neq by exact Hneq. exact Hc.
Qed.

Theorem groups_interpolate names caps i name b e :
  group_caps names res0 = Ok caps ->
  NoDup (filter (fun n => negb (is_empty n)) names) ->
  nth_error names i = Some name -> i <> 0%nat -> name <> [] ->
  nth_error res0 (2 * i) = Some b -> nth_error res0 (2 * i + 1) = Some e ->
  (b < 0 \/ e < 0 \/ (0 <= b /\ b <= e /\ e <= len text)) ->
  exists nd, captured_by_name name caps = Some nd /\ group_node_ok nd b e.
Proof. intros. eapply (group_caps_from_spec names 0%nat); eauto. Qed.

(* filters_see_group_texts: what a Where() expression reads for a bound group is the node groups_interpolate speaks of *)
Theorem filter_reads_group_text whole caps name nd :
  name <> dollar2 -> captured_by_name name caps = Some nd -> var_text name whole caps = n_text nd.
Proof.
  intros Hd Hc. unfold var_text, var_node. rewrite bytes_eqb_neq by exact Hd. now rewrite Hc.
Qed.

(* ... and the line it reads is the line of the file on which that node begins (for a group that took part in the match:
   the line of offset-of-comment + submatch begin, by groups_interpolate) *)
Theorem filter_reads_group_line whole caps name nd :
  name <> dollar2 -> captured_by_name name caps = Some nd -> var_line name whole caps = Some (line_of src (n_pos nd)).
Proof.
  intros Hd Hc. unfold var_line, var_node. rewrite bytes_eqb_neq by exact Hd. now rewrite Hc.
Qed.

(* capture_fast_path_safe: a pattern without capture groups has SubexpNames() = [""]; taking the FindStringIndex
   path (no captures) then yields the same match data as the submatch path would *)
Theorem capture_fast_path_safe res : group_caps [[]] res = Ok [].
Proof. reflexivity. Qed.

(* with no group at all the two paths of `fill` agree, whatever the flag says *)
Theorem fast_path_same_fill m0 names msg res :
  Forall (fun n => n = []) names ->
  fill m0 {| c_names := names; c_groups := true; c_filter := FTrue; c_rule := msg |} res =
  fill m0 {| c_names := names; c_groups := false; c_filter := FTrue; c_rule := msg |} res.
Proof.
  intros Hn. unfold fill. cbn [c_groups c_names].
  assert (H : forall k, group_caps_from k names res = Ok []).
  { induction Hn as [|n t -> _ IH]; intros k; [reflexivity|]. cbn [group_caps_from is_empty]. rewrite orb_true_r. apply IH. }
  unfold group_caps. now rewrite H.
Qed.
End Run.
