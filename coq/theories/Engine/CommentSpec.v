(* C12: comment rules (runner.go:runCommentRules + handleCommentMatch). The regexp engine is an oracle: for every rule
   the caller supplies what FindStringSubmatchIndex returned on comment.Text (None = no match) and SubexpNames. *)
From Coq Require Import List ZArith Lia Bool Arith.
From RG.Base Require Import Outcome GoInt GoSlice.
From RG.Regex Require Import Utf8.
From RG.Engine Require Import TruncateSpec RenderSpec.
Import ListNotations.
Local Open Scope Z_scope.

Record crule := {
  c_names : list bytes;               (* regexp.SubexpNames(): index 0 is "", unnamed groups are "" *)
  c_groups : bool;                    (* goCommentRule.captureGroups = regexpHasCaptureGroups(pattern) *)
  c_filter : option (bytes * bytes);  (* Where(m["name"].Text == "lit") *)
  c_rule : mrule
}.

Definition is_empty (b : bytes) : bool := match b with [] => true | _ => false end.

Section Run.
Variable in_range : Z -> Z -> bytes -> outcome bool.   (* nodeText's in-range test (regenerated; see C03) *)
Variable l : Z.                                         (* TruncateLen *)
Variable src : bytes.                                   (* the file's bytes *)
Variable off : Z.                                       (* file offset of comment.Pos() *)
Variable text : bytes.                                  (* comment.Text as go/parser delivers it *)

(* &ast.Comment{Slash: file.Pos(b + off), Text: text[b:e]} together with the text nodeText yields for it *)
Definition cnode (b e : Z) : outcome mnode :=
  bind (slice text b e) (fun t =>
  let from := off + b in
  bind (node_text in_range src from (from + len t) t) (fun shown =>
  Ok {| n_pos := from; n_end := from + len t; n_text := shown; n_fix := false |})).

Fixpoint group_caps_from (i : nat) (names : list bytes) (idx : list (Z * Z)) : outcome (list (bytes * mnode)) :=
  match names with
  | [] => Ok []
  | name :: rest =>
      bind (group_caps_from (S i) rest idx) (fun tl =>
      if (i =? 0)%nat || is_empty name then Ok tl
      else match nth_error idx i with
           | None => Panic PIndex                         (* result[i*2] out of range *)
           | Some (b, e) =>
               if (b <? 0) || (e <? 0)
               then bind (cnode 0 0) (fun nd => Ok ((name, nd) :: tl))   (* group did not participate: empty node at the comment *)
               else bind (cnode b e) (fun nd => Ok ((name, nd) :: tl))
           end)
  end.

Definition group_caps (names : list bytes) (idx : list (Z * Z)) : outcome (list (bytes * mnode)) := group_caps_from 0 names idx.

Definition accept (r : crule) (caps : list (bytes * mnode)) : bool :=
  match c_filter r with
  | None => true
  | Some (name, want) => match captured_by_name name caps with Some nd => bytes_eqb (n_text nd) want | None => false end
  end.

(* one rule on one comment: None = the rule does not report (no match / filter rejects) *)
Definition try_rule (r : crule) (m : option (list (Z * Z))) : outcome (option mreport) :=
  match m with
  | None => Ok None
  | Some idx =>
      match nth_error idx 0 with
      | None => Panic PIndex
      | Some (r0, r1) =>
          bind (if c_groups r then group_caps (c_names r) idx else Ok []) (fun caps =>
          bind (cnode r0 r1) (fun whole =>
          if accept r caps then Ok (mk_report (c_rule r) l whole caps) else Ok None))
      end
  end.

(* runCommentRules: rules in load order; the first one that accepts reports and ends the loop *)
Fixpoint run_comment_rules (rules : list (crule * option (list (Z * Z)))) : outcome (option mreport) :=
  match rules with
  | [] => Ok None
  | (r, m) :: t =>
      bind (try_rule r m) (fun res => match res with Some rep => Ok (Some rep) | None => run_comment_rules t end)
  end.

(* ------------------------------------------------------------------ first accepting rule wins *)
Theorem first_comment_rule_wins rules rep :
  run_comment_rules rules = Ok (Some rep) ->
  exists pre r m post, rules = pre ++ (r, m) :: post /\
    try_rule r m = Ok (Some rep) /\
    Forall (fun p => try_rule (fst p) (snd p) = Ok None) pre.
Proof.
  induction rules as [|[r m] t IH]; cbn [run_comment_rules]; [discriminate|].
  destruct (try_rule r m) as [[rep'|]|w] eqn:E; cbn [bind]; try discriminate.
  - intros [= <-]. exists [], r, m, t. repeat split; auto.
  - intros H. destruct (IH H) as (pre & r' & m' & post & -> & Ht & Hpre).
    exists ((r, m) :: pre), r', m', post. repeat split; auto.
Qed.

Theorem no_rule_reports rules :
  run_comment_rules rules = Ok None -> Forall (fun p => try_rule (fst p) (snd p) = Ok None) rules.
Proof.
  induction rules as [|[r m] t IH]; cbn [run_comment_rules]; [constructor|].
  destruct (try_rule r m) as [[rep'|]|w] eqn:E; cbn [bind]; try discriminate.
  intros H. constructor; auto.
Qed.

(* ------------------------------------------------------------------ spans and texts, when comment.Text IS the comment's source *)
Hypothesis in_range_spec : forall from to s,
  in_range from to s = Ok ((0 <=? from) && (from <? len s) && ((0 <=? to) && (to <=? len s))).
Hypothesis off_ok : 0 <= off.
Hypothesis text_is_source : sub src off (off + len text) = text.     (* no byte was stripped by the scanner *)
Hypothesis text_in_file : off + len text <= len src.
Hypothesis text_nonempty : 0 < len text.
Variable idx0 : list (Z * Z).                           (* submatch index pairs of the rule under consideration *)

Lemma firstn_firstn_le {A} (a b : nat) (x : list A) : (a <= b)%nat -> firstn a (firstn b x) = firstn a x.
Proof. intros H. rewrite firstn_firstn. f_equal. lia. Qed.

Lemma sub_sub (s : bytes) a n x y :
  0 <= a -> 0 <= x -> x <= y -> y <= n -> sub (sub s a (a + n)) x y = sub s (a + x) (a + y).
Proof.
  intros Ha Hx Hxy Hyn. unfold sub.
  replace (a + n - a) with n by lia. replace (a + y - (a + x)) with (y - x) by lia.
  rewrite skipn_firstn_comm, firstn_firstn_le by lia.
  rewrite skipn_skipn_add. do 2 f_equal. lia.
Qed.

Lemma src_sub b e : 0 <= b -> b <= e -> e <= len text -> sub src (off + b) (off + e) = sub text b e.
Proof. intros H1 H2 H3. rewrite <- (sub_sub src off (len text) b e) by lia. rewrite text_is_source. reflexivity. Qed.

Lemma cnode_exact b e :
  0 <= b -> b <= e -> e <= len text ->
  cnode b e = Ok {| n_pos := off + b; n_end := off + e; n_text := sub text b e; n_fix := false |}.
Proof.
  intros Hb Hbe He. unfold cnode. rewrite slice_ok by lia. cbn [bind]. fold (sub text b e).
  assert (Hl : len (sub text b e) = e - b).
  { unfold sub, len in *. rewrite firstn_length, skipn_length. lia. }
  rewrite Hl. replace (off + b + (e - b)) with (off + e) by lia.
  unfold node_text. rewrite in_range_spec. cbn [bind].
  destruct (Z.eq_dec b (len text)) as [Heq|Hne].
  - (* empty node at the very end of the comment: may or may not be in range; both branches give the empty text *)
    assert (e = b) by lia. subst e.
    assert (Hs : sub text b b = []) by (unfold sub; rewrite Z.sub_diag; reflexivity).
    rewrite Hs. destruct ((0 <=? off + b) && (off + b <? len src) && ((0 <=? off + b) && (off + b <=? len src))).
    + rewrite slice_ok by lia. cbn [bind]. rewrite Z.sub_diag. reflexivity.
    + reflexivity.
  - replace ((0 <=? off + b) && (off + b <? len src) && ((0 <=? off + e) && (off + e <=? len src))) with true by lia.
    rewrite slice_ok by lia. cbn [bind]. fold (sub src (off + b) (off + e)).
    rewrite src_sub by lia. reflexivity.
Qed.

(* comment_span_exact: the reported node covers exactly the bytes of the match, inside the comment, and `$$` is
   the matched text; a Suggest replaces exactly that span *)
Theorem comment_span_exact r idx r0 r1 rep :
  r_loc (c_rule r) = None ->
  nth_error idx 0 = Some (r0, r1) -> 0 <= r0 -> r0 <= r1 -> r1 <= len text ->
  try_rule r (Some idx) = Ok (Some rep) ->
  rep_pos rep = off + r0 /\ rep_end rep = off + r1 /\
  off <= rep_pos rep /\ rep_end rep <= off + len text /\
  sub src (rep_pos rep) (rep_end rep) = sub text r0 r1 /\
  (forall f t s, rep_sugg rep = Some (f, t, s) -> f = off + r0 /\ t = off + r1).
Proof.
  intros Hloc Hidx H0 H01 H1. unfold try_rule. rewrite Hidx.
  destruct (if c_groups r then group_caps (c_names r) idx else Ok []) as [caps|w]; cbn [bind]; [|discriminate].
  rewrite cnode_exact by lia. cbn [bind].
  destruct (accept r caps); [|discriminate]. intros [= Hrep].
  unfold mk_report in Hrep. rewrite Hloc in Hrep. injection Hrep as <-. cbn.
  repeat split; try lia.
  - apply src_sub; lia.
  - destruct (match r_sugg (c_rule r) with [] => [] | _ => _ end); congruence.
  - destruct (match r_sugg (c_rule r) with [] => [] | _ => _ end); congruence.
Qed.

(* groups_interpolate: a named group is bound to its own submatch (by regexp group index, so unnamed groups in front
   never shift the mapping) with exactly the submatch text, or to the empty text when it did not participate *)
Definition group_node_ok (nd : mnode) (b e : Z) : Prop :=
  if (b <? 0) || (e <? 0) then n_text nd = [] /\ n_pos nd = off
  else n_text nd = sub text b e /\ n_pos nd = off + b /\ n_end nd = off + e.

Lemma bytes_eqb_refl (a : bytes) : bytes_eqb a a = true.
Proof. now apply bytes_eqb_eq. Qed.

Lemma bytes_eqb_neq (a b : bytes) : a <> b -> bytes_eqb a b = false.
Proof. intros H. destruct (bytes_eqb a b) eqn:E; [|reflexivity]. apply bytes_eqb_eq in E. contradiction. Qed.

Lemma group_caps_from_spec names : forall k caps p name b e,
  group_caps_from k names idx0 = Ok caps ->
  NoDup (filter (fun n => negb (is_empty n)) names) ->
  nth_error names p = Some name -> (k + p <> 0)%nat -> name <> [] ->
  nth_error idx0 (k + p) = Some (b, e) ->
  (b < 0 \/ e < 0 \/ (0 <= b /\ b <= e /\ e <= len text)) ->
  exists nd, captured_by_name name caps = Some nd /\ group_node_ok nd b e.
Proof.
  induction names as [|n rest IH]; intros k caps p name b e Hg Hnd Hn Hk Hne Hidx Hb.
  - destruct p; discriminate.
  - cbn [group_caps_from] in Hg.
    destruct (group_caps_from (S k) rest idx0) as [tl|w] eqn:Etl; cbn [bind] in Hg; [|discriminate].
    destruct p as [|p].
    + (* this very group *)
      cbn in Hn. injection Hn as ->. rewrite Nat.add_0_r in Hidx, Hk.
      assert (Hk0 : (k =? 0)%nat = false) by (apply Nat.eqb_neq; exact Hk).
      assert (He : is_empty name = false) by (destruct name; [contradiction|reflexivity]).
      rewrite Hk0, He in Hg. cbn [orb] in Hg. rewrite Hidx in Hg.
      unfold group_node_ok. destruct ((b <? 0) || (e <? 0)) eqn:Eneg.
      * rewrite cnode_exact in Hg by lia. cbn [bind] in Hg. injection Hg as <-.
        eexists. cbn [captured_by_name]. rewrite bytes_eqb_refl. split; [reflexivity|]. cbn. split; [reflexivity|lia].
      * assert (0 <= b /\ b <= e /\ e <= len text) as (Hb0 & Hbe & Hel) by lia.
        rewrite cnode_exact in Hg by lia. cbn [bind] in Hg. injection Hg as <-.
        eexists. cbn [captured_by_name]. rewrite bytes_eqb_refl. split; [reflexivity|]. cbn. auto.
    + (* a later group *)
      cbn in Hn. replace (k + S p)%nat with (S k + p)%nat in Hidx, Hk by lia.
      assert (Hnd' : NoDup (filter (fun n0 => negb (is_empty n0)) rest)).
      { cbn [filter] in Hnd. destruct (negb (is_empty n)); [now inversion Hnd|exact Hnd]. }
      destruct (IH (S k) tl p name b e Etl Hnd' Hn Hk Hne Hidx Hb) as (nd & Hc & Hok).
      exists nd. split; [|exact Hok].
      destruct ((k =? 0)%nat || is_empty n) eqn:Eskip.
      * injection Hg as <-. exact Hc.
      * apply orb_false_elim in Eskip as [_ Hen].
        assert (Hneq : n <> name).
        { intros ->. cbn [filter] in Hnd. rewrite Hen in Hnd. cbn [negb] in Hnd. inversion Hnd as [|? ? Hnotin _]; subst.
          apply Hnotin. apply filter_In. split; [eapply nth_error_In; exact Hn|]. now rewrite Hen. }
        destruct (nth_error idx0 k) as [[b' e']|]; [|discriminate].
        destruct ((b' <? 0) || (e' <? 0));
          (destruct (cnode _ _) as [nd'|w]; cbn [bind] in Hg; [|discriminate]; injection Hg as <-;
           cbn [captured_by_name]; rewrite bytes_eqb_neq by exact Hneq; exact Hc).
Qed.

Theorem groups_interpolate names caps i name b e :
  group_caps names idx0 = Ok caps ->
  NoDup (filter (fun n => negb (is_empty n)) names) ->
  nth_error names i = Some name -> i <> 0%nat -> name <> [] ->
  nth_error idx0 i = Some (b, e) ->
  (b < 0 \/ e < 0 \/ (0 <= b /\ b <= e /\ e <= len text)) ->
  exists nd, captured_by_name name caps = Some nd /\ group_node_ok nd b e.
Proof. intros. eapply (group_caps_from_spec names 0%nat); eauto. Qed.

(* capture_fast_path_safe: a pattern without capture groups has SubexpNames() = [""]; taking the FindStringIndex
   path (no captures) then yields the same match data as the submatch path would *)
Theorem capture_fast_path_safe idx : group_caps [[]] idx = Ok [].
Proof. reflexivity. Qed.
End Run.
