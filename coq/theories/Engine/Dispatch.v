(* C01: rule buckets (loadSyntaxRule), merging of rule sets (appendScopedRuleSet) and the rule loop of runRules,
   against the specification "offer the node to all rules in load order; the first rule with an accepted match
   wins (all accepting rules for multi-match tags)".  gogrep and the filters are an oracle [M]. *)
From Coq Require Import List NArith Lia Bool Arith.
Import ListNotations.

Record rule := { r_id : N; r_tag : N }.      (* load position / identity, root tag of its pattern *)

Fixpoint nmem (x : N) (l : list N) : bool := match l with [] => false | y :: l' => N.eqb x y || nmem x l' end.
Lemma nmem_In x l : nmem x l = true <-> In x l.
Proof.
  induction l as [|y l IH]; cbn; [split; [discriminate|tauto]|].
  rewrite orb_true_iff, IH, N.eqb_eq. split; intros [H|H]; auto.
Qed.

Fixpoint nlookup {A} (l : list (N * A)) (k : N) : option A :=
  match l with [] => None | (k', a) :: l' => if N.eqb k' k then Some a else nlookup l' k end.

Section Dispatch.
(* generated tables *)
Variable place_err : list N.                  (* pattern tags rejected at load *)
Variable place_fan : list (N * list N).       (* explicit fan-out; any other tag goes to its own bucket *)
Variable multi : N -> bool.                   (* multiMatchTags *)
Variable accumulates : bool.                  (* runRules: flag = "some callback accepted" (true) / "the last one did" (false) *)

Definition place (t : N) : option (list N) :=
  if nmem t place_err then None
  else match nlookup place_fan t with Some ds => Some ds | None => Some [t] end.

Definition dests (r : rule) : list N := match place (r_tag r) with Some ds => ds | None => [] end.
Definition loadable (r : rule) : bool := match place (r_tag r) with Some _ => true | None => false end.

(* rulesByTag after loading rs in order: every rule is appended to each of its destination buckets *)
Definition buckets := N -> list rule.
Definition add_rule (b : buckets) (r : rule) : buckets :=
  fun t => if nmem t (dests r) then b t ++ [r] else b t.
Definition load (rs : list rule) (b : buckets) : buckets := fold_left add_rule rs b.
Definition empty : buckets := fun _ => [].

Lemma load_is_filter rs : forall b t, load rs b t = b t ++ filter (fun r => nmem t (dests r)) rs.
Proof.
  induction rs as [|r rs IH]; intros b t; cbn [load fold_left filter]; [now rewrite app_nil_r|].
  fold (load rs (add_rule b r)). rewrite IH. unfold add_rule.
  destruct (nmem t (dests r)); [now rewrite <- app_assoc|reflexivity].
Qed.

(* appendScopedRuleSet: per tag, src after dst *)
Definition merge (a b : buckets) : buckets := fun t => a t ++ b t.

Theorem merge_preserves_order rs1 rs2 t :
  merge (load rs1 empty) (load rs2 empty) t = load (rs1 ++ rs2) empty t.
Proof. unfold merge. rewrite !load_is_filter. cbn [empty app]. now rewrite filter_app. Qed.

(* ---------- the rule loop ---------- *)
Variable mdata : Type.
Variable M : rule -> N -> list (mdata * bool).    (* callbacks of MatchNode on a node, each with the filter's verdict *)

Definition accepted (r : rule) (n : N) : list (rule * mdata) := map (fun p => (r, fst p)) (filter snd (M r n)).

Definition last_verdict (l : list (mdata * bool)) : bool := match rev l with (_, v) :: _ => v | [] => false end.
Definition flag (l : list (mdata * bool)) : bool := if accumulates then existsb snd l else last_verdict l.

Fixpoint run_rules (rs : list rule) (n tag : N) : list (rule * mdata) :=
  match rs with
  | [] => []
  | r :: rs' => if flag (M r n) && negb (multi tag) then accepted r n else accepted r n ++ run_rules rs' n tag
  end.

(* specification, independent of buckets: all loaded rules in load order *)
Fixpoint spec_node (rs : list rule) (n tag : N) : list (rule * mdata) :=
  match rs with
  | [] => []
  | r :: rs' => match accepted r n with
                | [] => spec_node rs' n tag
                | acc => if multi tag then acc ++ spec_node rs' n tag else acc
                end
  end.

Lemma accepted_nil_iff r n : accepted r n = [] <-> existsb snd (M r n) = false.
Proof.
  unfold accepted. induction (M r n) as [|[m v] l IH]; cbn; [tauto|]. destruct v; cbn; [split; discriminate|exact IH].
Qed.

(* with an accumulating flag the loop is the specification on whatever list it is given *)
Lemma run_rules_spec rs n tag : accumulates = true -> run_rules rs n tag = spec_node rs n tag.
Proof.
  intros Hacc. induction rs as [|r rs IH]; [reflexivity|]. cbn [run_rules spec_node]. unfold flag. rewrite Hacc.
  destruct (accepted r n) as [|a l] eqn:Ea.
  - apply accepted_nil_iff in Ea. rewrite Ea. cbn [andb app]. exact IH.
  - assert (existsb snd (M r n) = true) as Hex.
    { destruct (existsb snd (M r n)) eqn:E; [reflexivity|]. apply accepted_nil_iff in E. congruence. }
    rewrite Hex. cbn [andb]. destruct (multi tag); cbn [negb]; [now rewrite IH|reflexivity].
Qed.

(* rules outside the bucket cannot match the node: skipping them changes nothing *)
Lemma spec_node_filter (P : rule -> bool) rs n tag :
  (forall r, In r rs -> P r = false -> M r n = []) ->
  spec_node (filter P rs) n tag = spec_node rs n tag.
Proof.
  induction rs as [|r rs IH]; intros H; [reflexivity|]. cbn [filter].
  destruct (P r) eqn:HP.
  - cbn [spec_node]. rewrite IH by (intros; apply H; [now right|assumption]). reflexivity.
  - cbn [spec_node]. unfold accepted at 1. rewrite (H r (or_introl eq_refl) HP). cbn [filter map].
    apply IH. intros; apply H; [now right|assumption].
Qed.

(* gogrep only calls back on nodes whose tag is one of [compat (root tag of the pattern)] *)
Variable compat : N -> list N.

Theorem dispatch_complete rs n tag :
  accumulates = true ->
  (forall r, In r rs -> forall t', In t' (compat (r_tag r)) -> loadable r = true -> In t' (dests r)) ->
  (forall r, In r rs -> loadable r = true) ->
  (forall r, In r rs -> M r n <> [] -> In tag (compat (r_tag r))) ->
  run_rules (load rs empty tag) n tag = spec_node rs n tag.
Proof.
  intros Hacc Hplace Hload Hcompat. rewrite run_rules_spec by assumption.
  rewrite load_is_filter. cbn [empty app]. apply spec_node_filter.
  intros r Hin HP. destruct (M r n) eqn:EM; [reflexivity|]. exfalso.
  assert (In tag (dests r)) as Hd.
  { apply Hplace; auto. apply Hcompat; [assumption|]. rewrite EM. discriminate. }
  apply nmem_In in Hd. congruence.
Qed.

(* no node is reported by a rule that did not accept it, and the winners are exactly the first accepting rule *)
Lemma spec_node_sound rs n tag r m : In (r, m) (spec_node rs n tag) -> In r rs /\ In (m, true) (M r n).
Proof.
  induction rs as [|r0 rs IH]; [intros []|]. cbn [spec_node]. destruct (accepted r0 n) as [|a l] eqn:Ea.
  - intros H. destruct (IH H). split; [now right|assumption].
  - rewrite <- Ea. intros H.
    assert (Hacc : In (r, m) (accepted r0 n) -> In r (r0 :: rs) /\ In (m, true) (M r n)).
    { unfold accepted. intros Hin. apply in_map_iff in Hin as ([m' v] & Heq & Hf). apply filter_In in Hf as [Hf Hv].
      cbn [fst snd] in *. inversion Heq; subst. split; [now left|assumption]. }
    destruct (multi tag); [|now apply Hacc].
    apply in_app_or in H as [H|H]; [now apply Hacc|]. destruct (IH H). split; [now right|assumption].
Qed.

Lemma spec_node_first rs n tag : multi tag = false ->
  spec_node rs n tag = match find (fun r => existsb snd (M r n)) rs with Some r => accepted r n | None => [] end.
Proof.
  intros Hm. induction rs as [|r rs IH]; [reflexivity|]. cbn [spec_node find]. rewrite Hm.
  destruct (accepted r n) as [|a l] eqn:Ea.
  - apply accepted_nil_iff in Ea. rewrite Ea. exact IH.
  - destruct (existsb snd (M r n)) eqn:E; [now rewrite Ea|]. apply accepted_nil_iff in E. congruence.
Qed.

(* a whole file: the walker offers (node, tag) pairs; each is dispatched through its bucket *)
Definition run_file (b : buckets) (offers : list (N * N)) : list (rule * mdata) :=
  flat_map (fun o => run_rules (b (snd o)) (fst o) (snd o)) offers.
Definition spec_file (rs : list rule) (offers : list (N * N)) : list (rule * mdata) :=
  flat_map (fun o => spec_node rs (fst o) (snd o)) offers.

Theorem run_file_spec rs offers :
  accumulates = true ->
  (forall r, In r rs -> forall t', In t' (compat (r_tag r)) -> loadable r = true -> In t' (dests r)) ->
  (forall r, In r rs -> loadable r = true) ->
  (forall r o, In r rs -> In o offers -> M r (fst o) <> [] -> In (snd o) (compat (r_tag r))) ->
  run_file (load rs empty) offers = spec_file rs offers.
Proof.
  intros Hacc Hplace Hload Hcompat. unfold run_file, spec_file.
  induction offers as [|o l IH]; [reflexivity|]. cbn [flat_map]. f_equal.
  - apply dispatch_complete; auto. intros r Hr. apply Hcompat; [assumption|now left].
  - apply IH. intros r o' Hr Ho. apply Hcompat; [assumption|now right].
Qed.
End Dispatch.

(* ---------- finite obligations over the generated placement table ---------- *)
(* every pattern tag is either rejected or placed, in range, in exactly the buckets of the node kinds
   gogrep can call back on *)
Definition sets_eqb (a b : list N) : bool := forallb (fun x => nmem x b) a && forallb (fun x => nmem x a) b.

Definition place_ok (place_err : list N) (place_fan : list (N * list N)) (nbuckets : N) (compat : N -> list N)
           (pattern_tags : list N) (must_reject : list N) : bool :=
  forallb (fun t => match place place_err place_fan t with
                    | None => nmem t must_reject
                    | Some ds => negb (nmem t must_reject) && forallb (fun d => N.ltb d nbuckets) ds && sets_eqb ds (compat t)
                    end) pattern_tags.

Lemma place_ok_dests place_err place_fan nbuckets compat tags rej :
  place_ok place_err place_fan nbuckets compat tags rej = true ->
  forall r, In (r_tag r) tags -> loadable place_err place_fan r = true ->
  (forall t', In t' (compat (r_tag r)) -> In t' (dests place_err place_fan r)) /\
  (forall d, In d (dests place_err place_fan r) -> (d < nbuckets)%N).
Proof.
  unfold place_ok, loadable, dests. rewrite forallb_forall. intros H r Hin Hl. specialize (H _ Hin).
  destruct (place place_err place_fan (r_tag r)) as [ds|]; [|discriminate].
  apply andb_prop in H as [H Hs]. apply andb_prop in H as [_ Hr]. unfold sets_eqb in Hs. apply andb_prop in Hs as [_ Hs].
  rewrite forallb_forall in Hs, Hr. split.
  - intros t' Ht. apply nmem_In. now apply Hs.
  - intros d Hd. apply N.ltb_lt. now apply Hr.
Qed.
