(* C01: rule buckets (loadSyntaxRule), merging of rule sets (appendScopedRuleSet) and the rule loop of runRules,
   against the specification "offer the node to all rules in load order; the first rule with an accepted match
   wins (all accepting rules for multi-match tags)".  gogrep and the filters are an oracle [M]. *)
From Coq Require Import List NArith Lia Bool Arith.
Import ListNotations.

Record rule := { r_id : N; r_tag : N }.      (* load position / identity, root tag of its pattern *)

Fixpoint nmem (x : N) (l : list N) : bool := match l with [] => false | y :: l' => N.eqb x y || nmem x l' end.
Lemma nmem_In x l : nmem x l = true <-> In x l.
Proof.
  induction l as [|y l IH]; cbn; [split; [discriminate|tauto]|].
  rewrite orb_true_iff, IH, N.eqb_eq. split; intros [H|H]; auto.
Qed.

Fixpoint nlookup {A} (l : list (N * A)) (k : N) : option A :=
  match l with [] => None | (k', a) :: l' => if N.eqb k' k then Some a else nlookup l' k end.

Section Dispatch.
(* generated tables *)
Variable place_err : list N.                  (* pattern tags rejected at load *)
Variable place_fan : list (N * list N).       (* explicit fan-out; any other tag goes to its own bucket *)
Variable multi : N -> bool.                   (* multiMatchTags *)
Variable accumulates : bool.                  (* runRules: flag = "some callback accepted" (true) / "the last one did" (false) *)

Definition place (t : N) : option (list N) :=
  if nmem t place_err then None
  else match nlookup place_fan t with Some ds => Some ds | None => Some [t] end.

Definition dests (r : rule) : list N := match place (r_tag r) with Some ds => ds | None => [] end.
Definition loadable (r : rule) : bool := match place (r_tag r) with Some _ => true | None => false end.

(* rulesByTag after loading rs in order: every rule is appended to each of its destination buckets *)
Definition buckets := N -> list rule.
Definition add_rule (b : buckets) (r : rule) : buckets :=
  fun t => if nmem t (dests r) then b t ++ [r] else b t.
Definition load (rs : list rule) (b : buckets) : buckets := fold_left add_rule rs b.
Definition empty : buckets := fun _ => [].

Lemma load_is_filter rs : forall b t, load rs b t = b t ++ filter (fun r => nmem t (dests r)) rs.
Proof.
  induction rs as [|r rs IH]; intros b t; cbn [load fold_left filter]; [now rewrite app_nil_r|].
  fold (load rs (add_rule b r)). rewrite IH. unfold add_rule.
  destruct (nmem t (dests r)); [now rewrite <- app_assoc|reflexivity].
Qed.

(* appendScopedRuleSet: per tag, src after dst *)
Definition merge (a b : buckets) : buckets := fun t => a t ++ b t.

Theorem merge_preserves_order rs1 rs2 t :
  merge (load rs1 empty) (load rs2 empty) t = load (rs1 ++ rs2) empty t.
Proof. unfold merge. rewrite !load_is_filter. cbn [empty app]. now rewrite filter_app. Qed.

(* ---------- the rule loop ---------- *)
Variable mdata : Type.
Variable M : rule -> N -> list (mdata * bool).    (* callbacks of MatchNode on a node, each with the filter's verdict *)

Definition accepted (r : rule) (n : N) : list (rule * mdata) := map (fun p => (r, fst p)) (filter snd (M r n)).

Definition last_verdict (l : list (mdata * bool)) : bool := match rev l with (_, v) :: _ => v | [] => false end.
Definition flag (l : list (mdata * bool)) : bool := if accumulates then existsb snd l else last_verdict l.

Fixpoint run_rules (rs : list rule) (n tag : N) : list (rule * mdata) :=
  match rs with
  | [] => []
  | r :: rs' => if flag (M r n) && negb (multi tag) then accepted r n else accepted r n ++ run_rules rs' n tag
  end.

(* specification, independent of buckets: all loaded rules in load order *)
Fixpoint spec_node (rs : list rule) (n tag : N) : list (rule * mdata) :=
  match rs with
  | [] => []
  | r :: rs' => match accepted r n with
                | [] => spec_node rs' n tag
                | acc => if multi tag then acc ++ spec_node rs' n tag else acc
                end
  end.

Lemma accepted_nil_iff r n : accepted r n = [] <-> existsb snd (M r n) = false.
Proof.
  unfold accepted. induction (M r n) as [|[m v] l IH]; cbn; [tauto|]. destruct v; cbn; [split; discriminate|exact IH].
Qed.

(* with an accumulating flag the loop is the specification on whatever list it is given *)
Lemma run_rules_spec rs n tag : accumulates = true -> run_rules rs n tag = spec_node rs n tag.
Proof.
  intros Hacc. induction rs as [|r rs IH]; [reflexivity|]. cbn [run_rules spec_node]. unfold flag. rewrite Hacc.
  destruct (accepted r n) as [|a l] eqn:Ea.
  - apply accepted_nil_iff in Ea. rewrite Ea. cbn [andb app]. exact IH.
  - assert (existsb snd (M r n) = true) as Hex.
    { destruct (existsb snd (M r n)) eqn:E; [reflexivity|]. apply accepted_nil_iff in E. congruence. }
    rewrite Hex. cbn [andb]. destruct (multi tag); cbn [negb]; [now rewrite IH|reflexivity].
Qed.

(* rules outside the bucket cannot match the node: skipping them changes nothing *)
Lemma spec_node_filter (P : rule -> bool) rs n tag :
  (forall r, In r rs -> P r = false -> M r n = []) ->
  spec_node (filter P rs) n tag = spec_node rs n tag.
Proof.
  induction rs as [|r rs IH]; intros H; [reflexivity|]. cbn [filter].
  destruct (P r) eqn:HP.
  - cbn [spec_node]. rewrite IH by (intros; apply H; [now right|assumption]). reflexivity.
  - cbn [spec_node]. unfold accepted at 1. rewrite (H r (or_introl eq_refl) HP). cbn [filter map].
    apply IH. intros; apply H; [now right|assumption].
Qed.

(* gogrep only calls back on nodes whose tag is one of [compat (root tag of the pattern)] *)
Variable compat : N -> list N.

Theorem dispatch_complete rs n tag :
  accumulates = true ->
  (forall r, In r rs -> forall t', In t' (compat (r_tag r)) -> loadable r = true -> In t' (dests r)) ->
  (forall r, In r rs -> loadable r = true) ->
  (forall r, In r rs -> M r n <> [] -> In tag (compat (r_tag r))) ->
  run_rules (load rs empty tag) n tag = spec_node rs n tag.
Proof.
  intros Hacc Hplace Hload Hcompat. rewrite run_rules_spec by assumption.
  rewrite load_is_filter. cbn [empty app]. apply spec_node_filter.
  intros r Hin HP. destruct (M r n) eqn:EM; [reflexivity|]. exfalso.
  assert (In tag (dests r)) as Hd.
  { apply Hplace; auto. apply Hcompat; [assumption|]. rewrite EM. discriminate. }
  apply nmem_In in Hd. congruence.
Qed.

(* no node is reported by a rule that did not accept it, and the winners are exactly the first accepting rule *)
Lemma spec_node_sound rs n tag r m : In (r, m) (spec_node rs n tag) -> In r rs /\ In (m, true) (M r n).
Proof.
  induction rs as [|r0 rs IH]; [intros []|]. cbn [spec_node]. destruct (accepted r0 n) as [|a l] eqn:Ea.
  - intros H. destruct (IH H). split; [now right|assumption].
  - rewrite <- Ea. intros H.
    assert (Hacc : In (r, m) (accepted r0 n) -> In r (r0 :: rs) /\ In (m, true) (M r n)).
    { unfold accepted. intros Hin. apply in_map_iff in Hin as ([m' v] & Heq & Hf). apply filter_In in Hf as [Hf Hv].
      cbn [fst snd] in *. inversion Heq; subst. split; [now left|assumption]. }
    destruct (multi tag); [|now apply Hacc].
    apply in_app_or in H as [H|H]; [now apply Hacc|]. destruct (IH H). split; [now right|assumption].
Qed.

Lemma spec_node_first rs n tag : multi tag = false ->
  spec_node rs n tag = match find (fun r => existsb snd (M r n)) rs with Some r => accepted r n | None => [] end.
Proof.
  intros Hm. induction rs as [|r rs IH]; [reflexivity|]. cbn [spec_node find]. rewrite Hm.
  destruct (accepted r n) as [|a l] eqn:Ea.
  - apply accepted_nil_iff in Ea. rewrite Ea. exact IH.
  - destruct (existsb snd (M r n)) eqn:E; [now rewrite Ea|]. apply accepted_nil_iff in E. congruence.
Qed.

(* a whole file: the walker offers (node, tag) pairs; each is dispatched through its bucket *)
Definition run_file (b : buckets) (offers : list (N * N)) : list (rule * mdata) :=
  flat_map (fun o => run_rules (b (snd o)) (fst o) (snd o)) offers.
Definition spec_file (rs : list rule) (offers : list (N * N)) : list (rule * mdata) :=
  flat_map (fun o => spec_node rs (fst o) (snd o)) offers.

Theorem run_file_spec rs offers :
  accumulates = true ->
  (forall r, In r rs -> forall t', In t' (compat (r_tag r)) -> loadable r = true -> In t' (dests r)) ->
  (forall r, In r rs -> loadable r = true) ->
  (forall r o, In r rs -> In o offers -> M r (fst o) <> [] -> In (snd o) (compat (r_tag r))) ->
  run_file (load rs empty) offers = spec_file rs offers.
Proof.
  intros Hacc Hplace Hload Hcompat. unfold run_file, spec_file.
  induction offers as [|o l IH]; [reflexivity|]. cbn [flat_map]. f_equal.
  - apply dispatch_complete; auto. intros r Hr. apply Hcompat; [assumption|now left].
  - apply IH. intros r o' Hr Ho. apply Hcompat; [assumption|now right].
Qed.
End Dispatch.

(* ---------- finite obligations over the generated placement table ---------- *)
(* every pattern tag is either rejected or placed, in range, in exactly the buckets of the node kinds
   gogrep can call back on *)
Definition sets_eqb (a b : list N) : bool := forallb (fun x => nmem x b) a && forallb (fun x => nmem x a) b.

Definition place_ok (place_err : list N) (place_fan : list (N * list N)) (nbuckets : N) (compat : N -> list N)
           (pattern_tags : list N) (must_reject : list N) : bool :=
  forallb (fun t => match place place_err place_fan t with
                    | None => nmem t must_reject
                    | Some ds => negb (nmem t must_reject) && forallb (fun d => N.ltb d nbuckets) ds && sets_eqb ds (compat t)
                    end) pattern_tags.

Lemma place_ok_dests place_err place_fan nbuckets compat tags rej :
  place_ok place_err place_fan nbuckets compat tags rej = true ->
  forall r, In (r_tag r) tags -> loadable place_err place_fan r = true ->
  (forall t', In t' (compat (r_tag r)) -> In t' (dests place_err place_fan r)) /\
  (forall d, In d (dests place_err place_fan r) -> (d < nbuckets)%N).
Proof.
  unfold place_ok, loadable, dests. rewrite forallb_forall. intros H r Hin Hl. specialize (H _ Hin).
  destruct (place place_err place_fan (r_tag r)) as [ds|]; [|discriminate].
  apply andb_prop in H as [H Hs]. apply andb_prop in H as [_ Hr]. unfold sets_eqb in Hs. apply andb_prop in Hs as [_ Hs].
  rewrite forallb_forall in Hs, Hr. split.
  - intros t' Ht. apply nmem_In. now apply Hs.
  - intros d Hd. apply N.ltb_lt. now apply Hr.
Qed.

(* ---------- rule sets with their bookkeeping (scopedGoRuleSet): buckets, the syntax-rule counter that gates the
   walk of a run, the comment rules; loading a file, merging (mergeRuleSets / appendScopedRuleSet), Engine.Load ---------- *)
Record rset := { rs_buckets : buckets; rs_cnum : N; rs_comments : list N }.

(* how appendScopedRuleSet maintains the counter of the destination *)
Inductive count_mode := CountPerBucket   (* dst += len(rules) for every bucket of src *)
                      | CountTotal       (* dst += src.categorizedNum *)
                      | CountLast.       (* dst = src.categorizedNum *)
Definition count_mode_ok (m : count_mode) : bool := match m with CountLast => false | _ => true end.
Inductive comment_mode := CommentsAppend | CommentsLast.

Fixpoint count_buckets (nb : nat) (b : buckets) : N :=
  match nb with O => 0%N | S k => (count_buckets k b + N.of_nat (length (b (N.of_nat k))))%N end.

Lemma count_buckets_zero nb b : count_buckets nb b = 0%N -> forall t, (t < N.of_nat nb)%N -> b t = [].
Proof.
  induction nb as [|k IH]; intros H t Ht; [lia|]. cbn [count_buckets] in H.
  assert (count_buckets k b = 0%N /\ length (b (N.of_nat k)) = O) as [H1 H2] by lia.
  destruct (N.eq_dec t (N.of_nat k)) as [->|Hne]; [now apply length_zero_iff_nil|]. apply IH; [assumption|lia].
Qed.

Section RuleSets.
Variable place_err : list N.
Variable place_fan : list (N * list N).
Variable cmode : count_mode.
Variable kmode : comment_mode.
Variable nb : nat.                            (* length of the bucket array *)

Local Notation dests := (dests place_err place_fan).
Local Notation load := (load place_err place_fan).

Definition empty_set : rset := {| rs_buckets := empty; rs_cnum := 0; rs_comments := [] |}.

(* loadSyntaxRule / loadCommentRule on a fresh set: one count per placed syntax rule *)
Definition load_set (rs : list rule) (crs : list N) : rset :=
  {| rs_buckets := load rs empty; rs_cnum := N.of_nat (length rs); rs_comments := crs |}.

Definition merge2 (dst src : rset) : rset :=
  {| rs_buckets := merge (rs_buckets dst) (rs_buckets src);
     rs_cnum := match cmode with
                | CountPerBucket => rs_cnum dst + count_buckets nb (rs_buckets src)
                | CountTotal => rs_cnum dst + rs_cnum src
                | CountLast => rs_cnum src
                end%N;
     rs_comments := match kmode with CommentsAppend => rs_comments dst ++ rs_comments src | CommentsLast => rs_comments src end |}.

(* mergeRuleSets: into a fresh empty set, in argument order *)
Definition merge_all (sets : list rset) : rset := fold_left merge2 sets empty_set.

(* the walk of a run happens only if the counter is not zero *)
Definition gate_ok (s : rset) : Prop := rs_cnum s = 0%N -> forall t, (t < N.of_nat nb)%N -> rs_buckets s t = [].
(* s holds exactly the syntax rules rs (in load order, per bucket) and the comment rules crs *)
Definition repr (s : rset) (rs : list rule) (crs : list N) : Prop :=
  (forall t, rs_buckets s t = load rs empty t) /\ rs_comments s = crs.

(* every rule set an engine can hold: loaded from a file, or merged from such sets (several Load calls, bundle imports,
   bundles of bundles) *)
Inductive built : rset -> list rule -> list N -> Prop :=
| built_empty : built empty_set [] []
| built_load rs crs : built (load_set rs crs) rs crs
| built_merge a ra ca b rb cb : built a ra ca -> built b rb cb -> built (merge2 a b) (ra ++ rb) (ca ++ cb).

Lemma load_app rs1 rs2 t : load (rs1 ++ rs2) empty t = load rs1 empty t ++ load rs2 empty t.
Proof. rewrite !load_is_filter. cbn [empty app]. apply filter_app. Qed.

Theorem built_ok s rs crs : count_mode_ok cmode = true -> kmode = CommentsAppend -> built s rs crs -> gate_ok s /\ repr s rs crs.
Proof.
  intros Hc Hk Hb. induction Hb as [|rs crs|a ra ca b rb cb Ha [Ga [Ra Ca]] Hb' [Gb [Rb Cb]]].
  - split; [intros _ t _; reflexivity|split; reflexivity].
  - split; [|split; reflexivity]. intros H t _. cbn [load_set rs_cnum rs_buckets] in *.
    destruct rs; [reflexivity|cbn [length] in H; lia].
  - split; [|split].
    + intros H t Ht. cbn [merge2 rs_cnum rs_buckets] in *. unfold merge.
      destruct cmode; [| |discriminate].
      * assert (rs_cnum a = 0%N /\ count_buckets nb (rs_buckets b) = 0%N) as [H1 H2] by lia.
        rewrite (Ga H1 t Ht), (count_buckets_zero _ _ H2 t Ht). reflexivity.
      * assert (rs_cnum a = 0%N /\ rs_cnum b = 0%N) as [H1 H2] by lia. now rewrite (Ga H1 t Ht), (Gb H2 t Ht).
    + intros t. cbn [merge2 rs_buckets]. unfold merge. now rewrite Ra, Rb, load_app.
    + cbn [merge2 rs_comments]. now rewrite Hk, Ca, Cb.
Qed.

Lemma merge_all_built : forall sets acc racc cacc rss css,
  built acc racc cacc -> Forall2 (fun s p => built s (fst p) (snd p)) sets (combine rss css) -> length rss = length css ->
  built (fold_left merge2 sets acc) (racc ++ concat rss) (cacc ++ concat css).
Proof.
  induction sets as [|s sets IH]; intros acc racc cacc rss css Hacc HF Hlen.
  - inversion HF as [Hc|]. destruct rss, css; try discriminate. cbn. now rewrite !app_nil_r.
  - destruct rss as [|r rss], css as [|c css]; try discriminate; inversion HF; subst.
    cbn [fold_left concat]. rewrite !app_assoc. apply IH; [|assumption|cbn in Hlen; lia].
    now apply built_merge.
Qed.

(* ---- the executable load history (one level of bundle imports), for the correspondence runs ---- *)
(* LoadFile: the file's own groups, then -- if it imports bundles -- mergeRuleSets (own :: sets of the bundle files) *)
Definition file_set (own : list rule) (cown : list N) (imported : list (list rule * list N)) : rset :=
  match imported with
  | [] => load_set own cown
  | _ => merge_all (load_set own cown :: map (fun p => load_set (fst p) (snd p)) imported)
  end.
(* Engine.Load: the first file's set is taken as it is, every further one is merged after the present one *)
Definition engine_load (e : option rset) (fs : rset) : option rset :=
  match e with None => Some fs | Some s => Some (merge_all [s; fs]) end.

Definition file_desc := (list rule * list N * list (list rule * list N))%type.
Definition file_rules (f : file_desc) : list rule := fst (fst f) ++ concat (map fst (snd f)).
Definition file_comments (f : file_desc) : list N := snd (fst f) ++ concat (map snd (snd f)).
Definition engine_of (files : list file_desc) : option rset :=
  fold_left (fun e f => engine_load e (file_set (fst (fst f)) (snd (fst f)) (snd f))) files None.

Lemma file_set_built f : built (file_set (fst (fst f)) (snd (fst f)) (snd f)) (file_rules f) (file_comments f).
Proof.
  destruct f as [[own cown] imported]. unfold file_set, file_rules, file_comments. cbn [fst snd].
  destruct imported as [|i imported]; [cbn; rewrite !app_nil_r; apply built_load|].
  unfold merge_all. cbn [fold_left]. set (l := i :: imported).
  change (built (fold_left merge2 (map (fun p => load_set (fst p) (snd p)) l) (merge2 empty_set (load_set own cown)))
                (own ++ concat (map fst l)) (cown ++ concat (map snd l))).
  apply merge_all_built.
  - apply (built_merge empty_set [] [] (load_set own cown) own cown); [apply built_empty|apply built_load].
  - clearbody l. clear. induction l as [|p l IH]; cbn; constructor; [apply built_load|exact IH].
  - now rewrite !map_length.
Qed.

Lemma engine_fold_built files : forall s re ce, built s re ce ->
  exists s', fold_left (fun e f => engine_load e (file_set (fst (fst f)) (snd (fst f)) (snd f))) files (Some s) = Some s' /\
             built s' (re ++ concat (map file_rules files)) (ce ++ concat (map file_comments files)).
Proof.
  induction files as [|f files IH]; intros s re ce Hs.
  - exists s. cbn. now rewrite !app_nil_r.
  - cbn [fold_left map concat engine_load]. rewrite !app_assoc. apply IH.
    unfold merge_all. cbn [fold_left]. apply built_merge; [|apply file_set_built].
    apply (built_merge empty_set [] [] s re ce); [apply built_empty|assumption].
Qed.

(* whatever the sequence of Load calls: the engine's rule set is a built one, holding the files' rules in load order *)
Theorem engine_of_built f files :
  exists s, engine_of (f :: files) = Some s /\
            built s (concat (map file_rules (f :: files))) (concat (map file_comments (f :: files))).
Proof.
  unfold engine_of. cbn [fold_left engine_load map concat]. apply engine_fold_built. apply file_set_built.
Qed.

(* ---- a run over a rule set: the walk is skipped when the counter is zero ---- *)
Variable multi : N -> bool.
Variable accumulates : bool.
Variable mdata : Type.
Variable M : rule -> N -> list (mdata * bool).
Variable compat : N -> list N.
Variable gated : bool.                        (* rulesRunner.run walks the file only if the counter is not zero *)

Definition run_set (s : rset) (offers : list (N * N)) : list (rule * mdata) :=
  if gated && N.eqb (rs_cnum s) 0 then [] else run_file multi accumulates mdata M (rs_buckets s) offers.

Lemma run_file_ext b1 b2 offers : (forall o, In o offers -> b1 (snd o) = b2 (snd o)) ->
  run_file multi accumulates mdata M b1 offers = run_file multi accumulates mdata M b2 offers.
Proof.
  induction offers as [|o l IH]; intros H; [reflexivity|]. unfold run_file in *. cbn [flat_map].
  rewrite (H o (or_introl eq_refl)). f_equal. apply IH. intros; apply H; now right.
Qed.

Theorem run_set_spec s rs crs offers :
  gate_ok s -> repr s rs crs ->
  (forall o, In o offers -> (snd o < N.of_nat nb)%N) ->
  accumulates = true ->
  (forall r, In r rs -> forall t', In t' (compat (r_tag r)) -> loadable place_err place_fan r = true -> In t' (dests r)) ->
  (forall r, In r rs -> loadable place_err place_fan r = true) ->
  (forall r o, In r rs -> In o offers -> M r (fst o) <> [] -> In (snd o) (compat (r_tag r))) ->
  run_set s offers = spec_file multi mdata M rs offers.
Proof.
  intros Hg [Hr _] Hoff Hacc Hplace Hload Hcompat.
  rewrite <- (run_file_spec place_err place_fan multi accumulates mdata M compat rs offers Hacc Hplace Hload Hcompat).
  unfold run_set. destruct (gated && N.eqb (rs_cnum s) 0) eqn:E.
  - apply andb_prop in E as [_ E]. apply N.eqb_eq in E. rewrite (run_file_ext (load rs empty) (fun _ => [])).
    + clear. induction offers as [|o l IH]; [reflexivity|]. unfold run_file in *. cbn [flat_map run_rules app]. exact IH.
    + intros o Ho. rewrite <- Hr. apply Hg; [assumption|]. now apply Hoff.
  - apply run_file_ext. intros o _. apply Hr.
Qed.
End RuleSets.

(* a merge that keeps only the last set's counter skips the walk although rules are loaded *)
Lemma count_last_refuted :
  let a := load_set [] [] [ {| r_id := 0; r_tag := 5 |} ] [] in
  let b := load_set [] [] [] [7%N] in
  let s := merge2 CountLast CommentsAppend 49 a b in
  rs_cnum s = 0%N /\ rs_buckets s 5%N <> [].
Proof. split; [reflexivity|discriminate]. Qed.
