(* C09: what a re-used RunnerState can carry into the next run (as far as the walker / dispatch model reads it),
   how the start of a run treats it, and history independence. *)
From Coq Require Import List NArith Bool Arith.
From RG.Ast Require Import Tree Walker.
Import ListNotations.

Record carried := { c_dead : bool; c_func : option N; c_stack : list N }.

(* read off newRulesRunner / RunnerState.Reset by go2coq *)
Record init_policy := {
  ip_fresh_filter_params : bool;   (* filterParams is a fresh literal that leaves deadcode / currentFunc at their zero value *)
  ip_reset_node_path : bool        (* a re-used state has its node path truncated before the run *)
}.

Definition st0 : wst := {| w_dead := false; w_func := None; w_stack := [] |}.

Definition start_state (p : init_policy) (prior : option carried) : wst :=
  match prior with
  | None => st0                                      (* nil State: newRunnerState *)
  | Some c => {| w_dead := if ip_fresh_filter_params p then false else c_dead c;
                 w_func := if ip_fresh_filter_params p then None else c_func c;
                 w_stack := if ip_reset_node_path p then [] else c_stack c |}
  end.

Definition policy_ok (p : init_policy) : bool := ip_fresh_filter_params p && ip_reset_node_path p.

Theorem start_state_ignores_prior p : policy_ok p = true -> forall prior, start_state p prior = st0.
Proof.
  unfold policy_ok. intros H prior. apply andb_prop in H as [H1 H2]. destruct prior as [c|]; [|reflexivity].
  unfold start_state. now rewrite H1, H2.
Qed.

(* without the reset the start state does depend on the history *)
Lemma start_state_leaks : start_state {| ip_fresh_filter_params := false; ip_reset_node_path := true |}
                            (Some {| c_dead := true; c_func := None; c_stack := [] |}) <> st0.
Proof. discriminate. Qed.

Section History.
Variable p : init_policy.
Variables input reports : Type.
Variable run_from : wst -> input -> reports.      (* a run is a function of its start context and its inputs *)
Variable leftover : wst -> input -> carried.      (* whatever it leaves behind (normal return or panic): unconstrained *)

Fixpoint run_history (prior : option carried) (h : list input) : list reports :=
  match h with
  | [] => []
  | x :: h' => run_from (start_state p prior) x :: run_history (Some (leftover (start_state p prior) x)) h'
  end.

(* every call of every history reports what the same call reports on a fresh state *)
Theorem history_independent : policy_ok p = true ->
  forall prior h, run_history prior h = map (run_from (start_state p None)) h.
Proof.
  intros Hp prior h. revert prior. induction h as [|x h IH]; intros prior; [reflexivity|].
  cbn [run_history map]. rewrite IH. rewrite !start_state_ignores_prior by assumption. reflexivity.
Qed.
End History.

Fixpoint str_mem (s : String.string) (l : list String.string) : bool :=
  match l with [] => false | x :: l' => String.eqb x s || str_mem s l' end.
Fixpoint strs_eqb (a b : list String.string) : bool :=
  match a, b with [] , [] => true | x :: a', y :: b' => String.eqb x y && strs_eqb a' b' | _, _ => false end.
