(* C09: what a re-used RunnerState can carry into the next run (as far as the walker / dispatch model reads it),
   how the start of a run treats it, and history independence. *)
From Coq Require Import List NArith Bool Arith String.
From RG.Ast Require Import Tree Walker.
Import ListNotations.

Record carried := { c_dead : bool; c_func : option N; c_stack : list N }.

(* read off newRulesRunner / RunnerState.Reset by go2coq *)
Record init_policy := {
  ip_fresh_filter_params : bool;   (* filterParams is a fresh literal that leaves deadcode / currentFunc at their zero value *)
  ip_reset_node_path : bool        (* a re-used state has its node path truncated before the run *)
}.

Definition st0 : wst := {| w_dead := false; w_func := None; w_stack := [] |}.

Definition start_state (p : init_policy) (prior : option carried) : wst :=
  match prior with
  | None => st0                                      (* nil State: newRunnerState *)
  | Some c => {| w_dead := if ip_fresh_filter_params p then false else c_dead c;
                 w_func := if ip_fresh_filter_params p then None else c_func c;
                 w_stack := if ip_reset_node_path p then [] else c_stack c |}
  end.

Definition policy_ok (p : init_policy) : bool := ip_fresh_filter_params p && ip_reset_node_path p.

Theorem start_state_ignores_prior p : policy_ok p = true -> forall prior, start_state p prior = st0.
Proof.
  unfold policy_ok. intros H prior. apply andb_prop in H as [H1 H2]. destruct prior as [c|]; [|reflexivity].
  unfold start_state. now rewrite H1, H2.
Qed.

(* without the reset the start state does depend on the history *)
Lemma start_state_leaks : start_state {| ip_fresh_filter_params := false; ip_reset_node_path := true |}
                            (Some {| c_dead := true; c_func := None; c_stack := [] |}) <> st0.
Proof. discriminate. Qed.

Section History.
Variable p : init_policy.
Variables input reports : Type.
Variable run_from : wst -> input -> reports.      (* a run is a function of its start context and its inputs *)
Variable leftover : wst -> input -> carried.      (* whatever it leaves behind (normal return or panic): unconstrained *)

Fixpoint run_history (prior : option carried) (h : list input) : list reports :=
  match h with
  | [] => []
  | x :: h' => run_from (start_state p prior) x :: run_history (Some (leftover (start_state p prior) x)) h'
  end.

(* every call of every history reports what the same call reports on a fresh state *)
Theorem history_independent : policy_ok p = true ->
  forall prior h, run_history prior h = map (run_from (start_state p None)) h.
Proof.
  intros Hp prior h. revert prior. induction h as [|x h IH]; intros prior; [reflexivity|].
  cbn [run_history map]. rewrite IH. rewrite !start_state_ignores_prior by assumption. reflexivity.
Qed.
End History.

Fixpoint str_mem (s : String.string) (l : list String.string) : bool :=
  match l with [] => false | x :: l' => String.eqb x s || str_mem s l' end.
Fixpoint strs_eqb (a b : list String.string) : bool :=
  match a, b with [] , [] => true | x :: a', y :: b' => String.eqb x y && strs_eqb a' b' | _, _ => false end.

(* ---------- registers carried in the state that an evaluation reads ----------
   (the capture preset of the Contains() sub-matcher, the variadic-length register of the bytecode operand stack):
   what matters is whether the evaluation stores its OWN value before it reads the register. *)
Inductive write_policy := WriteAlways | WriteSometimes | WriteNever.

Definition policy_of_string (s : String.string) : option write_policy :=
  if String.eqb s "always"%string then Some WriteAlways
  else if String.eqb s "sometimes"%string then Some WriteSometimes
  else if String.eqb s "never"%string then Some WriteNever else None.

Section Register.
Variable A : Type.
Variable pol : write_policy.
(* one evaluation: its own value (the captures of the current match / the number of variadic arguments at the call
   site) and whether a conditional store fires for it; [v] is what the register holds when the evaluation starts *)
Definition reg_read (v own : A) (fires : bool) : A :=
  match pol with WriteAlways => own | WriteSometimes => if fires then own else v | WriteNever => v end.
(* stores are the only writes: after the evaluation the register holds what the evaluation read *)
Fixpoint reg_history (v : A) (h : list (A * bool)) : list A :=
  match h with
  | [] => []
  | (own, f) :: h' => reg_read v own f :: reg_history (reg_read v own f) h'
  end.

(* every evaluation of every sequence (other rules, other nodes, other files, earlier runs on the same state, any
   left-over) reads its own value *)
Theorem reg_history_independent : pol = WriteAlways -> forall v h, reg_history v h = map fst h.
Proof.
  intros Hp v h. revert v. induction h as [|[own f] h IH]; intros v; [reflexivity|].
  cbn [reg_history map fst]. rewrite IH. unfold reg_read. now rewrite Hp.
Qed.
End Register.

(* a store that is skipped for some evaluations makes them read what an unrelated evaluation left *)
Lemma reg_sometimes_leaks :
  reg_history N WriteSometimes 0%N [(2%N, true); (1%N, false)] = [2%N; 2%N] /\
  reg_history N WriteSometimes 7%N [(1%N, false)] <> reg_history N WriteSometimes 0%N [(1%N, false)].
Proof. split; [reflexivity|discriminate]. Qed.
Lemma reg_never_leaks : reg_history N WriteNever 7%N [(1%N, true)] = [7%N].
Proof. reflexivity. Qed.

(* ---------- accumulators: a list that is only ever appended to (the captures of a comment-rule match) ----------
   declared per iteration of the loop over the rules, or once for the whole loop.  Each rule appends its own captures and
   then looks captures up by name, first hit wins: what it sees must be its own list. *)
Inductive acc_scope := ScopeIteration | ScopeLoop.

Fixpoint acc_history {A} (scope : acc_scope) (acc : list A) (h : list (list A)) : list (list A) :=
  match h with
  | [] => []
  | own :: h' => let seen := match scope with ScopeIteration => own | ScopeLoop => acc ++ own end in
                 seen :: acc_history scope seen h'
  end.

Theorem acc_iteration_own {A} : forall (acc : list A) h, acc_history ScopeIteration acc h = h.
Proof. intros acc h. revert acc. induction h as [|own h IH]; intros acc; [reflexivity|]. cbn [acc_history]. now rewrite IH. Qed.

(* one object for the whole loop: a later rule finds the capture of an earlier, rejected rule under the same name *)
Lemma acc_loop_leaks :
  acc_history ScopeLoop [] [[("who", 1%N)]; [("who", 2%N)]]%string = [[("who", 1%N)]; [("who", 1%N); ("who", 2%N)]]%string.
Proof. reflexivity. Qed.
