(* The walker of ruleguard/ast_walker.go as an interpreter of per-kind action lists (which go2coq
   regenerates from the source), the abstract run of one action list and the finite per-kind check. *)
From Coq Require Import List NArith Lia Bool Arith.
From RG.Ast Require Import Tree.
Import ListNotations.

(* ---------- action language ---------- *)
(* boolean expressions over: the case's local copy of the flag, the shared dead-code flag,
   "Types[n.Cond].Value != nil", "constant.BoolVal(that value)" *)
Inductive bexp := BTrue | BFalse | BLocal | BDead | BNot (b : bexp) | BAnd (a b : bexp) | BOr (a b : bexp)
                | BCondKnown | BCondTrue.

Inductive act :=
| AVisit (t : N)                 (* w.visit(n, nodetag.T) *)
| AWalk (f : N)                  (* w.walk(n.F) / nil-guarded / walkXList(n.F) / range-walk: every child under field F, in order *)
| ALetLocal (b : bexp)           (* deadcode := <b> *)
| ASetDead (b : bexp)            (* w.filterParams.deadcode = <b> *)
| ASaveFunc                      (* prevFunc := w.filterParams.currentFunc *)
| ASetFuncSelf                   (* w.filterParams.currentFunc = n *)
| ARestoreFunc                   (* w.filterParams.currentFunc = prevFunc *)
| AIf (b : bexp) (th el : list act)
| AReturn.

(* how walk() brackets the switch: Push + defer Pop, Push + Pop after the switch, or nothing *)
Inductive frame := FrameDeferPop | FramePlainPop | FrameNone.

Fixpoint beval (cond : option bool) (d l : bool) (b : bexp) : bool :=
  match b with
  | BTrue => true | BFalse => false
  | BLocal => l | BDead => d
  | BNot b => negb (beval cond d l b)
  | BAnd a b => beval cond d l a && beval cond d l b
  | BOr a b => beval cond d l a || beval cond d l b
  | BCondKnown => match cond with Some _ => true | None => false end
  | BCondTrue => match cond with Some v => v | None => false end
  end.

(* ---------- one case body ---------- *)
(* polymorphic in the accumulator T (event list + node path for the real walk, a trace for the abstract
   run) and in the representation F of "current function" values (never inspected, only copied) *)
Section Exec.
Context {T F : Type}.

Record xs := { x_d : bool; x_f : F; x_l : bool; x_p : F; x_t : T }.

Inductive wres := WOk (d : bool) (f : F) (t : T) | WPanic (t : T) | WFuel.
Inductive xres := XOk (x : xs) (returned : bool) | XPanic (t : T) | XFuel.

Variable vis : N -> bool -> F -> T -> T * bool.      (* tag, dead flag, current func; true = the callback panicked *)
Variable wfld : N -> bool -> F -> T -> wres.         (* field *)
Variable cond : option bool.
Variable self : F.

Fixpoint exec (af : nat) (acts : list act) (x : xs) : xres :=
  match af with O => XFuel | S af' =>
  match acts with
  | [] => XOk x false
  | a :: rest =>
    match a with
    | AVisit t =>
        let (t', p) := vis t (x_d x) (x_f x) (x_t x) in
        if p then XPanic t'
        else exec af' rest {| x_d := x_d x; x_f := x_f x; x_l := x_l x; x_p := x_p x; x_t := t' |}
    | AWalk f =>
        match wfld f (x_d x) (x_f x) (x_t x) with
        | WOk d' f' t' => exec af' rest {| x_d := d'; x_f := f'; x_l := x_l x; x_p := x_p x; x_t := t' |}
        | WPanic t' => XPanic t'
        | WFuel => XFuel
        end
    | ALetLocal b =>
        exec af' rest {| x_d := x_d x; x_f := x_f x; x_l := beval cond (x_d x) (x_l x) b; x_p := x_p x; x_t := x_t x |}
    | ASetDead b =>
        exec af' rest {| x_d := beval cond (x_d x) (x_l x) b; x_f := x_f x; x_l := x_l x; x_p := x_p x; x_t := x_t x |}
    | ASaveFunc =>
        exec af' rest {| x_d := x_d x; x_f := x_f x; x_l := x_l x; x_p := x_f x; x_t := x_t x |}
    | ASetFuncSelf =>
        exec af' rest {| x_d := x_d x; x_f := self; x_l := x_l x; x_p := x_p x; x_t := x_t x |}
    | ARestoreFunc =>
        exec af' rest {| x_d := x_d x; x_f := x_p x; x_l := x_l x; x_p := x_p x; x_t := x_t x |}
    | AIf b th el =>
        match exec af' (if beval cond (x_d x) (x_l x) b then th else el) x with
        | XOk x' true => XOk x' true
        | XOk x' false => exec af' rest x'
        | XPanic t' => XPanic t'
        | XFuel => XFuel
        end
    | AReturn => XOk x true
    end end end.
End Exec.
Arguments xs : clear implicits.
Arguments wres : clear implicits.
Arguments xres : clear implicits.

(* ---------- the real walk ---------- *)
(* one visit: node id, tag, dead-code flag, current function (id of the FuncDecl), node path incl. the node *)
Record ev := { e_id : N; e_tag : N; e_dead : bool; e_func : option N; e_path : list N }.

Record wst := { w_dead : bool; w_func : option N; w_stack : list N }.

(* ROk: normal return; RPanic: a visit callback panicked (state after unwinding: only the stack is meaningful) *)
Inductive rres := ROk (st : wst) (E : list ev) | RPanic (stk : list N) (E : list ev) | RFuel.

Definition push (fr : frame) (i : N) (stk : list N) : list N :=
  match fr with FrameNone => stk | _ => stk ++ [i] end.

(* nodePath.Pop is stack[:len-1]: a slice-bounds panic on the empty stack (modelled as RFuel = "no result") *)
Definition pop1 (stk : list N) : option (list N) :=
  match stk with [] => None | _ => Some (removelast stk) end.

Definition pop_normal (fr : frame) (returned : bool) (stk : list N) : option (list N) :=
  match fr with
  | FrameDeferPop => pop1 stk
  | FramePlainPop => if returned then Some stk else pop1 stk
  | FrameNone => Some stk
  end.
Definition pop_panic (fr : frame) (stk : list N) : option (list N) :=
  match fr with FrameDeferPop => pop1 stk | _ => Some stk end.

Section Walk.
Variable AF : nat.
Variable fr : frame.
Variable table : N -> list act.
Variable panics : ev -> bool.       (* which visits make the user's Report callback panic *)

Definition acc := (list N * list ev)%type.

Definition visit_ev (i : N) (t : N) (d : bool) (cf : option N) (a : acc) : acc * bool :=
  let e := {| e_id := i; e_tag := t; e_dead := d; e_func := cf; e_path := fst a |} in
  ((fst a, snd a ++ [e]), panics e).

Fixpoint walk (fuel : nat) (n : node) (st : wst) (E : list ev) : rres :=
  match fuel with O => RFuel | S fuel' =>
    let fix walk_list (l : list (N * node)) (f : N) (d : bool) (cf : option N) (a : acc) : wres acc (option N) :=
        match l with
        | [] => WOk d cf a
        | (g, c) :: l' =>
            if N.eqb g f
            then match walk fuel' c {| w_dead := d; w_func := cf; w_stack := fst a |} (snd a) with
                 | ROk st' E' => walk_list l' f (w_dead st') (w_func st') (w_stack st', E')
                 | RPanic stk' E' => WPanic (stk', E')
                 | RFuel => WFuel
                 end
            else walk_list l' f d cf a
        end in
    match exec (visit_ev (nid n)) (fun f d cf a => walk_list (children n) f d cf a) (ncond n) (Some (nid n))
               AF (table (kind n))
               {| x_d := w_dead st; x_f := w_func st; x_l := false; x_p := None;
                  x_t := (push fr (nid n) (w_stack st), E) |} with
    | XOk x returned =>
        match pop_normal fr returned (fst (x_t x)) with
        | Some stk' => ROk {| w_dead := x_d x; w_func := x_f x; w_stack := stk' |} (snd (x_t x))
        | None => RFuel
        end
    | XPanic a =>
        match pop_panic fr (fst a) with
        | Some stk' => RPanic stk' (snd a)
        | None => RFuel
        end
    | XFuel => RFuel
    end
  end.
End Walk.

(* ---------- abstract run of one action list and the finite per-kind check ---------- *)
(* abstract "current function" values: the one in force on entry, the node itself, nil *)
Inductive afunc := FInit | FSelf | FNil.
Inductive titem := TVisit (t : N) (d : bool) (f : afunc) | TWalk (f : N) (d : bool) (cf : afunc).

Definition afunc_eqb (a b : afunc) : bool :=
  match a, b with FInit, FInit | FSelf, FSelf | FNil, FNil => true | _, _ => false end.
Lemma afunc_eqb_eq a b : afunc_eqb a b = true -> a = b.
Proof. destruct a, b; cbn; congruence. Qed.

Definition titem_eqb (a b : titem) : bool :=
  match a, b with
  | TVisit t d f, TVisit t' d' f' => N.eqb t t' && Bool.eqb d d' && afunc_eqb f f'
  | TWalk g d f, TWalk g' d' f' => N.eqb g g' && Bool.eqb d d' && afunc_eqb f f'
  | _, _ => false
  end.
Fixpoint tr_eqb (a b : list titem) : bool :=
  match a, b with [], [] => true | x :: a', y :: b' => titem_eqb x y && tr_eqb a' b' | _, _ => false end.

Lemma titem_eqb_eq a b : titem_eqb a b = true -> a = b.
Proof.
  destruct a, b; cbn; try discriminate; intros H;
  apply andb_prop in H as [H H3]; apply andb_prop in H as [H1 H2];
  apply N.eqb_eq in H1; apply Bool.eqb_prop in H2; apply afunc_eqb_eq in H3; now subst.
Qed.
Lemma tr_eqb_eq a : forall b, tr_eqb a b = true -> a = b.
Proof.
  induction a as [|x a IH]; destruct b as [|y b]; cbn; try discriminate; auto.
  intros H. apply andb_prop in H as [H1 H2]. apply titem_eqb_eq in H1. apply IH in H2. now subst.
Qed.

(* specification side, per kind: optional tag; child fields in ast.Walk order, each marked inert when it can only
   hold untagged nodes (comments); the dead flag each child field runs under; whether the node becomes the
   current function of its children *)
Record kspec := { ktag : option N; kfields : list (N * bool); kdead : option bool -> N -> bool -> bool; ksetf : bool }.

Definition inert_in (s : kspec) (f : N) : bool :=
  existsb (fun p => N.eqb (fst p) f && snd p) (kfields s).

Definition keep (s : kspec) (it : titem) : bool :=
  match it with TVisit _ _ _ => true | TWalk f _ _ => negb (inert_in s f) end.

Definition live_fields (s : kspec) : list N := map fst (filter (fun p => negb (snd p)) (kfields s)).

Definition expected (s : kspec) (cond : option bool) (d : bool) : list titem :=
  (match ktag s with Some t => [TVisit t d FInit] | None => [] end) ++
  map (fun f => TWalk f (kdead s cond f d) (if ksetf s then FSelf else FInit)) (live_fields s).

Definition configs : list (option bool * bool) :=
  [(None, false); (None, true); (Some false, false); (Some false, true); (Some true, false); (Some true, true)].

Section Abs.
Variable AF : nat.

Definition abs_run (acts : list act) (cond : option bool) (d : bool) : xres (list titem) afunc :=
  exec (fun t d f tr => (tr ++ [TVisit t d f], false)) (fun g d f tr => WOk d f (tr ++ [TWalk g d f])) cond FSelf
       AF acts {| x_d := d; x_f := FInit; x_l := false; x_p := FNil; x_t := [] |}.

Definition frame_ok (fr : frame) (returned : bool) : bool :=
  match fr with FrameDeferPop => true | FramePlainPop => negb returned | FrameNone => false end.

(* runs the action list in all six configurations (constant-ness/value of the condition x shared flag) *)
Definition kind_ok (fr : frame) (acts : list act) (s : kspec) : bool :=
  forallb (fun cfg => match abs_run acts (fst cfg) (snd cfg) with
                      | XOk x r => Bool.eqb (x_d x) (snd cfg) && afunc_eqb (x_f x) FInit && frame_ok fr r &&
                                   tr_eqb (filter (keep s) (x_t x)) (expected s (fst cfg) (snd cfg))
                      | _ => false end) configs.

Lemma kind_ok_spec fr acts s : kind_ok fr acts s = true ->
  forall cond d, exists x r, abs_run acts cond d = XOk x r /\ x_d x = d /\ x_f x = FInit /\ frame_ok fr r = true /\
                             filter (keep s) (x_t x) = expected s cond d.
Proof.
  unfold kind_ok. rewrite forallb_forall. intros H cond d.
  assert (In (cond, d) configs) as Hin by (destruct cond as [[|]|], d; cbn; tauto).
  specialize (H _ Hin). cbn [fst snd] in H.
  destruct (abs_run acts cond d) as [x r| |]; try discriminate.
  apply andb_prop in H as [H H4]. apply andb_prop in H as [H H3]. apply andb_prop in H as [H1 H2].
  apply Bool.eqb_prop in H1. apply afunc_eqb_eq in H2. apply tr_eqb_eq in H4. exists x, r. auto.
Qed.
End Abs.
