(* Generic AST: a rose tree whose children are tagged with the field they live in and stored in
   ast.Walk order.  An optional field that is nil contributes no child, a list field one child per
   element.  kind / field / tag are N indices into generated name tables.  [cond] is the one fact the
   walker reads from types.Info: the constant value of the node's Cond child (IfStmt), if any. *)
From Coq Require Import List NArith Lia Bool Arith.
Import ListNotations.

Inductive node := Node (k : N) (id : N) (cond : option bool) (ch : list (N * node)).

Definition kind n := match n with Node k _ _ _ => k end.
Definition nid n := match n with Node _ i _ _ => i end.
Definition ncond n := match n with Node _ _ c _ => c end.
Definition children n := match n with Node _ _ _ ch => ch end.

Fixpoint height (n : node) : nat :=
  match n with Node _ _ _ ch =>
    S ((fix hs (l : list (N * node)) := match l with [] => O | (_, c) :: l' => Nat.max (height c) (hs l') end) ch)
  end.
Definition heights (l : list (N * node)) : nat :=
  (fix hs (l : list (N * node)) := match l with [] => O | (_, c) :: l' => Nat.max (height c) (hs l') end) l.
Lemma height_eq k i c ch : height (Node k i c ch) = S (heights ch).
Proof. reflexivity. Qed.
Lemma heights_cons f x l : heights ((f, x) :: l) = Nat.max (height x) (heights l).
Proof. reflexivity. Qed.

(* induction principle that reaches through the child list *)
Section NodeInd.
Variable P : node -> Prop.
Hypothesis H : forall k i c ch, Forall (fun p => P (snd p)) ch -> P (Node k i c ch).
Fixpoint node_ind' (n : node) : P n :=
  match n with Node k i c ch =>
    H k i c ch ((fix go (l : list (N * node)) : Forall (fun p => P (snd p)) l :=
                  match l with [] => Forall_nil _ | p :: l' => Forall_cons p (node_ind' (snd p)) (go l') end) ch)
  end.
End NodeInd.

(* every node of the tree, in depth-first pre-order, children in stored order *)
Fixpoint preorder (n : node) : list node :=
  match n with Node k i c ch =>
    n :: (fix go (l : list (N * node)) : list node :=
            match l with [] => [] | (_, x) :: l' => preorder x ++ go l' end) ch
  end.
Lemma preorder_eq n : preorder n = n :: flat_map (fun p => preorder (snd p)) (children n).
Proof.
  destruct n as [k i c ch]. cbn [preorder children]. f_equal.
  induction ch as [|[f x] l IH]; [reflexivity|]. cbn [flat_map snd]. now rewrite IH.
Qed.

(* a step of the path from the root: the ancestor and the field of it under which the path continues *)
Definition step := (node * N)%type.

(* every node together with the path that leads to it, same order as [preorder] *)
Fixpoint ctx_preorder (n : node) : list (list step * node) :=
  match n with Node k i c ch =>
    ([], n) :: (fix go (l : list (N * node)) : list (list step * node) :=
                  match l with
                  | [] => []
                  | (f, x) :: l' => map (fun q => ((n, f) :: fst q, snd q)) (ctx_preorder x) ++ go l'
                  end) ch
  end.
Lemma ctx_preorder_eq n :
  ctx_preorder n = ([], n) :: flat_map (fun p => map (fun q => ((n, fst p) :: fst q, snd q)) (ctx_preorder (snd p))) (children n).
Proof.
  destruct n as [k i c ch]. cbn [ctx_preorder children]. f_equal.
  generalize (Node k i c ch) as n0. intros n0.
  induction ch as [|[f x] l IH]; [reflexivity|]. cbn [flat_map fst snd]. now rewrite IH.
Qed.

Lemma ctx_preorder_nodes n : map snd (ctx_preorder n) = preorder n.
Proof.
  induction n as [k i c ch IH] using node_ind'.
  rewrite ctx_preorder_eq, preorder_eq. cbn [map snd children]. f_equal.
  generalize (Node k i c ch) as n0. intros n0. revert IH.
  induction ch as [|[f x] l IHl]; intros IH; [reflexivity|].
  inversion IH as [|? ? Hx Hl]; subst. cbn [flat_map fst snd]. rewrite map_app, map_map. cbn [snd] in *.
  rewrite (map_ext _ snd (fun q : list step * node => eq_refl)).
  rewrite Hx. f_equal. apply IHl. exact Hl.
Qed.

(* [reach root steps x]: following [steps] (ancestor, field) from [root] arrives at [x] *)
Inductive reach : node -> list step -> node -> Prop :=
| reach_here n : reach n [] n
| reach_down n f x steps y : In (f, x) (children n) -> reach x steps y -> reach n ((n, f) :: steps) y.

Lemma ctx_preorder_reach n : forall steps x, In (steps, x) (ctx_preorder n) <-> reach n steps x.
Proof.
  induction n as [k i c ch IH] using node_ind'. intros steps x. rewrite ctx_preorder_eq. cbn [children]. split.
  - intros [Heq|Hin].
    + inversion Heq; subst. constructor.
    + apply in_flat_map in Hin as ([f y] & Hy & Hq). cbn [fst snd] in Hq.
      apply in_map_iff in Hq as ([st z] & Heq & Hz). cbn [fst snd] in Heq. inversion Heq; subst.
      rewrite Forall_forall in IH. specialize (IH _ Hy). cbn [snd] in IH.
      econstructor; [exact Hy|]. now apply IH.
  - intros Hr. inversion Hr as [|? f y st z Hy Hr']; subst.
    + now left.
    + right. apply in_flat_map. exists (f, y). split; [exact Hy|]. cbn [fst snd].
      apply in_map_iff. exists (st, x). split; [reflexivity|].
      rewrite Forall_forall in IH. specialize (IH _ Hy). cbn [snd] in IH. now apply IH.
Qed.
