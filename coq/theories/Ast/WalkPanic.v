(* Walks whose visit callback panics (a user's Report callback may): the visits delivered are exactly the
   specified ones up to and including the first panicking one, and the node path is unwound (defer Pop). *)
From Coq Require Import List NArith Lia Bool Arith.
From RG.Ast Require Import Tree Walker WalkerProof.
Import ListNotations.

Section Cut.
Variable P : ev -> bool.

Definition hasp (l : list ev) : bool := existsb P l.
Fixpoint cut (l : list ev) : list ev :=
  match l with [] => [] | e :: l' => if P e then [e] else e :: cut l' end.

Lemma hasp_app a b : hasp (a ++ b) = hasp a || hasp b.
Proof. apply existsb_app. Qed.

Lemma cut_app a b : cut (a ++ b) = if hasp a then cut a else a ++ cut b.
Proof.
  induction a as [|e a IH]; [reflexivity|]. cbn [app cut hasp existsb]. destruct (P e); [reflexivity|].
  cbn [orb]. fold (hasp a). rewrite IH. now destruct (hasp a).
Qed.

Lemma cut_nohasp l : hasp l = false -> cut l = l.
Proof.
  induction l as [|e l IH]; [reflexivity|]. cbn [hasp existsb cut]. destruct (P e); [discriminate|].
  cbn [orb]. intros H. now rewrite IH.
Qed.

Lemma cut_prefix l : exists rest, l = cut l ++ rest.
Proof.
  induction l as [|e l [rest IH]]; [now exists []|]. cbn [cut]. destruct (P e).
  - now exists l.
  - exists rest. cbn [app]. now f_equal.
Qed.
End Cut.

(* the abstract run only ever appends to its trace *)
Lemma abs_exec_extends cond : forall af acts (xa xa' : xs (list titem) afunc) r,
  exec (fun t d f tr => (tr ++ [TVisit t d f], false)) (fun g d f tr => WOk d f (tr ++ [TWalk g d f])) cond FSelf af acts xa = XOk xa' r ->
  exists delta, x_t xa' = x_t xa ++ delta.
Proof.
  induction af as [|af IH]; intros acts xa xa' r H; [discriminate|].
  destruct acts as [|a rest]; cbn [exec] in H.
  - inversion H; subst. exists []. now rewrite app_nil_r.
  - destruct a as [t|f|b|b| | | |b th el|].
    + apply IH in H as [dl Hd]. cbn [x_t] in Hd. eexists. rewrite Hd, <- app_assoc. reflexivity.
    + apply IH in H as [dl Hd]. cbn [x_t] in Hd. eexists. rewrite Hd, <- app_assoc. reflexivity.
    + apply IH in H as [dl Hd]. now exists dl.
    + apply IH in H as [dl Hd]. now exists dl.
    + apply IH in H as [dl Hd]. now exists dl.
    + apply IH in H as [dl Hd]. now exists dl.
    + apply IH in H as [dl Hd]. now exists dl.
    + destruct (exec _ _ cond FSelf af (if beval cond (x_d xa) (x_l xa) b then th else el) xa) as [x1 r1| |] eqn:Eb; try discriminate.
      apply IH in Eb as [d1 Hd1]. destruct r1.
      * inversion H; subst. now exists d1.
      * apply IH in H as [d2 Hd2]. exists (d1 ++ d2). now rewrite Hd2, Hd1, app_assoc.
    + inversion H; subst. exists []. now rewrite app_nil_r.
Qed.

(* ---------- simulation with a panicking callback ---------- *)
Section SimPanic.
Variable P : ev -> bool.
Variable cond : option bool.
Variable i : N.
Variable gam : afunc -> option N.
Hypothesis gam_self : gam FSelf = Some i.
Variable stk1 : list N.
Variable E : list ev.
Variable visc : N -> bool -> option N -> acc -> acc * bool.
Variable wfc : N -> bool -> option N -> acc -> wres acc (option N).
Variable interp : titem -> list ev.
Hypothesis Hvis : forall t d a E', visc t d (gam a) (stk1, E') = ((stk1, E' ++ interp (TVisit t d a)), hasp P (interp (TVisit t d a))).
Hypothesis Hvis1 : forall t d a, cut P (interp (TVisit t d a)) = interp (TVisit t d a).
Hypothesis Hwf : forall f d a E', wfc f d (gam a) (stk1, E') =
  if hasp P (interp (TWalk f d a)) then WPanic (stk1, E' ++ cut P (interp (TWalk f d a)))
  else WOk d (gam a) (stk1, E' ++ interp (TWalk f d a)).

Let absvis := fun (t : N) (d : bool) (f : afunc) (tr : list titem) => (tr ++ [TVisit t d f], false).
Let abswf := fun (g : N) (d : bool) (f : afunc) (tr : list titem) => WOk d f (tr ++ [TWalk g d f]).
Let fm := flat_map interp.

Lemma fm_snoc tr it : fm (tr ++ [it]) = fm tr ++ interp it.
Proof. unfold fm. rewrite flat_map_app. cbn. now rewrite app_nil_r. Qed.

(* once a prefix of the final trace has panicked, the cut of the whole is the cut of that prefix *)
Lemma cut_extends tr delta : hasp P (fm tr) = true ->
  hasp P (fm (tr ++ delta)) = true /\ cut P (fm (tr ++ delta)) = cut P (fm tr).
Proof.
  intros H. unfold fm. rewrite flat_map_app. fold fm. rewrite hasp_app, cut_app, H. auto.
Qed.

Lemma exec_sim_panic : forall af acts xa xa' r,
  exec absvis abswf cond FSelf af acts xa = XOk xa' r ->
  hasp P (fm (x_t xa)) = false ->
  exec visc wfc cond (Some i) af acts (conc gam stk1 E interp xa) =
    if hasp P (fm (x_t xa')) then XPanic (stk1, E ++ cut P (fm (x_t xa')))
    else XOk (conc gam stk1 E interp xa') r.
Proof.
  induction af as [|af IH]; intros acts xa xa' r H Hnp; [discriminate|].
  destruct acts as [|a rest]; cbn [exec] in *.
  - inversion H; subst. fold fm. now rewrite Hnp.
  - destruct a as [t|f|b|b| | | |b th el|].
    + unfold absvis in H at 1. cbn [conc x_d x_f x_t x_l x_p]. rewrite Hvis.
      destruct (hasp P (interp (TVisit t (x_d xa) (x_f xa)))) eqn:Hp.
      * (* the callback panics here *)
        destruct (abs_exec_extends _ _ _ _ _ _ H) as [delta Hd]. cbn [x_t] in Hd.
        assert (Hpre : hasp P (fm (x_t xa ++ [TVisit t (x_d xa) (x_f xa)])) = true)
          by (rewrite fm_snoc, hasp_app, Hp; apply orb_true_r).
        destruct (cut_extends _ delta Hpre) as [H1 H2]. rewrite Hd, H1, H2.
        rewrite fm_snoc, cut_app, Hnp, Hvis1. fold fm. now rewrite app_assoc.
      * rewrite <- app_assoc. fold fm. rewrite <- fm_snoc.
        apply IH in H; [exact H|]. cbn [x_t]. now rewrite fm_snoc, hasp_app, Hnp, Hp.
    + unfold abswf in H at 1. cbn [conc x_d x_f x_t x_l x_p]. rewrite Hwf.
      destruct (hasp P (interp (TWalk f (x_d xa) (x_f xa)))) eqn:Hp.
      * destruct (abs_exec_extends _ _ _ _ _ _ H) as [delta Hd]. cbn [x_t] in Hd.
        assert (Hpre : hasp P (fm (x_t xa ++ [TWalk f (x_d xa) (x_f xa)])) = true)
          by (rewrite fm_snoc, hasp_app, Hp; apply orb_true_r).
        destruct (cut_extends _ delta Hpre) as [H1 H2]. rewrite Hd, H1, H2.
        rewrite fm_snoc, cut_app, Hnp. fold fm. now rewrite app_assoc.
      * rewrite <- app_assoc. fold fm. rewrite <- fm_snoc.
        apply IH in H; [exact H|]. cbn [x_t]. now rewrite fm_snoc, hasp_app, Hnp, Hp.
    + apply IH in H; [exact H|exact Hnp].
    + apply IH in H; [exact H|exact Hnp].
    + apply IH in H; [exact H|exact Hnp].
    + apply IH in H; [|exact Hnp]. unfold conc in H at 1. cbn [x_d x_f x_t x_l x_p] in H. rewrite gam_self in H. exact H.
    + apply IH in H; [exact H|exact Hnp].
    + cbn [conc x_d x_l] in *.
      destruct (exec absvis abswf cond FSelf af (if beval cond (x_d xa) (x_l xa) b then th else el) xa)
        as [x1 r1| |] eqn:Eb; try discriminate.
      rewrite (IH _ _ _ _ Eb Hnp).
      destruct (hasp P (fm (x_t x1))) eqn:Hp1.
      * (* panic inside the branch *)
        destruct r1.
        -- inversion H; subst. now rewrite Hp1.
        -- destruct (abs_exec_extends _ _ _ _ _ _ H) as [delta Hd].
           destruct (cut_extends _ delta Hp1) as [H1 H2]. now rewrite Hd, H1, H2.
      * destruct r1.
        -- inversion H; subst. now rewrite Hp1.
        -- now apply IH.
    + inversion H; subst. fold fm. now rewrite Hnp.
Qed.
End SimPanic.

(* ---------- the walk with a panicking callback ---------- *)
Section MainPanic.
Variable AF : nat.
Variable table : N -> list act.
Variable S : N -> kspec.
Hypothesis table_ok : forall k, kind_ok AF FrameDeferPop (table k) (S k) = true.
Variable P : ev -> bool.

Theorem walk_panic : forall fuel n st E,
  wf S n -> (height n < fuel)%nat ->
  let evs := events S n (w_dead st) (w_func st) (w_stack st) in
  walk AF FrameDeferPop table P fuel n st E =
    if hasp P evs then RPanic (w_stack st) (E ++ cut P evs) else ROk st (E ++ evs).
Proof.
  induction fuel as [|fuel IH]; intros n st E Hwf Hh; [lia|].
  destruct n as [k i c ch]. rewrite height_eq in Hh. destruct Hwf as [Hg Hch]. fold (wf_children S k ch) in Hch.
  destruct st as [d cf stk]. cbn zeta.
  cbn [walk kind nid ncond children w_dead w_func w_stack].
  set (wl := fix walk_list (l : list (N * node)) (f : N) (d : bool) (cf : option N) (a : acc) {struct l} : wres acc (option N) :=
        match l with
        | [] => WOk d cf a
        | (g, c) :: l' =>
            if N.eqb g f
            then match walk AF FrameDeferPop table P fuel c {| w_dead := d; w_func := cf; w_stack := fst a |} (snd a) with
                 | ROk st' E' => walk_list l' f (w_dead st') (w_func st') (w_stack st', E')
                 | RPanic stk' E' => WPanic (stk', E')
                 | RFuel => WFuel
                 end
            else walk_list l' f d cf a
        end).
  assert (Hwl : forall l, (forall f x, In (f, x) l -> wf S x) -> (heights l < fuel)%nat ->
                forall f df cf0 stk0 E0,
                wl l f df cf0 (stk0, E0) =
                  if hasp P (field_events S l f df cf0 stk0) then WPanic (stk0, E0 ++ cut P (field_events S l f df cf0 stk0))
                  else WOk df cf0 (stk0, E0 ++ field_events S l f df cf0 stk0)).
  { induction l as [|[g x] l IHl]; intros Hw Hl f df cf0 stk0 E0.
    - cbn. now rewrite app_nil_r.
    - rewrite heights_cons in Hl.
      cbn [wl]. fold wl. unfold field_events. cbn [filter fst snd].
      destruct (N.eqb g f).
      + cbn [flat_map snd]. fold (field_events S l f df cf0 stk0).
        pose proof (IH x {| w_dead := df; w_func := cf0; w_stack := stk0 |} E0 (Hw g x (or_introl eq_refl)) ltac:(lia)) as Hx.
        cbn zeta in Hx. cbn [w_dead w_func w_stack] in Hx. rewrite Hx.
        rewrite hasp_app, cut_app.
        destruct (hasp P (events S x df cf0 stk0)); cbn [orb]; [reflexivity|].
        cbn [w_dead w_func w_stack].
        rewrite IHl by (try lia; intros; eapply Hw; right; eassumption).
        destruct (hasp P (field_events S l f df cf0 stk0)); now rewrite app_assoc.
      + fold (field_events S l f df cf0 stk0).
        rewrite IHl by (try lia; intros; eapply Hw; right; eassumption). reflexivity. }
  pose proof (wf_children_wf S k ch Hch) as Hwfx.
  destruct (kind_ok_spec AF FrameDeferPop _ _ (table_ok k) c d) as (xa & r & Habs & Hd & Hf & Hfr & Htr).
  unfold abs_run in Habs. cbn [push].
  pose proof (exec_sim_panic P c i (gam_of i cf) eq_refl (stk ++ [i]) E (visit_ev P i) (fun f d0 cf0 a => wl ch f d0 cf0 a)
                (interp_of S i cf stk ch)) as Hsim.
  specialize (Hsim ltac:(intros t d0 a E0; unfold visit_ev; cbn [fst snd interp_of hasp existsb]; now rewrite orb_false_r)).
  specialize (Hsim ltac:(intros t d0 a; cbn [interp_of cut]; now destruct (P _))).
  specialize (Hsim (fun f d0 a E0 => Hwl ch Hwfx ltac:(lia) f d0 (gam_of i cf a) (stk ++ [i]) E0)).
  specialize (Hsim _ _ _ _ _ Habs eq_refl).
  unfold conc in Hsim at 1. cbn [x_d x_f x_l x_p x_t flat_map gam_of] in Hsim. rewrite app_nil_r in Hsim.
  rewrite Hsim.
  pose proof (trace_events S k i c ch d cf stk (x_t xa) Hg Hch Htr) as Hev.
  rewrite Hev.
  destruct (hasp P (events S (Node k i c ch) d cf stk)).
  - cbn [pop_panic fst snd]. now rewrite pop1_snoc.
  - unfold conc. cbn [x_d x_f x_l x_p x_t fst snd pop_normal]. rewrite pop1_snoc, Hd, Hf, Hev. reflexivity.
Qed.

(* the part of C09 about aborted runs: the visits delivered are a prefix of the specified ones, ending with the
   panicking one, and the ancestor stack is what it was before the walk *)
Corollary walk_panic_unwinds : forall fuel n st E stk' E',
  wf S n -> (height n < fuel)%nat ->
  walk AF FrameDeferPop table P fuel n st E = RPanic stk' E' ->
  stk' = w_stack st /\ exists rest, E ++ events S n (w_dead st) (w_func st) (w_stack st) = E' ++ rest.
Proof.
  intros fuel n st E stk' E' Hwf Hh H. rewrite walk_panic in H by assumption. cbn zeta in H.
  destruct (hasp P (events S n (w_dead st) (w_func st) (w_stack st))); [|discriminate].
  inversion H; subst. split; [reflexivity|].
  destruct (cut_prefix P (events S n (w_dead st) (w_func st) (w_stack st))) as [rest Hr].
  exists rest. rewrite <- app_assoc. now rewrite <- Hr.
Qed.
End MainPanic.
