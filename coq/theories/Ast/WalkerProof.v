(* The generic walker theorem: if every kind's action list passes the finite check [kind_ok] against the
   specification table, then on EVERY well-formed tree the walk produces exactly the specified event
   sequence and restores the dead-code flag, the current function and the node path. *)
From Coq Require Import List NArith Lia Bool Arith.
From RG.Ast Require Import Tree Walker.
Import ListNotations.

Lemma flat_map_flat_map {A B C} (g : B -> list C) (h : A -> list B) l :
  flat_map g (flat_map h l) = flat_map (fun a => flat_map g (h a)) l.
Proof. induction l as [|a l IH]; cbn; [reflexivity|]. now rewrite flat_map_app, IH. Qed.

Lemma flat_map_nil_filter {A B} (g : A -> list B) (p : A -> bool) l :
  (forall a, In a l -> p a = false -> g a = []) -> flat_map g (filter p l) = flat_map g l.
Proof.
  induction l as [|a l IH]; intros H; [reflexivity|]. cbn [filter flat_map].
  destruct (p a) eqn:Hp.
  - cbn [flat_map]. rewrite IH; [reflexivity|]. intros; apply H; [now right|assumption].
  - rewrite (H a (or_introl eq_refl) Hp). cbn [app]. apply IH. intros; apply H; [now right|assumption].
Qed.

Lemma pop1_snoc (stk : list N) i : pop1 (stk ++ [i]) = Some stk.
Proof. unfold pop1. destruct (stk ++ [i]) eqn:H; [now destruct stk|]. rewrite <- H. now rewrite removelast_last. Qed.

(* ---------- simulation: a concrete run whose callbacks do not panic and whose sub-walks restore the
   state follows the abstract run from the same configuration ---------- *)
Section Sim.
Variable cond : option bool.
Variable i : N.
Variable gam : afunc -> option N.
Hypothesis gam_self : gam FSelf = Some i.
Variable stk1 : list N.
Variable E : list ev.
Variable visc : N -> bool -> option N -> acc -> acc * bool.
Variable wfc : N -> bool -> option N -> acc -> wres acc (option N).
Variable interp : titem -> list ev.
Hypothesis Hvis : forall t d a E', visc t d (gam a) (stk1, E') = ((stk1, E' ++ interp (TVisit t d a)), false).
Hypothesis Hwf : forall f d a E', wfc f d (gam a) (stk1, E') = WOk d (gam a) (stk1, E' ++ interp (TWalk f d a)).

Let absvis := fun (t : N) (d : bool) (f : afunc) (tr : list titem) => (tr ++ [TVisit t d f], false).
Let abswf := fun (g : N) (d : bool) (f : afunc) (tr : list titem) => WOk d f (tr ++ [TWalk g d f]).

Definition conc (xa : xs (list titem) afunc) : xs acc (option N) :=
  {| x_d := x_d xa; x_f := gam (x_f xa); x_l := x_l xa; x_p := gam (x_p xa);
     x_t := (stk1, E ++ flat_map interp (x_t xa)) |}.

Lemma flat_snoc tr it : flat_map interp (tr ++ [it]) = flat_map interp tr ++ interp it.
Proof. rewrite flat_map_app. cbn. now rewrite app_nil_r. Qed.

Lemma exec_sim : forall af acts xa xa' r,
  exec absvis abswf cond FSelf af acts xa = XOk xa' r ->
  exec visc wfc cond (Some i) af acts (conc xa) = XOk (conc xa') r.
Proof.
  induction af as [|af IH]; intros acts xa xa' r H; [discriminate|].
  destruct acts as [|a rest]; cbn [exec] in *.
  - now inversion H; subst.
  - destruct a as [t|f|b|b| | | |b th el|].
    + unfold absvis in H at 1. cbn [conc x_d x_f x_t x_l x_p].
      rewrite Hvis. rewrite <- app_assoc, <- flat_snoc.
      apply IH in H. exact H.
    + unfold abswf in H at 1. cbn [conc x_d x_f x_t x_l x_p].
      rewrite Hwf. rewrite <- app_assoc, <- flat_snoc.
      apply IH in H. exact H.
    + apply IH in H. exact H.
    + apply IH in H. exact H.
    + apply IH in H. exact H.
    + apply IH in H. unfold conc in H at 1. cbn [x_d x_f x_t x_l x_p] in H. rewrite gam_self in H. exact H.
    + apply IH in H. exact H.
    + cbn [conc x_d x_l] in *.
      destruct (exec absvis abswf cond FSelf af (if beval cond (x_d xa) (x_l xa) b then th else el) xa)
        as [x1 r1| |] eqn:Eb; try discriminate.
      rewrite (IH _ _ _ _ Eb). destruct r1.
      * now inversion H; subst.
      * now apply IH.
    + now inversion H; subst.
Qed.
End Sim.

(* ---------- specification of the event sequence ---------- *)
Section Main.
Variable AF : nat.
Variable fr : frame.
Variable table : N -> list act.
Variable S : N -> kspec.
Hypothesis table_ok : forall k, kind_ok AF fr (table k) (S k) = true.

Definition own_event (k i : N) (d : bool) (cf : option N) (stk : list N) : list ev :=
  match ktag (S k) with
  | Some t => [{| e_id := i; e_tag := t; e_dead := d; e_func := cf; e_path := stk ++ [i] |}]
  | None => []
  end.

(* the node's own visit (when its kind has a tag) followed by the events of its children in stored order,
   each under the dead flag / current function its field runs under, with the node pushed on the path *)
Fixpoint events (n : node) (d : bool) (cf : option N) (stk : list N) : list ev :=
  match n with Node k i c ch =>
    own_event k i d cf stk ++
    (fix go (l : list (N * node)) : list ev :=
       match l with
       | [] => []
       | (g, x) :: l' => events x (kdead (S k) c g d) (if ksetf (S k) then Some i else cf) (stk ++ [i]) ++ go l'
       end) ch
  end.

Definition child_events (k i : N) (c : option bool) (d : bool) (cf : option N) (stk : list N) (l : list (N * node)) : list ev :=
  flat_map (fun p => events (snd p) (kdead (S k) c (fst p) d) (if ksetf (S k) then Some i else cf) (stk ++ [i])) l.

Lemma events_eq k i c ch d cf stk :
  events (Node k i c ch) d cf stk = own_event k i d cf stk ++ child_events k i c d cf stk ch.
Proof.
  cbn [events]. f_equal. unfold child_events.
  induction ch as [|[g x] l IH]; [reflexivity|]. cbn [flat_map fst snd]. now rewrite IH.
Qed.

(* ---------- well-formed trees ---------- *)
(* children are stored grouped by field, in the order of the kind's field list *)
Definition grouped (fs : list N) (ch : list (N * node)) : Prop :=
  flat_map (fun f => filter (fun p => N.eqb (fst p) f) ch) fs = ch.

(* a sub-tree without any tagged node (what an inert field holds: comment groups) *)
Fixpoint silent (n : node) : Prop :=
  match n with Node k _ _ ch =>
    ktag (S k) = None /\
    (fix all (l : list (N * node)) : Prop := match l with [] => True | (_, x) :: l' => silent x /\ all l' end) ch
  end.
Definition silent_children (l : list (N * node)) : Prop :=
  (fix all (l : list (N * node)) : Prop := match l with [] => True | (_, x) :: l' => silent x /\ all l' end) l.

Fixpoint wf (n : node) : Prop :=
  match n with Node k _ _ ch =>
    grouped (map fst (kfields (S k))) ch /\
    (fix all (l : list (N * node)) : Prop :=
       match l with [] => True | (f, x) :: l' => (wf x /\ (inert_in (S k) f = true -> silent x)) /\ all l' end) ch
  end.
Definition wf_children (k : N) (l : list (N * node)) : Prop :=
  (fix all (l : list (N * node)) : Prop :=
     match l with [] => True | (f, x) :: l' => (wf x /\ (inert_in (S k) f = true -> silent x)) /\ all l' end) l.

Lemma silent_events n : forall d cf stk, silent n -> events n d cf stk = [].
Proof.
  induction n as [k i c ch IH] using node_ind'. intros d cf stk [Ht Hch]. fold (silent_children ch) in Hch.
  rewrite events_eq. unfold own_event. rewrite Ht. cbn [app]. unfold child_events.
  induction ch as [|[g x] l IHl]; [reflexivity|].
  inversion IH as [|? ? Hx Hl]; subst. destruct Hch as [Hs Hch]. cbn [flat_map fst snd] in *.
  rewrite Hx by assumption. cbn [app]. now apply IHl.
Qed.

(* events of the children stored under field f, all run under the same flag / function *)
Definition field_events (l : list (N * node)) (f : N) (df : bool) (cf : option N) (stk : list N) : list ev :=
  flat_map (fun p => events (snd p) df cf stk) (filter (fun p => N.eqb (fst p) f) l).

Lemma filter_field_events (ev1 : node -> bool -> list ev) (kd : N -> bool) (f : N) (l : list (N * node)) :
  flat_map (fun p => ev1 (snd p) (kd f)) (filter (fun p => N.eqb (fst p) f) l) =
  flat_map (fun p => ev1 (snd p) (kd (fst p))) (filter (fun p => N.eqb (fst p) f) l).
Proof.
  induction l as [|[h x] l IH]; [reflexivity|]. cbn [filter fst]. destruct (N.eqb_spec h f).
  - subst. cbn [flat_map fst snd]. now rewrite IH.
  - exact IH.
Qed.

Lemma inert_field_events k l f df cf stk :
  wf_children k l -> inert_in (S k) f = true -> field_events l f df cf stk = [].
Proof.
  intros Hw Hi. unfold field_events. induction l as [|[g x] l IH]; [reflexivity|].
  destruct Hw as [[_ Hs] Hw]. cbn [filter fst]. destruct (N.eqb_spec g f).
  - subst. cbn [flat_map snd]. rewrite silent_events by auto. cbn [app]. now apply IH.
  - now apply IH.
Qed.

Definition gam_of (i : N) (cf : option N) (a : afunc) : option N :=
  match a with FInit => cf | FSelf => Some i | FNil => None end.

(* what one item of the abstract trace stands for in the concrete walk of node i with children ch *)
Definition interp_of (i : N) (cf : option N) (stk : list N) (ch : list (N * node)) (it : titem) : list ev :=
  match it with
  | TVisit t dx a => [{| e_id := i; e_tag := t; e_dead := dx; e_func := gam_of i cf a; e_path := stk ++ [i] |}]
  | TWalk f dx a => field_events ch f dx (gam_of i cf a) (stk ++ [i])
  end.

(* a trace that passes the finite check, interpreted, is the specified event list of the node *)
Lemma trace_events k i c ch d cf stk (tr : list titem) :
  grouped (map fst (kfields (S k))) ch -> wf_children k ch ->
  filter (keep (S k)) tr = expected (S k) c d ->
  flat_map (interp_of i cf stk ch) tr = events (Node k i c ch) d cf stk.
Proof.
  intros Hg Hch Htr.
  assert (Hdrop : flat_map (interp_of i cf stk ch) tr = flat_map (interp_of i cf stk ch) (filter (keep (S k)) tr)).
  { symmetry. apply flat_map_nil_filter. intros it _ Hk. destruct it as [t dx a|f dx a]; [discriminate|].
    cbn [keep] in Hk. apply negb_false_iff in Hk. cbn [interp_of]. eapply inert_field_events; eassumption. }
  rewrite Hdrop, Htr. rewrite events_eq. unfold expected. rewrite flat_map_app. f_equal.
  - unfold own_event. destruct (ktag (S k)); reflexivity.
  - rewrite flat_map_concat_map, map_map, <- flat_map_concat_map. cbn [interp_of].
    set (cf' := if ksetf (S k) then Some i else cf).
    assert (Hcf : gam_of i cf (if ksetf (S k) then FSelf else FInit) = cf') by (unfold cf'; destruct (ksetf (S k)); reflexivity).
    rewrite Hcf.
    unfold child_events. fold cf'.
    set (g := fun p : N * node => events (snd p) (kdead (S k) c (fst p) d) cf' (stk ++ [i])).
    unfold live_fields.
    transitivity (flat_map (fun f => field_events ch f (kdead (S k) c f d) cf' (stk ++ [i])) (map fst (kfields (S k)))).
    { rewrite !flat_map_concat_map, !map_map, <- !flat_map_concat_map.
      apply flat_map_nil_filter. intros [f b] Hin Hb. cbn [fst snd] in *. apply negb_false_iff in Hb. subst b.
      eapply inert_field_events; [eassumption|].
      unfold inert_in. apply existsb_exists. exists (f, true). split; [exact Hin|]. cbn [fst snd]. now rewrite N.eqb_refl. }
    assert (Hre : flat_map g ch = flat_map g (flat_map (fun f => filter (fun p => N.eqb (fst p) f) ch) (map fst (kfields (S k))))).
    { unfold grouped in Hg. rewrite Hg. reflexivity. }
    rewrite Hre, flat_map_flat_map. apply flat_map_ext. intros f.
    unfold field_events, g.
    exact (filter_field_events (fun x dd => events x dd cf' (stk ++ [i])) (fun h => kdead (S k) c h d) f ch).
Qed.

Lemma wf_children_wf k ch : wf_children k ch -> forall f x, In (f, x) ch -> wf x.
Proof.
  induction ch as [|[g y] l IHl]; intros Hch f x Hin; [destruct Hin|].
  destruct Hch as [[Hy _] Hl]. destruct Hin as [Heq|Hin]; [inversion Heq; now subst|eauto].
Qed.

Lemma push_frame_ok fr' r i stk : frame_ok fr' r = true -> push fr' i stk = stk ++ [i].
Proof. destruct fr'; [reflexivity|reflexivity|discriminate]. Qed.

Definition nopanic : ev -> bool := fun _ => false.

Theorem walk_correct : forall fuel n st E,
  wf n -> (height n < fuel)%nat ->
  walk AF fr table nopanic fuel n st E = ROk st (E ++ events n (w_dead st) (w_func st) (w_stack st)).
Proof.
  induction fuel as [|fuel IH]; intros n st E Hwf Hh; [lia|].
  destruct n as [k i c ch]. rewrite height_eq in Hh. destruct Hwf as [Hg Hch]. fold (wf_children k ch) in Hch.
  destruct st as [d cf stk].
  cbn [walk kind nid ncond children w_dead w_func w_stack].
  set (wl := fix walk_list (l : list (N * node)) (f : N) (d : bool) (cf : option N) (a : acc) {struct l} : wres acc (option N) :=
        match l with
        | [] => WOk d cf a
        | (g, c) :: l' =>
            if N.eqb g f
            then match walk AF fr table nopanic fuel c {| w_dead := d; w_func := cf; w_stack := fst a |} (snd a) with
                 | ROk st' E' => walk_list l' f (w_dead st') (w_func st') (w_stack st', E')
                 | RPanic stk' E' => WPanic (stk', E')
                 | RFuel => WFuel
                 end
            else walk_list l' f d cf a
        end).
  (* the field walker restores flag, function and path and appends exactly field_events *)
  assert (Hwl : forall l, (forall f x, In (f, x) l -> wf x) -> (heights l < fuel)%nat ->
                forall f df cf0 stk0 E0, wl l f df cf0 (stk0, E0) = WOk df cf0 (stk0, E0 ++ field_events l f df cf0 stk0)).
  { induction l as [|[g x] l IHl]; intros Hw Hl f df cf0 stk0 E0.
    - cbn. now rewrite app_nil_r.
    - rewrite heights_cons in Hl.
      cbn [wl]. fold wl. unfold field_events. cbn [filter fst snd].
      destruct (N.eqb g f).
      + rewrite (IH x {| w_dead := df; w_func := cf0; w_stack := stk0 |} E0 (Hw g x (or_introl eq_refl))) by lia.
        cbn [w_dead w_func w_stack].
        rewrite IHl by (try lia; intros; eapply Hw; right; eassumption).
        cbn [flat_map snd]. unfold field_events. now rewrite app_assoc.
      + rewrite IHl by (try lia; intros; eapply Hw; right; eassumption). reflexivity. }
  pose proof (wf_children_wf k ch Hch) as Hwfx.
  destruct (kind_ok_spec AF fr _ _ (table_ok k) c d) as (xa & r & Habs & Hd & Hf & Hfr & Htr).
  unfold abs_run in Habs.
  rewrite (push_frame_ok fr r i stk Hfr).
  pose proof (exec_sim c i (gam_of i cf) eq_refl (stk ++ [i]) E (visit_ev nopanic i) (fun f d0 cf0 a => wl ch f d0 cf0 a)
                (interp_of i cf stk ch)
                (fun t d0 a E0 => eq_refl) (fun f d0 a E0 => Hwl ch Hwfx ltac:(lia) f d0 (gam_of i cf a) (stk ++ [i]) E0)
                _ _ _ _ _ Habs) as Hsim.
  unfold conc in Hsim at 1. cbn [x_d x_f x_l x_p x_t flat_map gam_of] in Hsim. rewrite app_nil_r in Hsim.
  rewrite Hsim. unfold conc. cbn [x_d x_f x_l x_p x_t fst snd].
  assert (Hpop : pop_normal fr r (stk ++ [i]) = Some stk).
  { destruct fr; cbn in Hfr |- *; [apply pop1_snoc| |discriminate].
    destruct r; [discriminate|apply pop1_snoc]. }
  rewrite Hpop, Hd, Hf. cbn [gam_of]. f_equal. f_equal.
  now apply trace_events with (c := c).
Qed.

(* the state is restored after every node: flag, current function, node path *)
Corollary walk_restores_state : forall fuel n st E,
  wf n -> (height n < fuel)%nat -> exists E', walk AF fr table nopanic fuel n st E = ROk st E'.
Proof. intros. eexists. now apply walk_correct. Qed.
End Main.
