(* The specification table built from the go/ast schema and the hand-written statements of the three
   properties, and the closed-form reading of [events]: which nodes are offered, in which order (C01),
   under which dead-code flag (C16), current function and node path (C09). *)
From Coq Require Import List NArith Lia Bool Arith.
From RG.Ast Require Import Tree Walker WalkerProof.
Import ListNotations.

Lemma flat_map_ext_in' {A B} (f g : A -> list B) l : (forall a, In a l -> f a = g a) -> flat_map f l = flat_map g l.
Proof.
  induction l as [|a l IH]; intros H; [reflexivity|]. cbn [flat_map].
  rewrite (H a (or_introl eq_refl)), IH; [reflexivity|]. intros; apply H; now right.
Qed.

Section Spec.
Variable kif fbody felse kfd : N.          (* indices of IfStmt, Body, Else, FuncDecl in the generated name tables *)
Variable tag_of : N -> option N.           (* gogrep's nodetag.FromNode, by kind *)
Variable sch : N -> list (N * bool).       (* go/ast schema: child fields in ast.Walk order, inert mark *)

(* C16, written from the property text: the Body runs dead under a false constant, the Else under a true one,
   everything already dead stays dead, Init and Cond are live *)
Definition if_dead (c : option bool) (f : N) (d : bool) : bool :=
  d || ((N.eqb f fbody && match c with Some false => true | _ => false end)
        || (N.eqb f felse && match c with Some true => true | _ => false end)).

Definition spec_of (k : N) : kspec :=
  {| ktag := tag_of k; kfields := sch k;
     kdead := if N.eqb k kif then if_dead else fun _ _ d => d;
     ksetf := N.eqb k kfd |}.

(* one step down the tree kills the code below iff it enters the Body of a constant-false `if`
   or the Else of a constant-true `if` *)
Definition dead_step (s : step) : bool :=
  let (a, f) := s in
  N.eqb (kind a) kif &&
  ((N.eqb f fbody && match ncond a with Some false => true | _ => false end)
   || (N.eqb f felse && match ncond a with Some true => true | _ => false end)).

Definition dead_of (steps : list step) : bool := existsb dead_step steps.

(* innermost enclosing function declaration, [cf] when there is none on the path *)
Definition func_of (steps : list step) (cf : option N) : option N :=
  fold_left (fun acc (s : step) => if N.eqb (kind (fst s)) kfd then Some (nid (fst s)) else acc) steps cf.

Definition path_of (steps : list step) : list N := map (fun s : step => nid (fst s)) steps.

Definition emit (d : bool) (cf : option N) (stk : list N) (q : list step * node) : list ev :=
  match tag_of (kind (snd q)) with
  | Some t => [{| e_id := nid (snd q); e_tag := t; e_dead := d || dead_of (fst q);
                  e_func := func_of (fst q) cf; e_path := stk ++ path_of (fst q) ++ [nid (snd q)] |}]
  | None => []
  end.

Lemma kdead_step k i c ch f d : kdead (spec_of k) c f d = d || dead_step (Node k i c ch, f).
Proof.
  cbn [spec_of kdead dead_step kind ncond]. destruct (N.eqb k kif); cbn [andb].
  - reflexivity.
  - now rewrite orb_false_r.
Qed.

Lemma flat_map_map {A B C} (g : B -> list C) (h : A -> B) l : flat_map g (map h l) = flat_map (fun a => g (h a)) l.
Proof. induction l as [|a l IH]; cbn; [reflexivity|]. now rewrite IH. Qed.

(* closed form of the specified event sequence: one event per tagged node, in pre-order, each carrying
   what its path from the root determines *)
Theorem events_by_context : forall n d cf stk,
  events spec_of n d cf stk = flat_map (emit d cf stk) (ctx_preorder n).
Proof.
  induction n as [k i c ch IH] using node_ind'. intros d cf stk.
  rewrite events_eq, ctx_preorder_eq. cbn [flat_map children]. f_equal.
  - unfold own_event, emit. cbn [snd fst kind nid spec_of ktag dead_of existsb func_of fold_left path_of map app].
    now rewrite orb_false_r.
  - rewrite flat_map_flat_map. unfold child_events. apply flat_map_ext_in'. intros [f x] Hin. cbn [fst snd].
    rewrite Forall_forall in IH. rewrite (IH _ Hin). cbn [snd].
    rewrite flat_map_map. apply flat_map_ext. intros [steps y]. unfold emit. cbn [fst snd].
    destruct (tag_of (kind y)); [|reflexivity].
    rewrite (kdead_step k i c ch).
    replace (d || dead_of ((Node k i c ch, f) :: steps)) with (d || dead_step (Node k i c ch, f) || dead_of steps)
      by (cbn [dead_of existsb]; now rewrite orb_assoc).
    replace (stk ++ path_of ((Node k i c ch, f) :: steps) ++ [nid y]) with ((stk ++ [i]) ++ path_of steps ++ [nid y])
      by (cbn [path_of map fst nid]; now rewrite <- app_assoc).
    reflexivity.
Qed.

(* ---------- C01: exactly the tagged nodes, in source order, each once ---------- *)
Definition offer (x : node) : list (N * N) :=
  match tag_of (kind x) with Some t => [(nid x, t)] | None => [] end.
Definition offered (n : node) : list (N * N) := flat_map offer (preorder n).

Theorem events_offered n d cf stk :
  map (fun e => (e_id e, e_tag e)) (events spec_of n d cf stk) = offered n.
Proof.
  rewrite events_by_context. unfold offered. rewrite <- ctx_preorder_nodes, flat_map_map.
  induction (ctx_preorder n) as [|q l IHl]; [reflexivity|]. cbn [flat_map]. rewrite map_app, IHl. f_equal.
  unfold emit, offer. destruct (tag_of (kind (snd q))); reflexivity.
Qed.

Lemma offered_complete n x t : In x (preorder n) -> tag_of (kind x) = Some t -> In (nid x, t) (offered n).
Proof. intros Hin Ht. unfold offered. apply in_flat_map. exists x. split; [exact Hin|]. unfold offer. rewrite Ht. now left. Qed.

Lemma offered_sound n i t : In (i, t) (offered n) -> exists x, In x (preorder n) /\ nid x = i /\ tag_of (kind x) = Some t.
Proof.
  unfold offered. intros H. apply in_flat_map in H as (x & Hx & Ho). exists x. split; [exact Hx|].
  unfold offer in Ho. destruct (tag_of (kind x)); [|destruct Ho]. destruct Ho as [Ho|[]]. now inversion Ho.
Qed.

Lemma offered_nodup n : NoDup (map nid (preorder n)) -> NoDup (map fst (offered n)).
Proof.
  unfold offered. induction (preorder n) as [|x l IHl]; intros Hnd; [constructor|].
  cbn [map] in Hnd. inversion Hnd as [|? ? Hnotin Hnd']; subst. cbn [flat_map]. rewrite map_app.
  unfold offer at 1. destruct (tag_of (kind x)); [|now apply IHl]. cbn [map fst app]. constructor; [|now apply IHl].
  intros Hin. apply Hnotin. apply in_map_iff in Hin as ([i t] & Heq & Hin). cbn [fst] in Heq. subst i.
  apply in_flat_map in Hin as (y & Hy & Ho). unfold offer in Ho. destruct (tag_of (kind y)); [|destruct Ho].
  destruct Ho as [Ho|[]]. inversion Ho. apply in_map_iff. exists y. auto.
Qed.

(* ---------- C16 / C09: the flag, function and path of every visit are those of its position ---------- *)
Theorem event_iff_reach n d cf stk e :
  In e (events spec_of n d cf stk) <->
  exists steps x t, reach n steps x /\ tag_of (kind x) = Some t /\
    e = {| e_id := nid x; e_tag := t; e_dead := d || dead_of steps; e_func := func_of steps cf;
           e_path := stk ++ path_of steps ++ [nid x] |}.
Proof.
  rewrite events_by_context, in_flat_map. split.
  - intros ([steps x] & Hin & He). apply ctx_preorder_reach in Hin. unfold emit in He. cbn [fst snd] in He.
    destruct (tag_of (kind x)) as [t|] eqn:Ht; [|destruct He]. destruct He as [He|[]]. exists steps, x, t. auto.
  - intros (steps & x & t & Hr & Ht & He). exists (steps, x). split; [now apply ctx_preorder_reach|].
    unfold emit. cbn [fst snd]. rewrite Ht. now left.
Qed.

(* the property's own wording: some enclosing `if` has a constant condition and the node lies in its Body
   with the constant false, or in its Else with the constant true *)
Lemma dead_of_iff steps :
  dead_of steps = true <->
  exists a f, In (a, f) steps /\ kind a = kif /\
    ((f = fbody /\ ncond a = Some false) \/ (f = felse /\ ncond a = Some true)).
Proof.
  unfold dead_of. rewrite existsb_exists. split.
  - intros ([a f] & Hin & H). exists a, f. split; [exact Hin|]. cbn [dead_step] in H.
    apply andb_prop in H as [Hk H]. apply N.eqb_eq in Hk. split; [exact Hk|].
    apply orb_prop in H as [H|H]; apply andb_prop in H as [Hf Hc]; apply N.eqb_eq in Hf.
    + left. split; [exact Hf|]. destruct (ncond a) as [[|]|]; congruence.
    + right. split; [exact Hf|]. destruct (ncond a) as [[|]|]; congruence.
  - intros (a & f & Hin & Hk & H). exists (a, f). split; [exact Hin|]. cbn [dead_step].
    rewrite Hk, N.eqb_refl. cbn [andb]. destruct H as [[Hf Hc]|[Hf Hc]]; rewrite Hf, Hc, N.eqb_refl; cbn [andb].
    + reflexivity.
    + apply orb_true_r.
Qed.

(* the innermost enclosing FuncDecl *)
Lemma func_of_app steps s cf :
  func_of (steps ++ [s]) cf = if N.eqb (kind (fst s)) kfd then Some (nid (fst s)) else func_of steps cf.
Proof. unfold func_of. now rewrite fold_left_app. Qed.

Lemma func_of_none steps cf :
  (forall s, In s steps -> N.eqb (kind (fst s)) kfd = false) -> func_of steps cf = cf.
Proof.
  revert cf. induction steps as [|s l IH]; intros cf H; [reflexivity|]. cbn [func_of fold_left].
  rewrite (H s (or_introl eq_refl)). apply IH. intros; apply H; now right.
Qed.

Lemma func_of_last steps1 s steps2 cf :
  N.eqb (kind (fst s)) kfd = true -> (forall s', In s' steps2 -> N.eqb (kind (fst s')) kfd = false) ->
  func_of (steps1 ++ s :: steps2) cf = Some (nid (fst s)).
Proof.
  intros Hs H2. unfold func_of. rewrite fold_left_app. cbn [fold_left]. rewrite Hs. now apply func_of_none.
Qed.
End Spec.

(* lifting a finite table check to the universally quantified hypothesis of [walk_correct] *)
Section Lift.
Variable AF : nat.
Variable fr : frame.
Variable table : N -> list act.
Variable S : N -> kspec.
Variable kinds : list N.
Variable dflt : kspec.
Hypothesis Hkinds : forallb (fun k => kind_ok AF fr (table k) (S k)) kinds = true.
Hypothesis Hdflt : kind_ok AF fr [] dflt = true.
Hypothesis Houtside : forall k, ~ In k kinds -> table k = [] /\ S k = dflt.

Lemma table_ok_all : forall k, kind_ok AF fr (table k) (S k) = true.
Proof.
  intros k. destruct (in_dec N.eq_dec k kinds) as [Hin|Hout].
  - rewrite forallb_forall in Hkinds. now apply Hkinds.
  - destruct (Houtside k Hout) as [Ht Hs]. now rewrite Ht, Hs.
Qed.
End Lift.
