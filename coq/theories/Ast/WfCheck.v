(* Boolean checker for [wf] (used to validate the generated schema against trees produced by go/parser and
   serialised in ast.Inspect order, and to exhibit well-formed trees). *)
From Coq Require Import List NArith Lia Bool Arith.
From RG.Ast Require Import Tree Walker WalkerProof.
Import ListNotations.

Fixpoint drop_eq (f : N) (gs : list N) : list N :=
  match gs with g :: gs' => if N.eqb g f then drop_eq f gs' else gs | [] => [] end.

(* the field tags gs form blocks that follow the order of fs *)
Fixpoint ordered (fs gs : list N) : bool :=
  match fs with
  | [] => match gs with [] => true | _ => false end
  | f :: fs' => ordered fs' (drop_eq f gs)
  end.

Fixpoint nodupb (l : list N) : bool :=
  match l with [] => true | x :: l' => negb (existsb (N.eqb x) l') && nodupb l' end.

Lemma nodupb_NoDup l : nodupb l = true -> NoDup l.
Proof.
  induction l as [|x l IH]; cbn; intros H; [constructor|]. apply andb_prop in H as [H1 H2]. constructor; [|auto].
  intros Hin. apply negb_true_iff in H1. assert (existsb (N.eqb x) l = true); [|congruence].
  apply existsb_exists. exists x. split; [exact Hin|apply N.eqb_refl].
Qed.

Lemma ordered_in fs : forall gs, ordered fs gs = true -> forall g, In g gs -> In g fs.
Proof.
  induction fs as [|f fs IH]; intros gs H g Hin.
  - destruct gs; [destruct Hin|discriminate].
  - cbn [ordered] in H. induction gs as [|g0 gs IHg]; [destruct Hin|].
    cbn [drop_eq] in H. destruct (N.eqb_spec g0 f).
    + destruct Hin as [->|Hin]; [now left|]. now apply IHg.
    + right. eapply IH; eassumption.
Qed.

Section Grouped.
Variable S : N -> kspec.

Lemma filter_none (f : N) (l : list (N * node)) :
  (forall p, In p l -> fst p <> f) -> filter (fun p => N.eqb (fst p) f) l = [].
Proof.
  induction l as [|p l IH]; intros H; [reflexivity|]. cbn [filter].
  destruct (N.eqb_spec (fst p) f) as [e|_]; [exfalso; exact (H p (or_introl eq_refl) e)|].
  apply IH. intros; apply H; now right.
Qed.

Lemma ordered_grouped fs : forall ch, NoDup fs -> ordered fs (map fst ch) = true -> grouped fs ch.
Proof.
  unfold grouped. induction fs as [|f fs IH]; intros ch Hnd H.
  - destruct ch; [reflexivity|discriminate].
  - inversion Hnd as [|? ? Hnotin Hnd']; subst. cbn [ordered] in H. cbn [flat_map].
    induction ch as [|[g x] ch IHc].
    + cbn [filter app]. cbn [map drop_eq] in H. apply (IH [] Hnd') in H. exact H.
    + cbn [map fst drop_eq] in H.
      set (rest := flat_map (fun f' => filter (fun p => N.eqb (fst p) f') ((g, x) :: ch)) fs).
      cbn [filter fst]. destruct (N.eqb_spec g f) as [->|Hne]; subst rest.
      * cbn [app]. f_equal.
        specialize (IHc H).
        (* the other fields never select (f, x) *)
        assert (Hskip : forall fs', ~ In f fs' ->
                  flat_map (fun f' => filter (fun p => N.eqb (fst p) f') ((f, x) :: ch)) fs' =
                  flat_map (fun f' => filter (fun p => N.eqb (fst p) f') ch) fs').
        { induction fs' as [|f' fs' IH']; intros Hn; [reflexivity|]. cbn [flat_map].
          rewrite IH' by (intros Hin; apply Hn; now right). f_equal.
          cbn [filter fst]. destruct (N.eqb_spec f f') as [->|_]; [exfalso; apply Hn; now left|reflexivity]. }
        rewrite Hskip by assumption. exact IHc.
      * (* g <> f: nothing in the rest carries f, and the rest is grouped by fs *)
        pose proof (IH ((g, x) :: ch) Hnd' H) as Hrest.
        assert (Hnone : filter (fun p => N.eqb (fst p) f) ch = []).
        { apply filter_none. intros p Hp Heq. apply Hnotin.
          apply (ordered_in fs _ H). cbn [map fst]. right. rewrite <- Heq. now apply in_map. }
        rewrite Hnone. cbn [app]. exact Hrest.
Qed.

Fixpoint silentb (n : node) : bool :=
  match n with Node k _ _ ch =>
    match ktag (S k) with None => true | Some _ => false end &&
    (fix all (l : list (N * node)) : bool := match l with [] => true | (_, x) :: l' => silentb x && all l' end) ch
  end.

Lemma silentb_sound n : silentb n = true -> silent S n.
Proof.
  induction n as [k i c ch IH] using node_ind'. cbn [silentb silent]. intros H. apply andb_prop in H as [Ht Hch].
  split; [destruct (ktag (S k)); [discriminate|reflexivity]|].
  induction ch as [|[g x] l IHl]; [exact I|]. inversion IH as [|? ? Hx Hl]; subst.
  apply andb_prop in Hch as [H1 H2]. split; [now apply Hx|now apply IHl].
Qed.

Fixpoint wfb (n : node) : bool :=
  match n with Node k _ _ ch =>
    nodupb (map fst (kfields (S k))) && ordered (map fst (kfields (S k))) (map fst ch) &&
    (fix all (l : list (N * node)) : bool :=
       match l with [] => true | (f, x) :: l' => wfb x && (if inert_in (S k) f then silentb x else true) && all l' end) ch
  end.

Theorem wfb_sound n : wfb n = true -> wf S n.
Proof.
  induction n as [k i c ch IH] using node_ind'. cbn [wfb wf]. intros H.
  apply andb_prop in H as [H Hch]. apply andb_prop in H as [Hnd Hord]. split.
  - apply ordered_grouped; [now apply nodupb_NoDup|exact Hord].
  - clear Hord. induction ch as [|[g x] l IHl]; [exact I|]. inversion IH as [|? ? Hx Hl]; subst.
    apply andb_prop in Hch as [H1 H3]. apply andb_prop in H1 as [H1 H2]. cbn [snd] in Hx. split; [split|now apply IHl].
    + now apply Hx.
    + intros Hi. rewrite Hi in H2. now apply silentb_sound.
Qed.
End Grouped.
