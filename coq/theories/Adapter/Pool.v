(* C19: the pool of RunnerStates. With the cached engine every pass takes a RunnerState (a pointer) from
   runnerStatePool, runs all its files with it and gives it back. A RunnerState must not be used by two runs at a time
   (C08 proves what a run needs from its state); passes run in parallel, so what keeps them apart is the adapter's
   discipline: the state goes back to the pool when the pass is over -- a deferred Put -- and not before.
   Model: the pool (sync.Pool may hand out any pooled value, or none, and may forget values at any time), the passes in
   progress with the state each holds, and the events of ANY interleaving of passes. Theorem: with the deferred Put no
   two passes in progress ever hold the same state and no state in use is in the pool; the example shows that a Put
   right after the Get loses that. Which discipline the adapter follows is regenerated from runAnalyzer. *)
From Coq Require Import List Arith Lia Bool Permutation.
Import ListNotations.

Record pstate := { ps_pool : list nat; ps_active : list (nat * nat) (* pass, state *); ps_next : nat }.
Definition p_init : pstate := {| ps_pool := []; ps_active := []; ps_next := 0 |}.

Inductive pev :=
| PBegin (pass : nat) (pick : option nat)   (* Get: the pick-th pooled state, or a new one (Pool.New) *)
| PEnd (k : nat)                            (* the k-th pass in progress returns: its deferred functions run *)
| PDrop (k : nat).                          (* sync.Pool forgets the k-th pooled state *)

Inductive discipline := PutAtEnd | PutAtOnce.

Fixpoint remove_nth {A} (k : nat) (l : list A) : list A :=
  match l, k with
  | [], _ => []
  | _ :: r, O => r
  | x :: r, S k' => x :: remove_nth k' r
  end.

Definition take (s : pstate) (pick : option nat) : nat * list nat * nat :=
  match pick with
  | Some k => match nth_error (ps_pool s) k with
              | Some st => (st, remove_nth k (ps_pool s), ps_next s)
              | None => (ps_next s, ps_pool s, S (ps_next s))
              end
  | None => (ps_next s, ps_pool s, S (ps_next s))
  end.

Definition pstep (d : discipline) (s : pstate) (e : pev) : pstate :=
  match e with
  | PBegin p pick =>
      let '(st, pool', next') := take s pick in
      {| ps_pool := match d with PutAtEnd => pool' | PutAtOnce => st :: pool' end;
         ps_active := (p, st) :: ps_active s; ps_next := next' |}
  | PEnd k =>
      match nth_error (ps_active s) k with
      | Some (_, st) =>
          {| ps_pool := match d with PutAtEnd => st :: ps_pool s | PutAtOnce => ps_pool s end;
             ps_active := remove_nth k (ps_active s); ps_next := ps_next s |}
      | None => s
      end
  | PDrop k => {| ps_pool := remove_nth k (ps_pool s); ps_active := ps_active s; ps_next := ps_next s |}
  end.

Definition prun (d : discipline) (evs : list pev) : pstate := fold_left (pstep d) evs p_init.

Definition held (s : pstate) : list nat := map snd (ps_active s).
Definition all_states (s : pstate) : list nat := held s ++ ps_pool s.

(* ------------------------------------------------------------------ lemmas *)
Lemma remove_nth_none {A} (l : list A) : forall k, nth_error l k = None -> remove_nth k l = l.
Proof.
  induction l as [|x l IH]; intros [|k] H; cbn in *; try reflexivity; try discriminate.
  f_equal. now apply IH.
Qed.

Lemma remove_nth_perm {A} (l : list A) : forall k x, nth_error l k = Some x -> Permutation l (x :: remove_nth k l).
Proof.
  induction l as [|y l IH]; intros [|k] x H; cbn in *; try discriminate.
  - inversion H; subst. apply Permutation_refl.
  - apply IH in H. eapply perm_trans; [apply perm_skip; exact H|apply perm_swap].
Qed.

Lemma remove_nth_map {A B} (f : A -> B) (l : list A) : forall k, map f (remove_nth k l) = remove_nth k (map f l).
Proof. induction l as [|x l IH]; intros [|k]; cbn; try reflexivity. now rewrite IH. Qed.

Definition pool_inv (s : pstate) : Prop :=
  NoDup (all_states s) /\ Forall (fun x => x < ps_next s) (all_states s).

Lemma pool_inv_init : pool_inv p_init.
Proof. split; constructor. Qed.

Lemma forall_lt_weaken l n : Forall (fun x => x < n) l -> Forall (fun x => x < S n) l.
Proof. intros H. eapply Forall_impl; [|exact H]. cbn. intros; lia. Qed.

Lemma fresh_not_in l n : Forall (fun x => x < n) l -> ~ In n l.
Proof. intros H Hin. rewrite Forall_forall in H. specialize (H _ Hin). lia. Qed.

Lemma pool_inv_step s e : pool_inv s -> pool_inv (pstep PutAtEnd s e).
Proof.
  intros [Hnd Hlt]. destruct e as [p pick|k|k]; cbn [pstep].
  - (* Begin *)
    assert (Hnew : pool_inv {| ps_pool := ps_pool s; ps_active := (p, ps_next s) :: ps_active s; ps_next := S (ps_next s) |}).
    { split; unfold all_states, held in *; cbn [ps_pool ps_active ps_next map snd app].
      - constructor; [now apply fresh_not_in|exact Hnd].
      - constructor; [lia|now apply forall_lt_weaken]. }
    unfold take. destruct pick as [k|]; [|exact Hnew].
    destruct (nth_error (ps_pool s) k) as [st|] eqn:E; [|exact Hnew].
    assert (P : Permutation (all_states s) (st :: held s ++ remove_nth k (ps_pool s))).
    { unfold all_states. eapply perm_trans; [apply Permutation_app_head; apply (remove_nth_perm _ _ _ E)|].
      apply Permutation_sym. apply Permutation_middle. }
    split; unfold all_states, held; cbn [ps_pool ps_active ps_next map snd app].
    + eapply Permutation_NoDup; [exact P|exact Hnd].
    + eapply Permutation_Forall; [exact P|exact Hlt].
  - (* End *)
    destruct (nth_error (ps_active s) k) as [[p st]|] eqn:E; [|split; assumption].
    assert (E' : nth_error (held s) k = Some st).
    { unfold held. rewrite nth_error_map, E. reflexivity. }
    assert (P : Permutation (all_states s) (remove_nth k (held s) ++ st :: ps_pool s)).
    { unfold all_states. eapply perm_trans; [apply Permutation_app_tail; apply (remove_nth_perm _ _ _ E')|].
      cbn [app]. apply Permutation_middle. }
    split; unfold all_states, held; cbn [ps_pool ps_active ps_next]; rewrite remove_nth_map.
    + eapply Permutation_NoDup; [exact P|exact Hnd].
    + eapply Permutation_Forall; [exact P|exact Hlt].
  - (* Drop *)
    destruct (nth_error (ps_pool s) k) as [st|] eqn:E.
    + assert (P : Permutation (all_states s) (st :: held s ++ remove_nth k (ps_pool s))).
      { unfold all_states. eapply perm_trans; [apply Permutation_app_head; apply (remove_nth_perm _ _ _ E)|].
        apply Permutation_sym. apply Permutation_middle. }
      split; unfold all_states, held; cbn [ps_pool ps_active ps_next].
      * pose proof (Permutation_NoDup P Hnd) as H. now inversion H.
      * pose proof (Permutation_Forall P Hlt) as H. now inversion H.
    + split; unfold all_states, held; cbn [ps_pool ps_active ps_next]; rewrite (remove_nth_none _ _ E); assumption.
Qed.

Lemma nodup_app_l {A} (a b : list A) : NoDup (a ++ b) -> NoDup a.
Proof.
  induction a as [|x a IH]; intros H; [constructor|]. cbn [app] in H. inversion H as [|? ? Hx Hr]; subst.
  constructor; [|now apply IH]. intros Hin. apply Hx. apply in_or_app. now left.
Qed.

Lemma nodup_app_disjoint {A} (a b : list A) : NoDup (a ++ b) -> forall x, In x a -> ~ In x b.
Proof.
  induction a as [|y a IH]; intros Hnd x Hin Hp; [contradiction|].
  cbn [app] in Hnd. apply NoDup_cons_iff in Hnd. destruct Hnd as [Hy Hrest]. destruct Hin as [E|Hin].
  - subst y. apply Hy. apply in_or_app. now right.
  - exact (IH Hrest x Hin Hp).
Qed.

Lemma pool_inv_run evs : forall s, pool_inv s -> pool_inv (fold_left (pstep PutAtEnd) evs s).
Proof. induction evs as [|e evs IH]; intros s H; [exact H|]. cbn [fold_left]. apply IH. now apply pool_inv_step. Qed.

(* Under ANY interleaving of passes (any choices of the pool, any forgetting): with the deferred Put no RunnerState is
   held by two passes in progress, and none that is held can be handed out again. *)
Theorem states_exclusive evs :
  let s := prun PutAtEnd evs in
  NoDup (held s) /\ (forall st, In st (held s) -> ~ In st (ps_pool s)).
Proof.
  cbn zeta. destruct (pool_inv_run evs p_init pool_inv_init) as [Hnd _]. unfold all_states in Hnd. split.
  - exact (nodup_app_l _ _ Hnd).
  - intros st Hin. exact (nodup_app_disjoint _ _ Hnd st Hin).
Qed.

(* a Put right after the Get: the second pass is handed the state the first one is still running with *)
Example put_at_once_shares_a_state :
  held (prun PutAtOnce [PBegin 0 None; PBegin 1 (Some 0)]) = [0; 0].
Proof. reflexivity. Qed.

(* ------------------------------------------------------------------ what is regenerated from runAnalyzer *)
(* the statements of the `if runnerStatePool.New != nil { ... }` block, in order *)
Inductive pool_stmt :=
| PSGet            (* state := runnerStatePool.Get(), asserted to a RunnerState pointer *)
| PSSetState       (* ctx.State = state           -- the state that was taken *)
| PSDeferPut       (* defer runnerStatePool.Put(state) / defer func() { runnerStatePool.Put(state) }() *)
| PSPutNow         (* runnerStatePool.Put(state) as a plain statement *)
| PSOther.

Definition pool_stmt_eqb (a b : pool_stmt) : bool :=
  match a, b with
  | PSGet, PSGet | PSSetState, PSSetState | PSDeferPut, PSDeferPut | PSPutNow, PSPutNow | PSOther, PSOther => true
  | _, _ => false
  end.

Fixpoint pool_stmts_eqb (a b : list pool_stmt) : bool :=
  match a, b with
  | [], [] => true
  | x :: a', y :: b' => pool_stmt_eqb x y && pool_stmts_eqb a' b'
  | _, _ => false
  end.

(* the discipline a block follows: the deferred Put is the only Put, after the Get and the assignment *)
Definition discipline_of (block : list pool_stmt) : discipline :=
  if pool_stmts_eqb block [PSGet; PSSetState; PSDeferPut] then PutAtEnd else PutAtOnce.

Theorem block_keeps_states_exclusive block evs :
  discipline_of block = PutAtEnd ->
  let s := prun (discipline_of block) evs in
  NoDup (held s) /\ (forall st, In st (held s) -> ~ In st (ps_pool s)).
Proof. intros ->. apply states_exclusive. Qed.
