(* C19: newEngine's tail -- which rules text reaches Engine.Load, in which order, under which file name, and what is
   returned when something fails. go2coq regenerates the statements after the LoadContext (the `switch` over -rules / -e)
   as a Gallina function over two oracles: the file system (os.ReadFile) and the engine (Engine.Load with the adapter's
   LoadContext). This file holds the combinators the regenerated code uses, the specification and its theorems. *)
From Coq Require Import List ZArith Lia Bool.
From RG.Base Require Import Outcome GoSlice.
From RG.Adapter Require Import Str Model.
Import ListNotations.
Local Open Scope Z_scope.

(* what was handed to Engine.Load so far: (file name, text), in order *)
Definition loads := list (bytes * bytes).

Inductive ne_result :=
| NEDone (l : loads)                      (* return e, nil *)
| NEFail (l : loads) (msg : bytes).       (* return nil, err -- after these loads *)

Inductive ne_step := NENext (l : loads) | NEStop (r : ne_result).

(* `for _, x := range xs { body }` with early return, the loads threaded through *)
Fixpoint ne_for (body : loads -> bytes -> outcome ne_step) (xs : list bytes) (l : loads)
         (k : loads -> outcome ne_result) : outcome ne_result :=
  match xs with
  | [] => k l
  | x :: xs' => bind (body l x) (fun s => match s with
                                          | NENext l' => ne_for body xs' l' k
                                          | NEStop r => Ok r
                                          end)
  end.

Section Spec.
Variable read_file : bytes -> bytes + bytes.              (* os.ReadFile: contents | error text *)
Variable load : loads -> bytes -> bytes -> option bytes.  (* Engine.Load(ctx, name, text) after these loads: error text *)

Definition read_err : bytes := [114;101;97;100;32;114;117;108;101;115;32;102;105;108;101;58;32].      (* "read rules file: " *)
Definition parse_err : bytes := [112;97;114;115;101;32;114;117;108;101;115;32;102;105;108;101;58;32]. (* "parse rules file: " *)
Definition both_empty : bytes :=   (* "both -e and -rules flags are empty" *)
  [98;111;116;104;32;45;101;32;97;110;100;32;45;114;117;108;101;115;32;102;108;97;103;115;32;97;114;101;32;101;109;112;116;121].
Definition e_name : bytes := [101].   (* "e" *)

(* every named file, in order: read it, load it under the name it was read from; the first failure ends it *)
Fixpoint load_all (files : list bytes) (l : loads) : ne_result :=
  match files with
  | [] => NEDone l
  | f :: fs => match read_file f with
               | inr e => NEFail l (read_err ++ e)
               | inl d => match load l f d with
                          | Some e => NEFail l (parse_err ++ e)
                          | None => load_all fs (l ++ [(f, d)])
                          end
               end
  end.

(* the -e rule: `package gorules / import dsl / func e(m dsl.Matcher) { <flagE>.Report("$$") }` *)
Variable e_text : bytes -> bytes.

Definition new_engine_spec (flagRules flagE : bytes) : ne_result :=
  if negb (bytes_eqb flagRules []) then load_all (names_of flagRules) []
  else if negb (bytes_eqb flagE []) then
         match load [] e_name (e_text flagE) with
         | Some e => NEFail [] e                       (* the engine's error, as it is *)
         | None => NEDone [(e_name, e_text flagE)]
         end
       else NEFail [] both_empty.

(* ---- theorems about the specification *)
Definition all_fine (files : list bytes) : Prop :=
  forall f, In f files -> exists d, read_file f = inl d /\ forall l, load l f d = None.

Definition contents (f : bytes) : bytes := match read_file f with inl d => d | inr _ => [] end.

Lemma load_all_fine files l :
  all_fine files -> load_all files l = NEDone (l ++ map (fun f => (f, contents f)) files).
Proof.
  revert l; induction files as [|f fs IH]; intros l H; cbn [load_all map].
  - now rewrite app_nil_r.
  - destruct (H f (or_introl eq_refl)) as (d & Hr & Hl). unfold contents at 1. rewrite Hr, Hl.
    rewrite IH; [|intros g Hg; apply H; now right]. now rewrite <- app_assoc.
Qed.

(* -rules: every named file is read and loaded exactly once, in the order of the flag, under its trimmed name *)
Theorem rules_files_loaded_once_in_order flagRules flagE :
  flagRules <> [] -> all_fine (names_of flagRules) ->
  new_engine_spec flagRules flagE = NEDone (map (fun f => (f, contents f)) (names_of flagRules)).
Proof.
  intros Hne Hf. unfold new_engine_spec.
  destruct (bytes_eqb flagRules []) eqn:E; [apply bytes_eqb_eq in E; contradiction|].
  cbn [negb]. now rewrite load_all_fine.
Qed.

(* a failure: the files before the failing one were loaded, nothing after it was touched, the message names the stage *)
Lemma load_all_fail files l l' msg :
  load_all files l = NEFail l' msg ->
  exists before f after, files = before ++ f :: after
    /\ l' = l ++ map (fun g => (g, contents g)) before
    /\ ((exists e, read_file f = inr e /\ msg = read_err ++ e) \/
        (exists d e, read_file f = inl d /\ load l' f d = Some e /\ msg = parse_err ++ e)).
Proof.
  revert l; induction files as [|f fs IH]; intros l H; cbn [load_all] in H; [discriminate|].
  destruct (read_file f) as [d|e] eqn:Hr.
  - destruct (load l f d) as [e|] eqn:Hl.
    + inversion H; subst. exists [], f, fs. cbn [app map]. rewrite app_nil_r. repeat split; auto.
      right. exists d, e. auto.
    + destruct (IH _ H) as (before & g & after & -> & -> & Hcase).
      exists (f :: before), g, after. split; [reflexivity|]. split; [|exact Hcase].
      cbn [map]. unfold contents. rewrite Hr. now rewrite <- app_assoc.
  - inversion H; subst. exists [], f, fs. cbn [app map]. rewrite app_nil_r. repeat split; auto.
    left. exists e. auto.
Qed.

Theorem rules_first_failure_ends_the_load flagRules flagE l msg :
  flagRules <> [] -> new_engine_spec flagRules flagE = NEFail l msg ->
  exists before f after, names_of flagRules = before ++ f :: after
    /\ l = map (fun g => (g, contents g)) before
    /\ ((exists e, read_file f = inr e /\ msg = read_err ++ e) \/
        (exists d e, read_file f = inl d /\ load l f d = Some e /\ msg = parse_err ++ e)).
Proof.
  intros Hne H. unfold new_engine_spec in H.
  destruct (bytes_eqb flagRules []) eqn:E; [apply bytes_eqb_eq in E; contradiction|].
  cbn [negb] in H. destruct (load_all_fail _ _ _ _ H) as (b & f & a & H1 & H2 & H3). exists b, f, a. auto.
Qed.

(* -rules wins over -e; -e alone loads one text under the name "e"; neither is an error *)
Theorem rules_take_precedence flagRules flagE flagE' :
  flagRules <> [] -> new_engine_spec flagRules flagE = new_engine_spec flagRules flagE'.
Proof.
  intros Hne. unfold new_engine_spec.
  destruct (bytes_eqb flagRules []) eqn:E; [apply bytes_eqb_eq in E; contradiction|]. reflexivity.
Qed.

Theorem e_rule_loaded_alone flagE :
  flagE <> [] -> load [] e_name (e_text flagE) = None -> new_engine_spec [] flagE = NEDone [(e_name, e_text flagE)].
Proof.
  intros Hne Hl. unfold new_engine_spec. cbn [bytes_eqb negb].
  destruct (bytes_eqb flagE []) eqn:E; [apply bytes_eqb_eq in E; contradiction|]. cbn [negb]. now rewrite Hl.
Qed.

Theorem no_flags_is_an_error : new_engine_spec [] [] = NEFail [] both_empty.
Proof. reflexivity. Qed.
End Spec.

(* ---- the shape of the -e rules text, up to white space *)
Definition is_ws (c : Z) : bool := (c =? 32) || (c =? 9) || (c =? 10) || (c =? 13).

(* runs of white space become one blank; none at the ends *)
Fixpoint ws_squash (pending : bool) (started : bool) (s : bytes) : bytes :=
  match s with
  | [] => []
  | c :: r => if is_ws c then ws_squash started started r
              else (if pending then [32] else []) ++ c :: ws_squash false true r
  end.
Definition ws_norm (s : bytes) : bytes := ws_squash false false s.

(* `package gorules import "github.com/quasilyte/go-ruleguard/dsl" func e(m dsl.Matcher) {` *)
Definition e_head_norm : bytes :=
  [112;97;99;107;97;103;101;32;103;111;114;117;108;101;115;32;105;109;112;111;114;116;32;34;103;105;116;104;117;98;46;99;111;109;47;113;117;97;115;105;108;121;116;101;47;103;111;45;114;117;108;101;103;117;97;114;100;47;100;115;108;34;32;102;117;110;99;32;101;40;109;32;100;115;108;46;77;97;116;99;104;101;114;41;32;123].
(* `.Report("$$") }` *)
Definition e_tail_norm : bytes := [46;82;101;112;111;114;116;40;34;36;36;34;41;32;125].

(* the text is head ++ flagE ++ tail where head/tail are, up to white space, the fixed frame: the expression given on the
   command line is used verbatim and `.Report("$$")` is chained to it *)
Definition e_text_ok (e_text : bytes -> bytes) : Prop :=
  exists head tail, (forall flagE, e_text flagE = head ++ flagE ++ tail)
    /\ ws_norm head = e_head_norm /\ ws_norm tail = e_tail_norm.

(* what prepareEngine sees of newEngine *)
Definition ne_load_outcome (r : ne_result) (e : N) : load_outcome :=
  match r with NEDone _ => LoadOk e | NEFail _ m => LoadErr m end.

(* ---- what runAnalyzer hands to the engine: the fields of the RunContext literal (regenerated as source text, a local
   name replaced by the expression that defines it) must forward the pass's package, type information, sizes and file set,
   and the Go version parsed from -go *)
Definition expected_run_context : list (bytes * bytes) :=
  [([80; 107; 103], [112; 97; 115; 115; 46; 80; 107; 103])  (* Pkg: pass.Pkg *);
   ([84; 121; 112; 101; 115], [112; 97; 115; 115; 46; 84; 121; 112; 101; 115; 73; 110; 102; 111])  (* Types: pass.TypesInfo *);
   ([83; 105; 122; 101; 115], [112; 97; 115; 115; 46; 84; 121; 112; 101; 115; 83; 105; 122; 101; 115])  (* Sizes: pass.TypesSizes *);
   ([70; 115; 101; 116], [112; 97; 115; 115; 46; 70; 115; 101; 116])  (* Fset: pass.Fset *);
   ([71; 111; 86; 101; 114; 115; 105; 111; 110], [114; 117; 108; 101; 103; 117; 97; 114; 100; 46; 80; 97; 114; 115; 101; 71; 111; 86; 101; 114; 115; 105; 111; 110; 40; 102; 108; 97; 103; 71; 111; 86; 101; 114; 115; 105; 111; 110; 41])  (* GoVersion: ruleguard.ParseGoVersion(flagGoVersion) *)].

Definition run_context_ok (g : list (bytes * bytes)) : bool :=
  forallb (fun kv => existsb (fun kv' => bytes_eqb (fst kv) (fst kv') && bytes_eqb (snd kv) (snd kv')) g) expected_run_context
  && forallb (fun kv => (List.length (filter (fun kv' => bytes_eqb (fst kv) (fst kv')) g) =? 1)%nat) g.

Example ws_norm_ex : ws_norm [10;9;32;97;32;32;98;10;99;32] = [97;32;98;32;99].
Proof. vm_compute. reflexivity. Qed.
