(* C19: helpers for the correspondence check only (no theorem depends on them): decidable comparison of
   observed and expected pass outputs, and the state sequence of a history. *)
From Coq Require Import List ZArith Bool.
From RG.Base Require Import Outcome GoSlice.
From RG.Adapter Require Import Str Model.
Import ListNotations.
Local Open Scope Z_scope.

Fixpoint list_eqb {A} (eqb : A -> A -> bool) (a b : list A) : bool :=
  match a, b with
  | [], [] => true
  | x :: a', y :: b' => eqb x y && list_eqb eqb a' b'
  | _, _ => false
  end.

Definition edit_eqb (a b : text_edit) : bool :=
  (te_pos a =? te_pos b) && (te_end a =? te_end b) && bytes_eqb (te_new_text a) (te_new_text b).
Definition fix_eqb (a b : suggested_fix) : bool :=
  bytes_eqb (sf_message a) (sf_message b) && list_eqb edit_eqb (sf_text_edits a) (sf_text_edits b).
Definition diag_eqb (a b : diagnostic) : bool :=
  (dg_pos a =? dg_pos b) && (dg_end a =? dg_end b) && bytes_eqb (dg_category a) (dg_category b)
  && bytes_eqb (dg_message a) (dg_message b) && list_eqb fix_eqb (dg_suggested_fixes a) (dg_suggested_fixes b).
Definition output_eqb (a b : pass_output) : bool :=
  match a, b with
  | PErr x, PErr y => bytes_eqb x y
  | PDiags x, PDiags y => list_eqb diag_eqb x y
  | _, _ => false
  end.

Definition gstate_eqb (a b : gstate) : bool :=
  match gs_engine a, gs_engine b with
  | Some x, Some y => N.eqb x y
  | None, None => true
  | _, _ => false
  end && Bool.eqb (gs_errored a) (gs_errored b) && Bool.eqb (gs_pool a) (gs_pool b).

(* outputs and the state after every pass *)
Fixpoint run_passes_st (prep : gstate -> load_outcome -> gstate * prep_result * nat) (cb : bool -> callback)
         (pl : bool) (g : gstate) (ps : list pass_input) : list (pass_output * gstate) :=
  match ps with
  | [] => []
  | p :: rest => let '(g', o) := run_pass prep cb pl g p in (o, g') :: run_passes_st prep cb pl g' rest
  end.

(* indices at which two lists differ (or one is shorter) *)
Fixpoint mismatches_from {A} (eqb : A -> A -> bool) (i : Z) (a b : list A) : list Z :=
  match a, b with
  | [], [] => []
  | x :: a', y :: b' => (if eqb x y then [] else [i]) ++ mismatches_from eqb (i + 1) a' b'
  | _, _ => [i]
  end.
Definition mismatches {A} (eqb : A -> A -> bool) (a b : list A) : list Z := mismatches_from eqb 0 a b.

Definition spec_cb (pl : bool) : callback := fun r => Ok [diag_of_report pl r].
