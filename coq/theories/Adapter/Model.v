(* C19: model of analyzer/analyzer.go -- the go/analysis adapter around the engine.
   Hand-written, repo-independent part: data types mirroring the Go structs, the *specification* of
   the report -> diagnostic mapping, of the -enable/-disable group filter and of the cached engine,
   the semantics of the statement tree that go2coq regenerates from prepareEngine, and the generic
   theorems. Everything that is regenerated from /repo is proved against these in coq/tmpl/C19. *)
From Coq Require Import List ZArith Lia Bool.
From RG.Base Require Import Outcome GoSlice.
From RG.Adapter Require Import Str.
Import ListNotations.
Local Open Scope Z_scope.

(* ================================================================== data (mirrors the Go structs) *)
Record group_info := { g_name : bytes; g_filename : bytes }.
Record rule_info := { ri_line : Z; ri_group : group_info }.
Record suggestion := { s_from : Z; s_to : Z; s_replacement : bytes }.
Record report_data := { rd_rule_info : rule_info; rd_node_pos : Z; rd_message : bytes; rd_suggestion : option suggestion }.

Record text_edit := { te_pos : Z; te_end : Z; te_new_text : bytes }.
Record suggested_fix := { sf_message : bytes; sf_text_edits : list text_edit }.
Record diagnostic := { dg_pos : Z; dg_end : Z; dg_category : bytes; dg_message : bytes; dg_suggested_fixes : list suggested_fix }.

Definition zero_diagnostic : diagnostic := {| dg_pos := 0; dg_end := 0; dg_category := []; dg_message := []; dg_suggested_fixes := [] |}.
Definition zero_fix : suggested_fix := {| sf_message := []; sf_text_edits := [] |}.
Definition zero_edit : text_edit := {| te_pos := 0; te_end := 0; te_new_text := [] |}.

Definition set_dg_pos (d : diagnostic) v := {| dg_pos := v; dg_end := dg_end d; dg_category := dg_category d; dg_message := dg_message d; dg_suggested_fixes := dg_suggested_fixes d |}.
Definition set_dg_end (d : diagnostic) v := {| dg_pos := dg_pos d; dg_end := v; dg_category := dg_category d; dg_message := dg_message d; dg_suggested_fixes := dg_suggested_fixes d |}.
Definition set_dg_category (d : diagnostic) v := {| dg_pos := dg_pos d; dg_end := dg_end d; dg_category := v; dg_message := dg_message d; dg_suggested_fixes := dg_suggested_fixes d |}.
Definition set_dg_message (d : diagnostic) v := {| dg_pos := dg_pos d; dg_end := dg_end d; dg_category := dg_category d; dg_message := v; dg_suggested_fixes := dg_suggested_fixes d |}.
Definition set_dg_suggested_fixes (d : diagnostic) v := {| dg_pos := dg_pos d; dg_end := dg_end d; dg_category := dg_category d; dg_message := dg_message d; dg_suggested_fixes := v |}.
Definition set_sf_message (f : suggested_fix) v := {| sf_message := v; sf_text_edits := sf_text_edits f |}.
Definition set_sf_text_edits (f : suggested_fix) v := {| sf_message := sf_message f; sf_text_edits := v |}.
Definition set_te_pos (e : text_edit) v := {| te_pos := v; te_end := te_end e; te_new_text := te_new_text e |}.
Definition set_te_end (e : text_edit) v := {| te_pos := te_pos e; te_end := v; te_new_text := te_new_text e |}.
Definition set_te_new_text (e : text_edit) v := {| te_pos := te_pos e; te_end := te_end e; te_new_text := v |}.

(* sprintf outside the modelled fragment is a failure of the model, not a value *)
Definition sprintf_o (f : bytes) (args : list farg) : outcome bytes :=
  match sprintf f args with Some r => Ok r | None => Panic PExplicit end.

(* ================================================================== 1. report -> diagnostic: the specification *)
(* "group: message (file:line)" *)
Definition decorated (r : report_data) : bytes :=
  let g := ri_group (rd_rule_info r) in
  g_name g ++ [58; 32] ++ rd_message r ++ [32; 40] ++ path_base (g_filename g) ++ [58] ++ itoa (ri_line (rd_rule_info r)) ++ [41].

Definition fix_message : bytes := [115;117;103;103;101;115;116;101;100;32;114;101;112;108;97;99;101;109;101;110;116]. (* "suggested replacement" *)

Definition diag_of_report (print_loc : bool) (r : report_data) : diagnostic :=
  {| dg_pos := rd_node_pos r;
     dg_end := 0;
     dg_category := [];
     dg_message := if print_loc then decorated r else rd_message r;
     dg_suggested_fixes :=
       match rd_suggestion r with
       | None => []
       | Some s => [ {| sf_message := fix_message;
                        sf_text_edits := [ {| te_pos := s_from s; te_end := s_to s; te_new_text := s_replacement s |} ] |} ]
       end |}.

(* The engine calls RunContext.Report once per report, in order; the pass collects what the callback hands to pass.Report.
   A callback is any function from a report to the list of diagnostics it emits (or a failure). *)
Definition callback := report_data -> outcome (list diagnostic).

Fixpoint relay (cb : callback) (reports : list report_data) : outcome (list diagnostic) :=
  match reports with
  | [] => Ok []
  | r :: rest => bind (cb r) (fun ds => bind (relay cb rest) (fun ds' => Ok (ds ++ ds')))
  end.

Definition callback_ok (cb : callback) (print_loc : bool) : Prop :=
  forall r, cb r = Ok [diag_of_report print_loc r].

(* one diagnostic per report, same order, each the image of its report *)
Theorem relay_one_per_report cb pl reports :
  callback_ok cb pl -> relay cb reports = Ok (map (diag_of_report pl) reports).
Proof.
  intros H. induction reports as [|r rest IH]; [reflexivity|].
  cbn [relay map]. rewrite H. cbn [bind]. rewrite IH. reflexivity.
Qed.

Corollary relay_length cb pl reports ds :
  callback_ok cb pl -> relay cb reports = Ok ds -> length ds = length reports.
Proof. intros H E. rewrite (relay_one_per_report _ _ _ H) in E. inversion E. now rewrite map_length. Qed.

Corollary relay_nth cb pl reports ds i r :
  callback_ok cb pl -> relay cb reports = Ok ds -> nth_error reports i = Some r ->
  nth_error ds i = Some (diag_of_report pl r).
Proof. intros H E Hn. rewrite (relay_one_per_report _ _ _ H) in E. inversion E. now apply map_nth_error. Qed.

(* what a diagnostic carries *)
Lemma diag_position pl r : dg_pos (diag_of_report pl r) = rd_node_pos r.
Proof. reflexivity. Qed.
Lemma diag_message_plain r : dg_message (diag_of_report false r) = rd_message r.
Proof. reflexivity. Qed.
Lemma diag_message_decorated r : dg_message (diag_of_report true r) = decorated r.
Proof. reflexivity. Qed.
Lemma diag_no_suggestion pl r : rd_suggestion r = None -> dg_suggested_fixes (diag_of_report pl r) = [].
Proof. intros H. unfold diag_of_report. cbn. now rewrite H. Qed.
Lemma diag_single_edit pl r s :
  rd_suggestion r = Some s ->
  exists m, dg_suggested_fixes (diag_of_report pl r) =
            [ {| sf_message := m; sf_text_edits := [ {| te_pos := s_from s; te_end := s_to s; te_new_text := s_replacement s |} ] |} ].
Proof. intros H. unfold diag_of_report. cbn. rewrite H. eauto. Qed.

(* ================================================================== 2. -enable / -disable *)
(* Go's map[string]bool as an association list (latest binding first); a missing key reads as false. *)
Definition smap := list (bytes * bool).
Definition mget (m : smap) (k : bytes) : bool :=
  match find (fun kv => bytes_eqb (fst kv) k) m with Some kv => snd kv | None => false end.
Definition mset (m : smap) (k : bytes) (v : bool) : smap := (k, v) :: m.

Definition all_lit : bytes := [60; 97; 108; 108; 62].   (* "<all>" *)
Definition comma : Z := 44.

(* the list of names a flag value denotes *)
Definition names_of (flag : bytes) : list bytes := map trim_space (split_on comma flag).

(* specification of the group filter *)
Definition filter_spec (enable disable name : bytes) : Prop :=
  (enable = all_lit \/ In name (names_of enable)) /\ ~ In name (names_of disable).

Definition filter_specb (enable disable name : bytes) : bool :=
  (bytes_eqb enable all_lit || mem_b name (names_of enable)) && negb (mem_b name (names_of disable)).

Lemma filter_specb_correct enable disable name :
  filter_specb enable disable name = true <-> filter_spec enable disable name.
Proof.
  unfold filter_specb, filter_spec. rewrite andb_true_iff, orb_true_iff, negb_true_iff.
  rewrite bytes_eqb_eq, mem_b_In. split.
  - intros [H1 H2]. split; [assumption|]. intros Hin. apply mem_b_In in Hin. congruence.
  - intros [H1 H2]. split; [assumption|]. destruct (mem_b name (names_of disable)) eqn:E; [|reflexivity].
    apply mem_b_In in E. contradiction.
Qed.

(* a set built by inserting `true` for every element of a list *)
Definition set_of (names : list bytes) : smap := fold_left (fun m g => mset m g true) names [].

Lemma bytes_eqb_sym (a b : bytes) : bytes_eqb a b = bytes_eqb b a.
Proof.
  destruct (bytes_eqb a b) eqn:E; symmetry.
  - apply bytes_eqb_eq in E. subst. apply bytes_eqb_refl.
  - apply bytes_eqb_neq. apply bytes_eqb_neq in E. congruence.
Qed.

Lemma mget_mset m n v k : mget (mset m n v) k = if bytes_eqb k n then v else mget m k.
Proof. unfold mget, mset. cbn [find fst snd]. rewrite (bytes_eqb_sym n k). destruct (bytes_eqb k n); reflexivity. Qed.

Lemma mget_fold_true names m k :
  mget (fold_left (fun m g => mset m g true) names m) k = mem_b k names || mget m k.
Proof.
  revert m; induction names as [|n names IH]; intros m; cbn [fold_left]; [reflexivity|].
  rewrite IH, mget_mset. unfold mem_b. cbn [existsb].
  destruct (bytes_eqb k n); cbn; [now rewrite orb_true_r|reflexivity].
Qed.

Lemma mget_set_of names k : mget (set_of names) k = mem_b k names.
Proof. unfold set_of. rewrite mget_fold_true. cbn. apply orb_false_r. Qed.

(* consequences of the specification that the property text spells out *)
Lemma spec_all_enabled disable name :
  filter_spec all_lit disable name <-> ~ In name (names_of disable).
Proof. unfold filter_spec. intuition. Qed.

Lemma names_of_app a b : names_of (a ++ comma :: b) = names_of a ++ names_of b.
Proof. unfold names_of. rewrite split_on_app. apply map_app. Qed.

(* an additional (e.g. unknown) name in either list changes nothing for any other group *)
Lemma spec_extra_name_enable enable extra disable name :
  enable <> all_lit -> enable ++ comma :: extra <> all_lit -> ~ In name (names_of extra) ->
  (filter_spec (enable ++ comma :: extra) disable name <-> filter_spec enable disable name).
Proof.
  intros H1 H2 Hn. unfold filter_spec. rewrite names_of_app, in_app_iff. intuition.
Qed.

Lemma spec_extra_name_disable enable extra disable name :
  ~ In name (names_of extra) ->
  (filter_spec enable (disable ++ comma :: extra) name <-> filter_spec enable disable name).
Proof. intros Hn. unfold filter_spec. rewrite names_of_app, in_app_iff. intuition. Qed.

(* spaces around a listed name do not matter: the entry l ++ n ++ r (l, r space runs, n trimmed) denotes n *)
Lemma names_of_single_decorated n : ~ In comma n -> names_of n = [trim_space n].
Proof. intros H. unfold names_of. now rewrite split_on_sepfree. Qed.

(* ================================================================== 3. the cached engine *)
Inductive load_outcome := LoadOk (e : N) | LoadErr (msg : bytes).
Record gstate := { gs_engine : option N; gs_errored : bool; gs_pool : bool }.
Definition g_init : gstate := {| gs_engine := None; gs_errored := false; gs_pool := false |}.
Record prep_result := { pr_engine : option N; pr_err : option bytes }.

Inductive gfield := FEngine | FErrored | FPool.
Inductive ev := EvLock | EvUnlock | EvRead (f : gfield) | EvWrite (f : gfield) | EvLoad.

(* statement tree of prepareEngine as go2coq reads it *)
Inductive pcond := CForce | CEngineSet | CErrored | CErrNonNil.
Inductive retv := RNil | RGlobalEngine | RLocalEngine | RLocalErr.
Inductive ptree :=
| TIf (c : pcond) (th el : ptree)
| TLock (k : ptree)
| TDeferUnlock (k : ptree)
| TCallNew (k : ptree)                (* engine, err := newEngine() *)
| TSetErrored (b : bool) (k : ptree)  (* globalEngineErrored = b *)
| TSetEngine (k : ptree)              (* globalEngine = engine *)
| TSetPool (k : ptree)                (* runnerStatePool = sync.Pool{New: ...} *)
| TReturn (e err : retv)
| TReturnNew.                         (* return newEngine() *)

Record locals := { l_engine : option N; l_err : option bytes }.
Definition no_locals : locals := {| l_engine := None; l_err := None |}.

Record pout := { po_state : gstate; po_res : prep_result; po_trace : list ev }.

Definition load_locals (lo : load_outcome) : locals :=
  match lo with
  | LoadOk e => {| l_engine := Some e; l_err := None |}
  | LoadErr m => {| l_engine := None; l_err := Some m |}
  end.

Definition eval_retv_engine (g : gstate) (l : locals) (r : retv) : option N * list ev :=
  match r with
  | RGlobalEngine => (gs_engine g, [EvRead FEngine])
  | RLocalEngine => (l_engine l, [])
  | _ => (None, [])
  end.
Definition eval_retv_err (l : locals) (r : retv) : option bytes :=
  match r with RLocalErr => l_err l | _ => None end.

Fixpoint exec (t : ptree) (force : bool) (lo : load_outcome) (g : gstate) (l : locals) (deferred : bool) (tr : list ev) : pout :=
  let ret g e err tr := {| po_state := g; po_res := {| pr_engine := e; pr_err := err |};
                           po_trace := tr ++ (if deferred then [EvUnlock] else []) |} in
  match t with
  | TIf c th el =>
      let '(b, evs) := match c with
                       | CForce => (force, [])
                       | CEngineSet => (match gs_engine g with Some _ => true | None => false end, [EvRead FEngine])
                       | CErrored => (gs_errored g, [EvRead FErrored])
                       | CErrNonNil => (match l_err l with Some _ => true | None => false end, [])
                       end in
      if b then exec th force lo g l deferred (tr ++ evs) else exec el force lo g l deferred (tr ++ evs)
  | TLock k => exec k force lo g l deferred (tr ++ [EvLock])
  | TDeferUnlock k => exec k force lo g l true tr
  | TCallNew k => exec k force lo g (load_locals lo) deferred (tr ++ [EvLoad])
  | TSetErrored b k =>
      exec k force lo {| gs_engine := gs_engine g; gs_errored := b; gs_pool := gs_pool g |} l deferred (tr ++ [EvWrite FErrored])
  | TSetEngine k =>
      exec k force lo {| gs_engine := l_engine l; gs_errored := gs_errored g; gs_pool := gs_pool g |} l deferred (tr ++ [EvWrite FEngine])
  | TSetPool k =>
      exec k force lo {| gs_engine := gs_engine g; gs_errored := gs_errored g; gs_pool := true |} l deferred (tr ++ [EvWrite FPool])
  | TReturn e err =>
      let '(ev_, evs) := eval_retv_engine g l e in
      ret g ev_ (eval_retv_err l err) (tr ++ evs)
  | TReturnNew =>
      let l' := load_locals lo in ret g (l_engine l') (l_err l') (tr ++ [EvLoad])
  end.

Definition run_tree (t : ptree) (force : bool) (g : gstate) (lo : load_outcome) : pout :=
  exec t force lo g no_locals false [].

(* ---------------- specification of prepareEngine (cache enabled, i.e. ForceNewEngine = false) *)
Definition prepare_spec_fn (g : gstate) (lo : load_outcome) : gstate * prep_result * nat :=
  match gs_engine g with
  | Some e => (g, {| pr_engine := Some e; pr_err := None |}, 0%nat)
  | None =>
      if gs_errored g then (g, {| pr_engine := None; pr_err := None |}, 0%nat)
      else match lo with
           | LoadOk e => ({| gs_engine := Some e; gs_errored := false; gs_pool := true |},
                          {| pr_engine := Some e; pr_err := None |}, 1%nat)
           | LoadErr m => ({| gs_engine := None; gs_errored := true; gs_pool := gs_pool g |},
                           {| pr_engine := None; pr_err := Some m |}, 1%nat)
           end
  end.

Definition count_loads (tr : list ev) : nat := length (filter (fun e => match e with EvLoad => true | _ => false end) tr).

(* every global access of the trace lies between the Lock and the (single, final) Unlock *)
Definition is_access (e : ev) : bool := match e with EvRead _ | EvWrite _ => true | _ => false end.
Fixpoint serialised_from (held : bool) (tr : list ev) : bool :=
  match tr with
  | [] => negb held
  | EvLock :: r => negb held && serialised_from true r
  | EvUnlock :: r => held && serialised_from false r
  | EvLoad :: r => serialised_from held r          (* newEngine touches no adapter global *)
  | (EvRead _ | EvWrite _) :: r => held && serialised_from held r
  end.
Definition serialised (tr : list ev) : bool := serialised_from false tr.

Definition prepare_ok (t : ptree) : Prop :=
  forall g lo,
    let o := run_tree t false g lo in
    (po_state o, po_res o, count_loads (po_trace o)) = prepare_spec_fn g lo /\ serialised (po_trace o) = true.

(* ---------------- histories: any sequence of passes *)
Section Histories.
Variable prep : gstate -> load_outcome -> gstate * prep_result * nat.
Hypothesis prep_is_spec : forall g lo, prep g lo = prepare_spec_fn g lo.

(* one entry per pass: what newEngine() would return if it were called during that pass *)
Fixpoint run_preps (g : gstate) (los : list load_outcome) : list (prep_result * nat) :=
  match los with
  | [] => []
  | lo :: rest => let '(g', r, n) := prep g lo in (r, n) :: run_preps g' rest
  end.

Definition total_loads (rs : list (prep_result * nat)) : nat := fold_right (fun rn acc => (snd rn + acc)%nat) 0%nat rs.
Definition errors_returned (rs : list (prep_result * nat)) : nat :=
  length (filter (fun rn => match pr_err (fst rn) with Some _ => true | None => false end) rs).

Lemma run_preps_engine_set e er p los :
  Forall (fun rn => rn = ({| pr_engine := Some e; pr_err := None |}, 0%nat))
         (run_preps {| gs_engine := Some e; gs_errored := er; gs_pool := p |} los).
Proof.
  induction los as [|lo rest IH]; cbn [run_preps]; [constructor|].
  rewrite prep_is_spec. cbn. constructor; [reflexivity|exact IH].
Qed.

Lemma run_preps_errored p los :
  Forall (fun rn => rn = ({| pr_engine := None; pr_err := None |}, 0%nat))
         (run_preps {| gs_engine := None; gs_errored := true; gs_pool := p |} los).
Proof.
  induction los as [|lo rest IH]; cbn [run_preps]; [constructor|].
  rewrite prep_is_spec. cbn. constructor; [reflexivity|exact IH].
Qed.

Lemma forall_const_loads (c : prep_result) rs :
  Forall (fun rn => rn = (c, 0%nat)) rs -> total_loads rs = 0%nat.
Proof. induction 1 as [|x l Hx _ IH]; [reflexivity|]. subst x. cbn. exact IH. Qed.

Lemma forall_const_errors (c : prep_result) rs :
  pr_err c = None -> Forall (fun rn => rn = (c, 0%nat)) rs -> errors_returned rs = 0%nat.
Proof.
  intros Hc. induction 1 as [|x l Hx _ IH]; [reflexivity|]. subst x.
  unfold errors_returned in *. cbn. rewrite Hc. exact IH.
Qed.

(* The rule set is loaded once per process: over ANY sequence of passes from the initial state, newEngine runs
   exactly once (during the first pass), whatever it returns then or would return later. *)
Lemma total_loads_cons r n rs : total_loads ((r, n) :: rs) = (n + total_loads rs)%nat.
Proof. reflexivity. Qed.

Lemma run_preps_init_ok e los :
  run_preps g_init (LoadOk e :: los) =
  ({| pr_engine := Some e; pr_err := None |}, 1%nat) :: run_preps {| gs_engine := Some e; gs_errored := false; gs_pool := true |} los.
Proof. cbn [run_preps]. rewrite prep_is_spec. reflexivity. Qed.

Lemma run_preps_init_err m los :
  run_preps g_init (LoadErr m :: los) =
  ({| pr_engine := None; pr_err := Some m |}, 1%nat) :: run_preps {| gs_engine := None; gs_errored := true; gs_pool := false |} los.
Proof. cbn [run_preps]. rewrite prep_is_spec. reflexivity. Qed.

Theorem loaded_once lo los : total_loads (run_preps g_init (lo :: los)) = 1%nat.
Proof.
  destruct lo as [e|m].
  - rewrite run_preps_init_ok, total_loads_cons.
    now rewrite (forall_const_loads _ _ (run_preps_engine_set e false true los)).
  - rewrite run_preps_init_err, total_loads_cons.
    now rewrite (forall_const_loads _ _ (run_preps_errored false los)).
Qed.

(* After a successful first load every pass gets that very engine and no error. *)
Theorem first_engine_kept e los :
  Forall (fun rn => fst rn = {| pr_engine := Some e; pr_err := None |}) (run_preps g_init (LoadOk e :: los)).
Proof.
  rewrite run_preps_init_ok. constructor; [reflexivity|].
  eapply Forall_impl; [|apply run_preps_engine_set]. intros a ->. reflexivity.
Qed.

(* A load failure is returned as an error exactly once (by the first pass); all later passes get neither
   an engine nor an error, and the load is never retried even if it would succeed later. *)
Theorem failure_reported_once m los :
  exists rest, run_preps g_init (LoadErr m :: los) = ({| pr_engine := None; pr_err := Some m |}, 1%nat) :: rest
               /\ Forall (fun rn => rn = ({| pr_engine := None; pr_err := None |}, 0%nat)) rest
               /\ errors_returned (run_preps g_init (LoadErr m :: los)) = 1%nat.
Proof.
  rewrite run_preps_init_err.
  eexists. split; [reflexivity|]. split; [apply run_preps_errored|].
  pose proof (forall_const_errors {| pr_engine := None; pr_err := None |} _ eq_refl (run_preps_errored false los)) as H.
  unfold errors_returned in *. cbn [filter fst pr_err length]. now rewrite H.
Qed.

(* at most one error over any history *)
Corollary at_most_one_error los : (errors_returned (run_preps g_init los) <= 1)%nat.
Proof.
  destruct los as [|lo los]; [cbn; lia|]. destruct lo as [e|m].
  - pose proof (first_engine_kept e los) as H. unfold errors_returned.
    assert (E : filter (fun rn : prep_result * nat => match pr_err (fst rn) with Some _ => true | None => false end)
                  (run_preps g_init (LoadOk e :: los)) = []).
    { induction H as [|x l Hx _ IH]; [reflexivity|]. cbn. rewrite Hx. cbn. exact IH. }
    rewrite E. cbn. lia.
  - destruct (failure_reported_once m los) as (_ & _ & _ & H). lia.
Qed.

(* ---------------- whole passes *)
Record pass_input := {
  pi_load : load_outcome;                  (* what newEngine() returns if called now *)
  pi_reports : N -> list report_data;      (* the reports engine e delivers on this pass's files, in order *)
  pi_go_ok : bool                          (* -go parses *)
}.
Inductive pass_output := PErr (msg : bytes) | PDiags (ds : list diagnostic) | PModelFail.

Definition load_rules_prefix : bytes := [108;111;97;100;32;114;117;108;101;115;58;32].  (* "load rules: " *)
Definition go_version_error : bytes := [112;97;114;115;101;32;71;111;32;118;101;114;115;105;111;110].  (* "parse Go version" *)

Variable cb : bool -> callback.

Definition run_pass (print_loc : bool) (g : gstate) (p : pass_input) : gstate * pass_output :=
  let '(g', r, _) := prep g (pi_load p) in
  match pr_err r with
  | Some m => (g', PErr (load_rules_prefix ++ m))
  | None =>
      match pr_engine r with
      | None => (g', PDiags [])
      | Some e =>
          if negb (pi_go_ok p) then (g', PErr go_version_error)
          else match relay (cb print_loc) (pi_reports p e) with
               | Ok ds => (g', PDiags ds)
               | Panic _ => (g', PModelFail)
               end
      end
  end.

Fixpoint run_passes (pl : bool) (g : gstate) (ps : list pass_input) : list pass_output :=
  match ps with
  | [] => []
  | p :: rest => let '(g', o) := run_pass pl g p in o :: run_passes pl g' rest
  end.

Hypothesis cb_ok : forall pl, callback_ok (cb pl) pl.

Definition expected_with_engine (pl : bool) (e : N) (p : pass_input) : pass_output :=
  if negb (pi_go_ok p) then PErr go_version_error else PDiags (map (diag_of_report pl) (pi_reports p e)).

Lemma run_passes_engine_set pl e er po ps :
  run_passes pl {| gs_engine := Some e; gs_errored := er; gs_pool := po |} ps = map (expected_with_engine pl e) ps.
Proof.
  induction ps as [|p rest IH]; [reflexivity|].
  cbn [run_passes map]. unfold run_pass. rewrite prep_is_spec. cbn.
  unfold expected_with_engine at 1. destruct (negb (pi_go_ok p)).
  - now rewrite IH.
  - rewrite (relay_one_per_report _ _ _ (cb_ok pl)). now rewrite IH.
Qed.

Lemma run_passes_errored pl po ps :
  run_passes pl {| gs_engine := None; gs_errored := true; gs_pool := po |} ps = map (fun _ => PDiags []) ps.
Proof.
  induction ps as [|p rest IH]; [reflexivity|].
  cbn [run_passes map]. unfold run_pass. rewrite prep_is_spec. cbn. now rewrite IH.
Qed.

(* The adapter relays the engine faithfully over any history of passes. *)
Theorem adapter_relays pl ps :
  run_passes pl g_init ps =
  match ps with
  | [] => []
  | p :: rest =>
      match pi_load p with
      | LoadOk e => map (expected_with_engine pl e) (p :: rest)          (* the engine loaded by the first pass serves all *)
      | LoadErr m => PErr (load_rules_prefix ++ m) :: map (fun _ => PDiags []) rest   (* one error, then silence *)
      end
  end.
Proof.
  destruct ps as [|p rest]; [reflexivity|].
  cbn [run_passes]. unfold run_pass. rewrite prep_is_spec. unfold g_init. cbn.
  destruct (pi_load p) as [e|m]; cbn.
  - cbn [map]. unfold expected_with_engine at 1. destruct (negb (pi_go_ok p)).
    + now rewrite run_passes_engine_set.
    + rewrite (relay_one_per_report _ _ _ (cb_ok pl)). now rewrite run_passes_engine_set.
  - now rewrite run_passes_errored.
Qed.

End Histories.

(* the specification function itself is a valid `prep` (hypotheses of the section are satisfiable) *)
Example histories_satisfiable :
  total_loads (run_preps prepare_spec_fn g_init [LoadErr [1]; LoadOk 5%N; LoadOk 6%N]) = 1%nat
  /\ map fst (run_preps prepare_spec_fn g_init [LoadOk 5%N; LoadErr [1]; LoadOk 6%N])
     = [ {| pr_engine := Some 5%N; pr_err := None |}; {| pr_engine := Some 5%N; pr_err := None |}; {| pr_engine := Some 5%N; pr_err := None |} ].
Proof. split; vm_compute; reflexivity. Qed.

(* ================================================================== 4. what go2coq reads off runAnalyzer / the lock sites *)
Inductive hstmt := HPrepare | HIfErrReturnWrapped (format : bytes) | HIfEngineNilReturnNil.

(* engine, err := prepareEngine(); if err != nil { return nil, fmt.Errorf("load rules: %v", err) }; if engine == nil { return nil, nil } *)
Definition expected_run_head : list hstmt :=
  [HPrepare; HIfErrReturnWrapped (load_rules_prefix ++ [37; 118]); HIfEngineNilReturnNil].

Definition hstmt_eqb (a b : hstmt) : bool :=
  match a, b with
  | HPrepare, HPrepare => true
  | HIfErrReturnWrapped x, HIfErrReturnWrapped y => bytes_eqb x y
  | HIfEngineNilReturnNil, HIfEngineNilReturnNil => true
  | _, _ => false
  end.

Inductive sctx :=
| CtxPlain                (* ordinary function body *)
| CtxAfterEngineCheck     (* in runAnalyzer, after prepareEngine returned a non-nil engine to this goroutine *)
| CtxPoolNew              (* body of runnerStatePool.New: only runs from runnerStatePool.Get *)
| CtxClosure.             (* any other function literal: execution context unknown *)
Definition asite := (bytes * gfield * bool * bool * sctx)%type.   (* function, field, is_write, lock held, context *)

Definition prepare_name : bytes := [112; 114; 101; 112; 97; 114; 101; 69; 110; 103; 105; 110; 101].  (* "prepareEngine" *)

(* Discipline of the adapter's globals:
   - every write happens in prepareEngine with globalEngineMu held;
   - every read happens with the mutex held, except reads of globalEngine / runnerStatePool by a goroutine that has
     already been handed a non-nil engine by prepareEngine (write-once publication, see Conc.v). *)
Definition site_ok (s : asite) : bool :=
  let '(fn, f, w, held, ctx) := s in
  if w then held && bytes_eqb fn prepare_name
  else held || match ctx, f with
               | (CtxAfterEngineCheck | CtxPoolNew), (FEngine | FPool) => true
               | _, _ => false
               end.

Lemma fold_left_map {A B C} (f : A -> C -> A) (h : B -> C) l a :
  fold_left (fun m g => f m (h g)) l a = fold_left f (map h l) a.
Proof. revert a; induction l as [|x l IH]; intros a; cbn; [reflexivity|apply IH]. Qed.

(* ================================================================== 5. the engine side of -enable / -disable *)
(* ir_loader.go:loadRuleGroup, as far as the group's name is concerned: go2coq regenerates the order of these steps *)
Inductive fsite := FsName | FsPrefix | FsFilterReturnsNil | FsRegister.

(* the name a group is registered (and later reported) under: bundle groups carry the ImportRules prefix *)
Definition final_name (prefix name : bytes) : bytes :=
  match prefix with [] => name | _ => prefix ++ [47] ++ name end.

(* Some (Some n): registered under n; Some None: skipped by the filter; None: neither happened *)
Fixpoint load_group_head (sites : list fsite) (prefix name : bytes) (filter : bytes -> bool) (cur : bytes) : option (option bytes) :=
  match sites with
  | [] => None
  | FsName :: r => load_group_head r prefix name filter name
  | FsPrefix :: r => load_group_head r prefix name filter (match prefix with [] => cur | _ => prefix ++ [47] ++ cur end)
  | FsFilterReturnsNil :: r => if filter cur then load_group_head r prefix name filter cur else Some None
  | FsRegister :: r => Some (Some cur)
  end.

(* what C19 needs from the engine: a group is kept iff the filter accepts the very name it is registered under *)
Definition filter_sees_final_name (sites : list fsite) : Prop :=
  forall prefix name filter,
    load_group_head sites prefix name filter [] =
    Some (if filter (final_name prefix name) then Some (final_name prefix name) else None).
