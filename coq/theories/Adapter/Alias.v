(* C19: what a go/analysis driver READS in a TextEdit after the pass, when []byte values are references.

   Model.v treats Suggestion.Replacement / TextEdit.NewText as byte strings: that is the value at the moment the
   Report callback runs. In Go both are slices: references (buffer, offset, length) into memory that someone may write
   again. Drivers read the diagnostics after the pass (to print them, to apply -fix), after the engine has al_run the
   other files of the package -- and, with the cached engine, other packages -- on the same pooled RunnerState.
   This file models that memory: the engine produces the replacement of every suggestion either as a fresh buffer
   (`[]byte(s)`) or by writing into a buffer it keeps (a runner state's scratch space, truncated by Reset and appended
   to); the adapter keeps the reference it was given or a private copy. The theorem: the texts read at the end of ANY
   history are the texts of the reports, provided the adapter copies or every producing site of the engine is fresh;
   the example shows that neither hypothesis can be dropped. Which case holds is regenerated from /repo. *)
From Coq Require Import List ZArith Lia Bool Arith.
From RG.Base Require Import Outcome GoSlice.
Import ListNotations.

Inductive space := Eng | Adp.                         (* who allocated the buffer: the engine or the adapter *)
Record sref := { sr_space : space; sr_buf : nat; sr_off : nat; sr_len : nat }.

Record memory := { m_eng : list bytes; m_adp : list bytes }.

Definition buffer (m : memory) (s : space) (b : nat) : bytes :=
  nth b (match s with Eng => m_eng m | Adp => m_adp m end) [].

Definition read (m : memory) (r : sref) : bytes :=
  firstn (sr_len r) (skipn (sr_off r) (buffer m (sr_space r) (sr_buf r))).

Definition in_bounds (m : memory) (r : sref) : Prop :=
  (sr_buf r < length (match sr_space r with Eng => m_eng m | Adp => m_adp m end))%nat.

(* How the engine produces the Replacement of one suggestion. *)
Inductive produce :=
| PFresh (text : bytes)                (* []byte(s): a new buffer that nothing else refers to and nothing writes again *)
| PInto (b off : nat) (text : bytes).  (* written into buffer b of the engine at offset off: bytes beyond stay what they were *)

Definition is_fresh (p : produce) : bool := match p with PFresh _ => true | PInto _ _ _ => false end.

(* How the adapter fills TextEdit.NewText from Suggestion.Replacement. *)
Inductive keep_kind := KeepAlias | KeepCopy.
Definition keeps_copy (k : keep_kind) : bool := match k with KeepCopy => true | KeepAlias => false end.

Fixpoint set_nth {A} (n : nat) (x : A) (l : list A) : list A :=
  match l, n with
  | [], _ => []
  | _ :: l', O => x :: l'
  | y :: l', S n' => y :: set_nth n' x l'
  end.

Definition overwrite (old : bytes) (off : nat) (text : bytes) : bytes :=
  firstn off old ++ text ++ skipn (off + length text) old.

(* the engine's side of one suggestion: the memory afterwards and the reference it hands to Report *)
Definition engine_produce (m : memory) (p : produce) : memory * sref :=
  match p with
  | PFresh t =>
      ({| m_eng := m_eng m ++ [t]; m_adp := m_adp m |},
       {| sr_space := Eng; sr_buf := length (m_eng m); sr_off := 0; sr_len := length t |})
  | PInto b off t =>
      ({| m_eng := set_nth b (overwrite (nth b (m_eng m) []) off t) (m_eng m); m_adp := m_adp m |},
       {| sr_space := Eng; sr_buf := b; sr_off := off; sr_len := length t |})
  end.

(* the adapter's side: the reference that ends up in the diagnostic *)
Definition adapter_keep (k : keep_kind) (m : memory) (r : sref) : memory * sref :=
  match k with
  | KeepAlias => (m, r)
  | KeepCopy =>
      ({| m_eng := m_eng m; m_adp := m_adp m ++ [read m r] |},
       {| sr_space := Adp; sr_buf := length (m_adp m); sr_off := 0; sr_len := length (read m r) |})
  end.

(* a kept text edit: the reference stored in the diagnostic and the text the engine's report carried *)
Definition kept := list (sref * bytes).

Definition al_step (k : keep_kind) (st : memory * kept) (p : produce) : memory * kept :=
  let '(m, ks) := st in
  let '(m1, r) := engine_produce m p in
  let reported := read m1 r in
  let '(m2, r') := adapter_keep k m1 r in
  (m2, ks ++ [(r', reported)]).

(* a history: every suggestion of every file of every pass, in the order the engine makes them; the buffers of the
   runner states exist from the start *)
Definition al_run (k : keep_kind) (m0 : memory) (ps : list produce) : memory * kept :=
  fold_left (al_step k) ps (m0, []).

(* what the driver reads after the history *)
Definition read_late (st : memory * kept) : list bytes := map (fun rt => read (fst st) (fst rt)) (snd st).
Definition reported (st : memory * kept) : list bytes := map snd (snd st).

(* ------------------------------------------------------------------ lemmas *)
Lemma nth_app_keep {A} (l : list A) x d b : (b < length l)%nat -> nth b (l ++ [x]) d = nth b l d.
Proof. intros H. apply app_nth1. exact H. Qed.

Lemma firstn_all_app (a b : bytes) : firstn (length a) (a ++ b) = a.
Proof. induction a as [|x a IH]; cbn; [destruct b; reflexivity| now rewrite IH]. Qed.

Lemma read_fresh m t :
  let '(m1, r) := engine_produce m (PFresh t) in read m1 r = t.
Proof.
  cbn. unfold read, buffer. cbn.
  rewrite app_nth2 by lia. rewrite Nat.sub_diag. cbn.
  rewrite <- (app_nil_r t) at 2. apply firstn_all_app.
Qed.

Lemma read_whole l t : read {| m_eng := fst l; m_adp := snd l ++ [t] |}
    {| sr_space := Adp; sr_buf := length (snd l); sr_off := 0; sr_len := length t |} = t.
Proof.
  unfold read, buffer. cbn. rewrite app_nth2 by lia. rewrite Nat.sub_diag. cbn.
  rewrite <- (app_nil_r t) at 2. apply firstn_all_app.
Qed.

(* the invariant: every kept reference is in bounds and still reads as reported *)
Definition stable (st : memory * kept) : Prop :=
  Forall (fun rt => in_bounds (fst st) (fst rt) /\ read (fst st) (fst rt) = snd rt) (snd st).

Definition kept_in (s : space) (ks : kept) : Prop := Forall (fun rt => sr_space (fst rt) = s) ks.

Lemma step_copy_stable m ks p :
  stable (m, ks) -> kept_in Adp ks ->
  stable (al_step KeepCopy (m, ks) p) /\ kept_in Adp (snd (al_step KeepCopy (m, ks) p)).
Proof.
  intros Hs Hk. unfold al_step.
  destruct (engine_produce m p) as [m1 r] eqn:E.
  assert (Hadp : m_adp m1 = m_adp m) by (destruct p; inversion E; reflexivity).
  cbn [adapter_keep]. cbn [fst snd]. split.
  - unfold stable. cbn [fst snd]. apply Forall_app. split.
    + unfold stable in Hs. cbn [fst snd] in Hs.
      unfold kept_in in Hk. rewrite Forall_forall in *. intros [r0 t0] Hin. cbn [fst snd].
      specialize (Hs _ Hin). specialize (Hk _ Hin). cbn [fst snd] in Hs, Hk. destruct Hs as [Hb Hr].
      unfold in_bounds in *. rewrite Hk in *. cbn [m_adp]. rewrite Hadp. split.
      * rewrite app_length. lia.
      * unfold read, buffer in *. rewrite Hk in *. cbn [m_adp]. rewrite Hadp. rewrite nth_app_keep by exact Hb. exact Hr.
    + constructor; [|constructor]. cbn [fst snd]. split.
      * unfold in_bounds. cbn. rewrite app_length. cbn. lia.
      * apply (read_whole (m_eng m1, m_adp m1)).
  - unfold kept_in. apply Forall_app. split; [exact Hk|]. constructor; [reflexivity|constructor].
Qed.

Lemma step_fresh_stable m ks t :
  stable (m, ks) -> kept_in Eng ks ->
  stable (al_step KeepAlias (m, ks) (PFresh t)) /\ kept_in Eng (snd (al_step KeepAlias (m, ks) (PFresh t))).
Proof.
  intros Hs Hk. unfold al_step. cbn [engine_produce adapter_keep fst snd]. split.
  - unfold stable. cbn [fst snd]. apply Forall_app. split.
    + unfold stable in Hs. cbn [fst snd] in Hs.
      unfold kept_in in Hk. rewrite Forall_forall in *. intros [r0 t0] Hin. cbn [fst snd].
      specialize (Hs _ Hin). specialize (Hk _ Hin). cbn [fst snd] in Hs, Hk. destruct Hs as [Hb Hr].
      unfold in_bounds in *. rewrite Hk in *. cbn [m_eng]. split.
      * rewrite app_length. lia.
      * unfold read, buffer in *. rewrite Hk in *. cbn [m_eng]. rewrite nth_app_keep by exact Hb. exact Hr.
    + constructor; [|constructor]. cbn [fst snd]. split.
      * unfold in_bounds. cbn. rewrite app_length. cbn. lia.
      * reflexivity.
  - unfold kept_in. apply Forall_app. split; [exact Hk|]. constructor; [reflexivity|constructor].
Qed.

Lemma stable_read_late st : stable st -> read_late st = reported st.
Proof.
  unfold stable, read_late, reported. destruct st as [m ks]. cbn [fst snd].
  induction ks as [|[r t] ks IH]; intros H; [reflexivity|].
  inversion H as [|? ? [_ Hr] Hrest]; subst. cbn [map fst snd] in *. rewrite Hr. f_equal. apply IH. exact Hrest.
Qed.

Lemma run_copy_stable ps : forall m ks,
  stable (m, ks) -> kept_in Adp ks -> stable (fold_left (al_step KeepCopy) ps (m, ks)).
Proof.
  induction ps as [|p ps IH]; intros m ks Hs Hk; [exact Hs|].
  cbn [fold_left]. destruct (step_copy_stable m ks p Hs Hk) as [Hs' Hk'].
  destruct (al_step KeepCopy (m, ks) p) as [m' ks'] eqn:E. apply IH; assumption.
Qed.

Lemma run_fresh_stable ps : forall m ks,
  forallb is_fresh ps = true ->
  stable (m, ks) -> kept_in Eng ks -> stable (fold_left (al_step KeepAlias) ps (m, ks)).
Proof.
  induction ps as [|p ps IH]; intros m ks Hf Hs Hk; [exact Hs|].
  cbn [forallb] in Hf. apply andb_true_iff in Hf. destruct Hf as [Hp Hf].
  destruct p as [t|b off t]; [|discriminate].
  cbn [fold_left]. destruct (step_fresh_stable m ks t Hs Hk) as [Hs' Hk'].
  destruct (al_step KeepAlias (m, ks) (PFresh t)) as [m' ks'] eqn:E. apply IH; assumption.
Qed.

(* The text edits a driver reads after ANY history of suggestions (all files of all passes on whatever runner
   states) are the replacement texts the engine reported, if the adapter keeps copies or the engine only ever hands
   out fresh buffers. *)
Theorem texts_stable k m0 ps :
  keeps_copy k = true \/ forallb is_fresh ps = true ->
  read_late (al_run k m0 ps) = reported (al_run k m0 ps).
Proof.
  intros H. apply stable_read_late. unfold al_run.
  destruct k.
  - destruct H as [H|H]; [discriminate|]. apply run_fresh_stable; [exact H|constructor|constructor].
  - apply run_copy_stable; constructor.
Qed.

(* with a fresh site the reported text is the rendered text *)
Theorem fresh_reports_the_text k m0 ts :
  reported (al_run k m0 (map PFresh ts)) = ts.
Proof.
  unfold al_run. replace ts with (reported (m0, []) ++ ts) at 2 by reflexivity.
  generalize (m0, @nil (sref * bytes)). induction ts as [|t ts IH]; intros st.
  - cbn. now rewrite app_nil_r.
  - cbn [map fold_left]. rewrite IH. destruct st as [m ks].
    unfold al_step. cbn [engine_produce]. pose proof (read_fresh m t) as Hr. cbn [engine_produce] in Hr. rewrite Hr.
    destruct k; cbn [adapter_keep]; unfold reported; cbn [snd]; rewrite map_app; cbn [map snd]; now rewrite <- app_assoc.
Qed.

(* ------------------------------------------------------------------ the regenerated facts *)
(* a site of the engine that produces a Replacement (go2coq adapter: every Suggestion literal / assignment to
   .Replacement in package ruleguard), classified: a conversion of a string ([]byte(s)) or anything else *)
Inductive site_kind := SiteFresh | SiteOther.
Definition site_is_fresh (s : bytes * site_kind) : bool := match snd s with SiteFresh => true | SiteOther => false end.

Definition produced_by (sites : list (bytes * site_kind)) (p : produce) : Prop :=
  exists s, In s sites /\ (site_is_fresh s = true -> is_fresh p = true).

Theorem texts_stable_sites sites k m0 ps :
  sites <> [] ->
  keeps_copy k || forallb site_is_fresh sites = true ->
  Forall (produced_by sites) ps ->
  read_late (al_run k m0 ps) = reported (al_run k m0 ps).
Proof.
  intros _ H Hp. apply texts_stable. apply orb_true_iff in H. destruct H as [H|H]; [left; exact H|right].
  rewrite forallb_forall in *. rewrite Forall_forall in Hp. intros p Hin.
  destruct (Hp p Hin) as (s & Hs & Himp). apply Himp. apply H. exact Hs.
Qed.

(* Neither hypothesis can be dropped: one buffer kept by a runner state, truncated before the next file and written
   again, under an adapter that keeps the reference it was given. *)
Definition ex_long : bytes := [112;114;105;110;116;40;34;97;32;114;97;116;104;101;114;32;108;111;110;103;32;97;114;103;117;109;101;110;116;34;41]%Z.
Definition ex_short : bytes := [112;114;105;110;116;40;50;41]%Z.
Definition ex_mem : memory := {| m_eng := [[]]; m_adp := [] |}.
Definition ex_history : list produce := [PInto 0 0 ex_long; PInto 0 0 ex_short].

Example shared_buffer_breaks_alias :
  reported (al_run KeepAlias ex_mem ex_history) = [ex_long; ex_short] /\
  read_late (al_run KeepAlias ex_mem ex_history) <> reported (al_run KeepAlias ex_mem ex_history).
Proof. split; [reflexivity|]. vm_compute. discriminate. Qed.

Example shared_buffer_harmless_with_copy :
  read_late (al_run KeepCopy ex_mem ex_history) = [ex_long; ex_short].
Proof. reflexivity. Qed.
