(* Byte-string functions of the Go standard library that the analyzer adapter relies on:
   strings.Split (one-byte separator), strings.TrimSpace, filepath.Base (unix), strconv.Itoa,
   and the %s/%d/%v/%% fragment of fmt.Sprintf. Executable, with their characterising lemmas. *)
From Coq Require Import List ZArith Lia Bool.
From RG.Base Require Import Outcome GoSlice.
Import ListNotations.
Local Open Scope Z_scope.

(* ------------------------------------------------------------------ equality on byte strings *)
Lemma bytes_eqb_refl (a : bytes) : bytes_eqb a a = true.
Proof. apply bytes_eqb_eq. reflexivity. Qed.

Lemma bytes_eqb_neq (a b : bytes) : bytes_eqb a b = false <-> a <> b.
Proof.
  split.
  - intros H E. apply bytes_eqb_eq in E. congruence.
  - intros H. destruct (bytes_eqb a b) eqn:E; [|reflexivity]. apply bytes_eqb_eq in E. contradiction.
Qed.

Definition mem_b (x : bytes) (l : list bytes) : bool := existsb (bytes_eqb x) l.

Lemma mem_b_In x l : mem_b x l = true <-> In x l.
Proof.
  unfold mem_b. rewrite existsb_exists. split.
  - intros (y & Hy & E). apply bytes_eqb_eq in E. now subst.
  - intros H. exists x. split; [assumption|apply bytes_eqb_refl].
Qed.

(* ------------------------------------------------------------------ strings.Split(s, sep) for a one-byte sep *)
Fixpoint split_on (sep : Z) (s : bytes) : list bytes :=
  match s with
  | [] => [[]]
  | c :: r =>
      if c =? sep then [] :: split_on sep r
      else match split_on sep r with
           | [] => [[c]]            (* unreachable: split_on never returns [] *)
           | h :: t => (c :: h) :: t
           end
  end.

Fixpoint join (sep : Z) (l : list bytes) : bytes :=
  match l with
  | [] => []
  | [x] => x
  | x :: t => x ++ sep :: join sep t
  end.

Lemma split_on_nonempty sep s : split_on sep s <> [].
Proof.
  induction s as [|c r IH]; cbn; [discriminate|].
  destruct (c =? sep); [discriminate|]. destruct (split_on sep r); discriminate.
Qed.

Lemma join_cons sep x t : t <> [] -> join sep (x :: t) = x ++ sep :: join sep t.
Proof. destruct t; [congruence|reflexivity]. Qed.

(* Split is a right inverse of Join ... *)
Lemma join_split sep s : join sep (split_on sep s) = s.
Proof.
  induction s as [|c r IH]; [reflexivity|]. cbn [split_on].
  destruct (c =? sep) eqn:E.
  - apply Z.eqb_eq in E. subst c. rewrite join_cons by apply split_on_nonempty. now rewrite IH.
  - pose proof (split_on_nonempty sep r) as Hne.
    destruct (split_on sep r) as [|h t] eqn:S; [congruence|].
    destruct t as [|h2 t2].
    + cbn in *. now rewrite IH.
    + rewrite join_cons by discriminate. rewrite join_cons in IH by discriminate.
      cbn [app]. now rewrite IH.
Qed.

(* ... no piece contains the separator ... *)
Lemma split_on_no_sep sep s : Forall (fun p => ~ In sep p) (split_on sep s).
Proof.
  induction s as [|c r IH]; cbn [split_on].
  - constructor; [intros []|constructor].
  - destruct (c =? sep) eqn:E.
    + constructor; [intros []|assumption].
    + apply Z.eqb_neq in E. destruct (split_on sep r) as [|h t].
      * constructor; [|constructor]. intros [H|[]]. congruence.
      * inversion IH as [|? ? Hh Ht]; subst. constructor; [|assumption].
        intros [H|H]; [congruence|contradiction].
Qed.

(* ... and it is the only such decomposition: Split (Join l) = l for separator-free pieces. *)
Lemma split_on_app_sep sep a b :
  ~ In sep a -> split_on sep (a ++ sep :: b) = a :: split_on sep b.
Proof.
  induction a as [|c a IH]; intros Hn; cbn [app split_on].
  - now rewrite Z.eqb_refl.
  - destruct (c =? sep) eqn:E; [apply Z.eqb_eq in E; subst; exfalso; apply Hn; now left|].
    rewrite IH by (intros H; apply Hn; now right). reflexivity.
Qed.

Lemma split_on_sepfree sep a : ~ In sep a -> split_on sep a = [a].
Proof.
  induction a as [|c a IH]; intros Hn; cbn [split_on]; [reflexivity|].
  destruct (c =? sep) eqn:E; [apply Z.eqb_eq in E; subst; exfalso; apply Hn; now left|].
  rewrite IH by (intros H; apply Hn; now right). reflexivity.
Qed.

Lemma split_join sep l :
  l <> [] -> Forall (fun p => ~ In sep p) l -> split_on sep (join sep l) = l.
Proof.
  induction l as [|x t IH]; intros Hne Hall; [congruence|].
  inversion Hall as [|? ? Hx Ht]; subst.
  destruct t as [|y t'].
  - cbn [join]. now apply split_on_sepfree.
  - rewrite join_cons by discriminate. rewrite split_on_app_sep by assumption.
    rewrite IH; [reflexivity|discriminate|assumption].
Qed.

(* splitting a concatenation at a separator *)
Lemma split_on_app sep a b :
  split_on sep (a ++ sep :: b) = split_on sep a ++ split_on sep b.
Proof.
  induction a as [|c a IH]; cbn [app split_on].
  - now rewrite Z.eqb_refl.
  - destruct (c =? sep); [now rewrite IH|].
    rewrite IH. pose proof (split_on_nonempty sep a).
    destruct (split_on sep a); [congruence|reflexivity].
Qed.

(* ------------------------------------------------------------------ strings.TrimSpace *)
(* UTF-8 encodings of the runes for which unicode.IsSpace holds. *)
Definition space_tokens : list bytes :=
  [ [9]; [10]; [11]; [12]; [13]; [32];
    [194;133]; [194;160];                       (* U+0085 U+00A0 *)
    [225;154;128];                              (* U+1680 *)
    [226;128;128]; [226;128;129]; [226;128;130]; [226;128;131]; [226;128;132]; [226;128;133];
    [226;128;134]; [226;128;135]; [226;128;136]; [226;128;137]; [226;128;138];   (* U+2000..U+200A *)
    [226;128;168]; [226;128;169]; [226;128;175];                                  (* U+2028 U+2029 U+202F *)
    [226;129;159];                              (* U+205F *)
    [227;128;128] ].                            (* U+3000 *)

Fixpoint strip_prefix (p s : bytes) : option bytes :=
  match p, s with
  | [], _ => Some s
  | x :: p', y :: s' => if x =? y then strip_prefix p' s' else None
  | _ :: _, [] => None
  end.

Lemma strip_prefix_spec p s r : strip_prefix p s = Some r <-> s = p ++ r.
Proof.
  revert s; induction p as [|x p IH]; intros s; cbn.
  - split; [intros [= ->]; reflexivity|intros ->; reflexivity].
  - destruct s as [|y s]; [split; [discriminate|intros H; discriminate]|].
    destruct (x =? y) eqn:E.
    + apply Z.eqb_eq in E. subst y. rewrite IH. split; [intros ->; reflexivity|intros [= ->]; reflexivity].
    + apply Z.eqb_neq in E. split; [discriminate|intros [= H _]; congruence].
Qed.

Fixpoint first_some {A} (f : bytes -> option A) (l : list bytes) : option A :=
  match l with
  | [] => None
  | t :: l' => match f t with Some r => Some r | None => first_some f l' end
  end.

(* one leading space rune removed, if there is one *)
Definition drop_space (toks : list bytes) (s : bytes) : option bytes :=
  first_some (fun t => strip_prefix t s) toks.

Fixpoint trim_left_fuel (toks : list bytes) (fuel : nat) (s : bytes) : bytes :=
  match fuel with
  | O => s
  | S f => match drop_space toks s with
           | Some r => trim_left_fuel toks f r
           | None => s
           end
  end.

Definition trim_left (s : bytes) : bytes := trim_left_fuel space_tokens (length s) s.
Definition rev_tokens : list bytes := map (@rev Z) space_tokens.
Definition trim_right (s : bytes) : bytes :=
  rev (trim_left_fuel rev_tokens (length s) (rev s)).
Definition trim_space (s : bytes) : bytes := trim_right (trim_left s).

Definition starts_with_space (s : bytes) : Prop := exists t r, In t space_tokens /\ s = t ++ r.
Definition ends_with_space (s : bytes) : Prop := exists t r, In t space_tokens /\ s = r ++ t.
(* a run of space runes *)
Inductive spaces : bytes -> Prop :=
| sp_nil : spaces []
| sp_cons t r : In t space_tokens -> spaces r -> spaces (t ++ r).

Lemma first_some_spec {A} (f : bytes -> option A) l r :
  first_some f l = Some r -> exists t, In t l /\ f t = Some r.
Proof.
  induction l as [|t l IH]; cbn; [discriminate|].
  destruct (f t) eqn:E.
  - intros [= <-]. exists t. split; [now left|assumption].
  - intros H. destruct (IH H) as (t' & Hin & Ht'). exists t'. split; [now right|assumption].
Qed.

Lemma first_some_none {A} (f : bytes -> option A) l :
  first_some f l = None -> forall t, In t l -> f t = None.
Proof.
  induction l as [|t l IH]; cbn; [intros _ ? []|].
  destruct (f t) eqn:E; [discriminate|]. intros H t' [<-|Hin]; [assumption|now apply IH].
Qed.

Lemma drop_space_some toks s r : drop_space toks s = Some r -> exists t, In t toks /\ s = t ++ r.
Proof.
  unfold drop_space. intros H. destruct (first_some_spec _ _ _ H) as (t & Hin & Ht).
  exists t. split; [assumption|]. now apply strip_prefix_spec.
Qed.

Lemma drop_space_none toks s : drop_space toks s = None -> forall t r, In t toks -> s <> t ++ r.
Proof.
  unfold drop_space. intros H t r Hin E.
  pose proof (first_some_none _ _ H t Hin) as Hn. cbn in Hn.
  assert (strip_prefix t s = Some r) by now apply strip_prefix_spec. congruence.
Qed.

Lemma tokens_nonempty t : In t space_tokens -> (0 < length t)%nat.
Proof. unfold space_tokens. cbn. intuition (subst; cbn; lia). Qed.

Lemma rev_tokens_nonempty t : In t rev_tokens -> (0 < length t)%nat.
Proof.
  unfold rev_tokens. rewrite in_map_iff. intros (u & <- & Hu). rewrite rev_length. now apply tokens_nonempty.
Qed.

(* generic statement about trim_left_fuel for any token set with non-empty tokens *)
Section TrimGeneric.
Variable toks : list bytes.
Hypothesis toks_ne : forall t, In t toks -> (0 < length t)%nat.

Inductive run : bytes -> Prop :=
| run_nil : run []
| run_cons t r : In t toks -> run r -> run (t ++ r).

Lemma trim_left_fuel_spec fuel s :
  (length s <= fuel)%nat ->
  exists l, run l /\ s = l ++ trim_left_fuel toks fuel s /\
            (forall t r, In t toks -> trim_left_fuel toks fuel s <> t ++ r).
Proof.
  revert s; induction fuel as [|f IH]; intros s Hlen.
  - destruct s; [|cbn in Hlen; lia]. exists []. split; [constructor|]. split; [reflexivity|].
    cbn. intros t r Hin E. apply toks_ne in Hin. destruct t; cbn in *; [lia|discriminate].
  - cbn [trim_left_fuel]. destruct (drop_space toks s) as [r|] eqn:D.
    + destruct (drop_space_some _ _ _ D) as (t & Hin & ->).
      pose proof (toks_ne t Hin) as Hpos. rewrite app_length in Hlen.
      destruct (IH r ltac:(lia)) as (l & Hl & Hr & Hno).
      exists (t ++ l). split; [now constructor|]. split; [|assumption].
      rewrite <- app_assoc. now rewrite <- Hr.
    + exists []. split; [constructor|]. split; [reflexivity|]. now apply drop_space_none.
Qed.
End TrimGeneric.

Lemma run_spaces l : run space_tokens l <-> spaces l.
Proof. split; induction 1; constructor; auto. Qed.

Lemma trim_left_spec s :
  exists l, spaces l /\ s = l ++ trim_left s /\ ~ starts_with_space (trim_left s).
Proof.
  destruct (trim_left_fuel_spec space_tokens tokens_nonempty (length s) s (le_n _)) as (l & Hl & Hs & Hno).
  exists l. split; [now apply run_spaces|]. split; [exact Hs|].
  intros (t & r & Hin & E). exact (Hno t r Hin E).
Qed.

(* a run of reversed tokens, reversed, is a run of spaces *)
Lemma run_rev_spaces l : run rev_tokens l -> spaces (rev l).
Proof.
  induction 1 as [|t r Hin Hr IH]; [constructor|].
  rewrite rev_app_distr. unfold rev_tokens in Hin. apply in_map_iff in Hin as (u & <- & Hu).
  rewrite rev_involutive.
  (* spaces is closed under appending a token at the end *)
  clear Hr. induction IH as [|t' r' Hin' Hr' IH'].
  - cbn. rewrite <- (app_nil_r u). now constructor; [|constructor].
  - rewrite <- app_assoc. constructor; assumption.
Qed.

Lemma trim_right_spec s :
  exists r, spaces r /\ s = trim_right s ++ r /\ ~ ends_with_space (trim_right s).
Proof.
  unfold trim_right.
  destruct (trim_left_fuel_spec rev_tokens rev_tokens_nonempty (length s) (rev s)) as (l & Hl & Hs & Hno).
  { rewrite rev_length. lia. }
  exists (rev l). split; [now apply run_rev_spaces|]. split.
  - apply (f_equal (@rev Z)) in Hs. rewrite rev_involutive, rev_app_distr in Hs. exact Hs.
  - intros (t & r & Hin & E).
    apply (f_equal (@rev Z)) in E. rewrite rev_involutive, rev_app_distr in E.
    apply (Hno (rev t) (rev r)); [|exact E].
    unfold rev_tokens. apply in_map. exact Hin.
Qed.

(* TrimSpace: s = l ++ trim_space s ++ r with l, r runs of space runes and nothing left to trim at the end;
   at the start nothing is left to trim unless the whole string was space. *)
Lemma trim_space_spec s :
  exists l r, spaces l /\ spaces r /\ s = l ++ trim_space s ++ r /\ ~ ends_with_space (trim_space s).
Proof.
  unfold trim_space.
  destruct (trim_left_spec s) as (l & Hl & Hs & _).
  destruct (trim_right_spec (trim_left s)) as (r & Hr & Hs2 & Hno).
  exists l, r. repeat split; try assumption. now rewrite <- Hs2.
Qed.

(* a string that neither starts nor ends with a space rune is left alone *)
Lemma trim_left_fuel_fix toks fuel s :
  (forall t r, In t toks -> s <> t ++ r) -> trim_left_fuel toks fuel s = s.
Proof.
  intros H. destruct fuel; [reflexivity|]. cbn [trim_left_fuel].
  destruct (drop_space toks s) as [r|] eqn:D; [|reflexivity].
  destruct (drop_space_some _ _ _ D) as (t & Hin & E). exfalso. exact (H t r Hin E).
Qed.

Lemma trim_space_fix s : ~ starts_with_space s -> ~ ends_with_space s -> trim_space s = s.
Proof.
  intros Hs He. unfold trim_space, trim_left.
  rewrite trim_left_fuel_fix by (intros t r Hin E; apply Hs; now exists t, r).
  unfold trim_right. rewrite trim_left_fuel_fix; [apply rev_involutive|].
  intros t r Hin E. unfold rev_tokens in Hin. apply in_map_iff in Hin as (u & <- & Hu).
  apply He. exists u, (rev r). split; [assumption|].
  apply (f_equal (@rev Z)) in E. now rewrite rev_involutive, rev_app_distr, rev_involutive in E.
Qed.

(* ------------------------------------------------------------------ filepath.Base (unix) *)
Definition slash : Z := 47.
Fixpoint drop_while (p : Z -> bool) (s : bytes) : bytes :=
  match s with [] => [] | c :: r => if p c then drop_while p r else s end.
Fixpoint take_while (p : Z -> bool) (s : bytes) : bytes :=
  match s with [] => [] | c :: r => if p c then c :: take_while p r else [] end.

Definition path_base (s : bytes) : bytes :=
  match s with
  | [] => [46]                                                     (* "." *)
  | _ => let r := drop_while (fun c => c =? slash) (rev s) in      (* strip trailing slashes *)
         match r with
         | [] => [slash]                                           (* only slashes *)
         | _ => rev (take_while (fun c => negb (c =? slash)) r)    (* last element *)
         end
  end.

Lemma take_while_all p s : forallb p s = true -> take_while p s = s.
Proof. induction s as [|c r IH]; cbn; [reflexivity|]. destruct (p c); cbn; [intros H; now rewrite IH|discriminate]. Qed.

Lemma take_while_app_stop p a c b : forallb p a = true -> p c = false -> take_while p (a ++ c :: b) = a.
Proof. induction a as [|x a IH]; cbn; intros Ha Hc; [now rewrite Hc|]. destruct (p x); cbn in *; [now rewrite IH|discriminate]. Qed.

(* Base of dir/name (name non-empty, slash-free) is name *)
Lemma path_base_join d n :
  n <> [] -> ~ In slash n -> path_base (d ++ slash :: n) = n.
Proof.
  intros Hne Hns. unfold path_base.
  destruct (d ++ slash :: n) eqn:E; [destruct d; discriminate|]. rewrite <- E. clear E.
  rewrite rev_app_distr. cbn [rev]. rewrite <- app_assoc. cbn [app].
  assert (Hall : forallb (fun c => negb (c =? slash)) (rev n) = true).
  { apply forallb_forall. intros x Hx. apply in_rev in Hx.
    destruct (x =? slash) eqn:Ex; [apply Z.eqb_eq in Ex; subst; contradiction|reflexivity]. }
  destruct (rev n) as [|c rn] eqn:R.
  { apply (f_equal (@rev Z)) in R. rewrite rev_involutive in R. cbn in R. congruence. }
  cbn [app drop_while]. cbn [forallb] in Hall. apply andb_prop in Hall as [Hc Hrn].
  assert (Ec : (c =? slash) = false) by (destruct (c =? slash); [discriminate|reflexivity]).
  rewrite Ec.
  change (c :: rn ++ slash :: rev d) with ((c :: rn) ++ slash :: rev d).
  rewrite take_while_app_stop.
  - rewrite <- R. apply rev_involutive.
  - cbn [forallb]. now rewrite Hc, Hrn.
  - unfold slash. reflexivity.
Qed.

Lemma path_base_plain n : n <> [] -> ~ In slash n -> path_base n = n.
Proof.
  intros Hne Hns. unfold path_base. destruct n as [|x n]; [congruence|].
  assert (Hall : forallb (fun c => negb (c =? slash)) (rev (x :: n)) = true).
  { apply forallb_forall. intros y Hy. apply in_rev in Hy.
    destruct (y =? slash) eqn:Ey; [apply Z.eqb_eq in Ey; subst; contradiction|reflexivity]. }
  destruct (rev (x :: n)) as [|c rn] eqn:R.
  { apply (f_equal (@rev Z)) in R. rewrite rev_involutive in R. discriminate. }
  cbn [drop_while]. cbn [forallb] in Hall. apply andb_prop in Hall as [Hc Hrn].
  assert (Ec : (c =? slash) = false) by (destruct (c =? slash); [discriminate|reflexivity]).
  rewrite Ec. rewrite take_while_all by (cbn [forallb]; now rewrite Hc, Hrn).
  rewrite <- R. apply rev_involutive.
Qed.

(* ------------------------------------------------------------------ strconv.Itoa / %d *)
Fixpoint uint_bytes (u : Decimal.uint) : bytes :=
  match u with
  | Decimal.Nil => []
  | Decimal.D0 u => 48 :: uint_bytes u | Decimal.D1 u => 49 :: uint_bytes u
  | Decimal.D2 u => 50 :: uint_bytes u | Decimal.D3 u => 51 :: uint_bytes u
  | Decimal.D4 u => 52 :: uint_bytes u | Decimal.D5 u => 53 :: uint_bytes u
  | Decimal.D6 u => 54 :: uint_bytes u | Decimal.D7 u => 55 :: uint_bytes u
  | Decimal.D8 u => 56 :: uint_bytes u | Decimal.D9 u => 57 :: uint_bytes u
  end.

Definition itoa (z : Z) : bytes :=
  match Z.to_int z with
  | Decimal.Pos u => uint_bytes u
  | Decimal.Neg u => 45 :: uint_bytes u
  end.

(* ------------------------------------------------------------------ fmt.Sprintf, verbs %s %d %v %% *)
Inductive farg := AStr (s : bytes) | AInt (z : Z).

(* None: a verb/argument combination outside the modelled fragment (Go would print a %!verb(...) marker). *)
Fixpoint sprintf (f : bytes) (args : list farg) : option bytes :=
  match f with
  | [] => match args with [] => Some [] | _ => None end
  | c :: rest =>
      if c =? 37 then
        match rest with
        | [] => None
        | v :: rest' =>
            if v =? 37 then option_map (cons 37) (sprintf rest' args)
            else match args with
                 | [] => None
                 | a :: args' =>
                     match a with
                     | AStr s => if (v =? 115) || (v =? 118) then option_map (app s) (sprintf rest' args') else None
                     | AInt z => if (v =? 100) || (v =? 118) then option_map (app (itoa z)) (sprintf rest' args') else None
                     end
                 end
        end
      else option_map (cons c) (sprintf rest args)
  end.

Example itoa_ex : itoa 0 = [48] /\ itoa 1207 = [49;50;48;55] /\ itoa (-35) = [45;51;53].
Proof. repeat split; vm_compute; reflexivity. Qed.
Example base_ex : path_base [47;97;47;98;46;103;111] = [98;46;103;111] /\ path_base [47;47] = [47] /\ path_base [] = [46]
  /\ path_base [97;47;98;47;47] = [98] /\ path_base [101] = [101].
Proof. repeat split; vm_compute; reflexivity. Qed.
Example trim_ex : trim_space [32;9;97;32;98;194;160;10] = [97;32;98] /\ trim_space [32;226;128;131] = [] /\ trim_space [194;97;133] = [194;97;133].
Proof. repeat split; vm_compute; reflexivity. Qed.
Example split_ex : split_on 44 [97;44;44;98] = [[97];[];[98]] /\ split_on 44 [] = [[]] /\ split_on 44 [44] = [[];[]].
Proof. repeat split; vm_compute; reflexivity. Qed.
