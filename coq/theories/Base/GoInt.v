(* Go's 64-bit `int`: values are Z, every arithmetic result is wrapped explicitly. *)
From Coq Require Import ZArith Lia.
From RG.Base Require Import Outcome.
Local Open Scope Z_scope.

Definition int_min : Z := - 9223372036854775808.
Definition int_max : Z := 9223372036854775807.
Definition int_range (z : Z) : Prop := int_min <= z <= int_max.
Definition int_rangeb (z : Z) : bool := (int_min <=? z) && (z <=? int_max).

Definition wrap64 (z : Z) : Z := (z + 9223372036854775808) mod 18446744073709551616 - 9223372036854775808.

Definition iadd (a b : Z) : Z := wrap64 (a + b).
Definition isub (a b : Z) : Z := wrap64 (a - b).
Definition imul (a b : Z) : Z := wrap64 (a * b).
Definition ineg (a : Z) : Z := wrap64 (- a).
(* Go's / and % truncate towards zero; division by zero panics. *)
Definition iquot (a b : Z) : outcome Z := if b =? 0 then Panic PDivZero else Ok (wrap64 (Z.quot a b)).
Definition irem (a b : Z) : outcome Z := if b =? 0 then Panic PDivZero else Ok (Z.rem a b).

Lemma wrap64_id z : int_range z -> wrap64 z = z.
Proof.
  unfold int_range, int_min, int_max, wrap64. intros H.
  rewrite Z.mod_small by lia. lia.
Qed.

Lemma wrap64_range z : int_range (wrap64 z).
Proof.
  unfold int_range, int_min, int_max, wrap64.
  pose proof (Z.mod_pos_bound (z + 9223372036854775808) 18446744073709551616 ltac:(lia)). lia.
Qed.

Lemma iadd_id a b : int_range (a + b) -> iadd a b = a + b.
Proof. apply wrap64_id. Qed.
Lemma isub_id a b : int_range (a - b) -> isub a b = a - b.
Proof. apply wrap64_id. Qed.

Lemma iquot_2 a : int_range a -> iquot a 2 = Ok (Z.quot a 2).
Proof.
  intros H. unfold iquot. cbn [Z.eqb]. f_equal. apply wrap64_id.
  unfold int_range, int_min, int_max in *.
  pose proof (Z.quot_rem' a 2) as Hqr.
  pose proof (Z.rem_bound_abs a 2 ltac:(lia)) as Hb.
  lia.
Qed.
