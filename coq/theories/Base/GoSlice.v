(* Go slices/strings of bytes as lists; slicing is partial (cap is modelled as len,
   which is what every caller modelled here provides). *)
From Coq Require Import List ZArith Lia Bool.
From RG.Base Require Import Outcome.
Import ListNotations.
Local Open Scope Z_scope.

Definition bytes := list Z.

Section Slices.
Context {A : Type}.

Definition len (s : list A) : Z := Z.of_nat (length s).

Definition slice (s : list A) (lo hi : Z) : outcome (list A) :=
  if (0 <=? lo) && (lo <=? hi) && (hi <=? len s)
  then Ok (firstn (Z.to_nat (hi - lo)) (skipn (Z.to_nat lo) s))
  else Panic PSliceBounds.

Definition index (s : list A) (i : Z) : outcome A :=
  if (0 <=? i) && (i <? len s)
  then match nth_error s (Z.to_nat i) with Some x => Ok x | None => Panic PIndex end
  else Panic PIndex.

Definition is_prefix (p s : list A) : Prop := exists r, s = p ++ r.
Definition is_suffix (q s : list A) : Prop := exists r, s = r ++ q.

Lemma len_nonneg (s : list A) : 0 <= len s.
Proof. unfold len; lia. Qed.

Lemma len_app (a b : list A) : len (a ++ b) = len a + len b.
Proof. unfold len. rewrite app_length. lia. Qed.

Lemma len_nil : len (@nil A) = 0.
Proof. reflexivity. Qed.

Lemma slice_ok (s : list A) lo hi :
  0 <= lo -> lo <= hi -> hi <= len s ->
  slice s lo hi = Ok (firstn (Z.to_nat (hi - lo)) (skipn (Z.to_nat lo) s)).
Proof.
  intros H1 H2 H3. unfold slice.
  destruct (0 <=? lo) eqn:E1; [|lia].
  destruct (lo <=? hi) eqn:E2; [|lia].
  destruct (hi <=? len s) eqn:E3; [|lia].
  reflexivity.
Qed.

Lemma slice_panics (s : list A) lo hi :
  (lo < 0 \/ hi < lo \/ len s < hi) -> slice s lo hi = Panic PSliceBounds.
Proof.
  intros H. unfold slice.
  destruct (0 <=? lo) eqn:E1; [|reflexivity].
  destruct (lo <=? hi) eqn:E2; [|reflexivity].
  destruct (hi <=? len s) eqn:E3; [|reflexivity]. lia.
Qed.

Lemma len_firstn (s : list A) n : 0 <= n <= len s -> len (firstn (Z.to_nat n) s) = n.
Proof. unfold len. intros H. rewrite firstn_length. lia. Qed.

Lemma len_skipn (s : list A) n : 0 <= n <= len s -> len (skipn (Z.to_nat n) s) = len s - n.
Proof. unfold len. intros H. rewrite skipn_length. lia. Qed.

Lemma firstn_all_len (s : list A) n : len s <= n -> firstn (Z.to_nat n) s = s.
Proof. unfold len. intros H. apply firstn_all2. lia. Qed.

Lemma firstn_is_prefix (s : list A) n : is_prefix (firstn n s) s.
Proof. exists (skipn n s). symmetry. apply firstn_skipn. Qed.

Lemma skipn_is_suffix (s : list A) n : is_suffix (skipn n s) s.
Proof. exists (firstn n s). symmetry. apply firstn_skipn. Qed.

End Slices.

Definition make_cap (n : Z) : outcome unit := if n <? 0 then Panic PExplicit else Ok tt.

Fixpoint bytes_eqb (a b : bytes) : bool :=
  match a, b with
  | [], [] => true
  | x :: a', y :: b' => Z.eqb x y && bytes_eqb a' b'
  | _, _ => false
  end.

Lemma bytes_eqb_eq a : forall b, bytes_eqb a b = true <-> a = b.
Proof.
  induction a as [|x a IH]; destruct b as [|y b]; cbn; split; intros H; try discriminate; auto.
  - apply andb_prop in H as [H1 H2]. apply Z.eqb_eq in H1. apply IH in H2. now subst.
  - inversion H; subst. rewrite Z.eqb_refl. cbn. now apply IH.
Qed.
