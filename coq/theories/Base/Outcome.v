(* Outcome monad: every partial Go operation either yields a value or panics.
   Nothing is totalised with a default value. *)
From Coq Require Import List ZArith Lia.
Import ListNotations.

Inductive panic_kind := PSliceBounds | PIndex | PNilDeref | PDivZero | PExplicit | PTypeAssert | PFuel.

Inductive outcome (A : Type) : Type :=
| Ok (a : A)
| Panic (why : panic_kind).
Arguments Ok {A} a.
Arguments Panic {A} why.

Definition bind {A B} (x : outcome A) (f : A -> outcome B) : outcome B :=
  match x with Ok a => f a | Panic w => Panic w end.

Definition is_ok {A} (x : outcome A) : bool := match x with Ok _ => true | Panic _ => false end.

Lemma bind_ok {A B} (x : outcome A) (f : A -> outcome B) a : x = Ok a -> bind x f = f a.
Proof. intros ->; reflexivity. Qed.

Lemma bind_ok_inv {A B} (x : outcome A) (f : A -> outcome B) b :
  bind x f = Ok b -> exists a, x = Ok a /\ f a = Ok b.
Proof. destruct x as [a|w]; cbn; [eauto|discriminate]. Qed.
