(* RG.Locks.Frozen -- objects that are shared without a lock (what Load builds: rule set, compiled patterns, matchers,
   bytecode functions) inside the lock model: one Frozen field per object class.  A thread of the real system is an
   extracted lock/access path of Run with reads of such objects at arbitrary points in between.  Inserting reads of
   Frozen fields preserves the discipline check, so the race-freedom theorem of RG.Locks.Model covers those threads --
   provided no thread ever writes such a field, which is what the regenerated write-site scan establishes
   (RG.Locks.Confine.loadtime_read_only). *)
From Coq Require Import List NArith Bool.
From RG.Locks Require Import Model.
Import ListNotations.

Section Frozen.
  Variable guard : field -> fclass.

  (* q is p with reads of Frozen fields inserted anywhere *)
  Inductive with_frozen_reads : list op -> list op -> Prop :=
  | wfr_nil : with_frozen_reads [] []
  | wfr_keep o p q : with_frozen_reads p q -> with_frozen_reads (o :: p) (o :: q)
  | wfr_ins f p q : guard f = Frozen -> with_frozen_reads p q -> with_frozen_reads p (Read f :: q).

  Lemma with_frozen_reads_refl p : with_frozen_reads p p.
  Proof. induction p; constructor; assumption. Qed.

  Lemma ok_with_frozen_reads p q :
    with_frozen_reads p q -> forall h, ok guard h p = true -> ok guard h q = true.
  Proof.
    induction 1 as [|o p q W IH|f p q F W IH]; intros h H.
    - assumption.
    - destruct o; cbn in H |- *; try (apply andb_prop in H; destruct H as [H1 H2]; rewrite H1; cbn); auto.
    - cbn. rewrite F. cbn. auto.
  Qed.

  (* a write to a Frozen field is never accepted, wherever it stands *)
  Lemma ok_rejects_frozen_write pre f post h :
    guard f = Frozen -> ok guard h (pre ++ Write f :: post) = false.
  Proof.
    intros F. revert h. induction pre as [|o r IH]; intros h; cbn.
    - rewrite F. reflexivity.
    - destruct o; cbn; rewrite ?IH, ?andb_false_r; reflexivity.
  Qed.

  (* ANY number of threads, each running ANY path of a disciplined table with reads of Frozen fields inserted at ANY
     points, under ANY interleaving: no data race *)
  Theorem frozen_reads_race_free :
    forall table, disciplined guard table = true ->
    forall progs, Forall (fun q => exists p, In p table /\ with_frozen_reads p q) progs ->
    forall s, reachable (init progs) s -> ~ race s.
  Proof.
    intros table D progs F. apply (discipline_implies_race_free guard).
    unfold disciplined in *. rewrite forallb_forall in *. intros q Hq.
    rewrite Forall_forall in F. destruct (F q Hq) as [p [Hp W]].
    eapply ok_with_frozen_reads; [exact W | apply D; exact Hp].
  Qed.
End Frozen.
