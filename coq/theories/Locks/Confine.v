(* RG.Locks.Confine -- write sites of the code that can execute during Run: every written location belongs to a
   per-run object (RunnerState / rulesRunner and what hangs off them) or is a lock-guarded field of the engine-wide
   state. The site list is regenerated from source; this file holds the decidable classification and its meaning. *)
From Coq Require Import List Bool String Ascii.
Import ListNotations.
Local Open Scope string_scope.

Definition wsite := (string * string * string)%type.   (* function, owner struct, field path *)

Definition str_in (s : string) (l : list string) : bool := existsb (String.eqb s) l.

(* first component of a field path "a.b.c" *)
Fixpoint head_field (s : string) : string :=
  match s with
  | EmptyString => EmptyString
  | String c r => if Ascii.eqb c (Ascii.ascii_of_nat 46) then EmptyString else String c (head_field r)
  end.

Section Confine.
  Variable per_run : list string.                       (* owner structs that live in one run *)
  Variable guarded : list (string * string).            (* (owner, field) of lock-guarded engine-wide fields *)
  Variable inventory : list (string * list string).     (* regenerated field lists of some owners *)

  Definition field_known (owner field : string) : bool :=
    match find (fun e => String.eqb (fst e) owner) inventory with
    | None => true                                       (* owner not inventoried (another package's struct) *)
    | Some e => String.eqb field "*" || str_in (head_field field) (snd e)
    end.

  Definition confinedb (w : wsite) : bool :=
    let '(_, owner, field) := w in
    (str_in owner per_run && field_known owner field)
    || String.eqb owner "local-ref"
    || existsb (fun g => String.eqb owner (fst g) && String.eqb field (snd g)) guarded.

  Definition confined (w : wsite) : Prop :=
    let '(_, owner, field) := w in
    (In owner per_run /\ field_known owner field = true)
    \/ owner = "local-ref"
    \/ In (owner, field) guarded.

  Lemma str_in_In s l : str_in s l = true -> In s l.
  Proof.
    unfold str_in. rewrite existsb_exists. intros [x [H E]]. apply String.eqb_eq in E. subst. assumption.
  Qed.

  Lemma confinedb_sound w : confinedb w = true -> confined w.
  Proof.
    destruct w as [[fn owner] field]. unfold confinedb, confined. intros H.
    apply orb_prop in H. destruct H as [H|H]; [apply orb_prop in H; destruct H as [H|H]|].
    - apply andb_prop in H. destruct H as [H1 H2]. left. split; [apply str_in_In; assumption | assumption].
    - right. left. apply String.eqb_eq. assumption.
    - right. right. rewrite existsb_exists in H. destruct H as [[o f] [Hin E]]. cbn in E.
      apply andb_prop in E. destruct E as [E1 E2]. apply String.eqb_eq in E1, E2. subst. assumption.
  Qed.

  Theorem all_confined ws : forallb confinedb ws = true -> forall w, In w ws -> confined w.
  Proof. rewrite forallb_forall. intros H w Hw. apply confinedb_sound. auto. Qed.
End Confine.

(* ---------------------------------------------------------------- objects that are shared WITHOUT a lock are read-only
   The Load-time objects (rule set, compiled patterns, matchers, bytecode functions ...) are reachable from every run.
   If every write site is confined (owned by the run, or lock-guarded) and no Load-time struct is an owner that
   confinement admits, then no write site stores into a Load-time object. *)
Section ReadOnly.
  Variable per_run : list string.
  Variable guarded : list (string * string).
  Variable inventory : list (string * list string).
  Variable loadtime : list string.                      (* regenerated: struct types reachable from the loaded rule set *)

  Definition admits (o : string) : bool :=
    str_in o per_run || String.eqb o "local-ref" || existsb (fun g => String.eqb o (fst g)) guarded.

  Definition disjointb : bool := forallb (fun o => negb (admits o)) loadtime.

  Lemma confined_admits w : confined per_run guarded inventory w -> admits (snd (fst w)) = true.
  Proof.
    destruct w as [[fn owner] field]. unfold confined, admits. cbn [fst snd].
    intros [[H _] | [H | H]].
    - assert (E : str_in owner per_run = true).
      { unfold str_in. rewrite existsb_exists. exists owner. split; [assumption | apply String.eqb_refl]. }
      rewrite E. reflexivity.
    - subst. rewrite String.eqb_refl. rewrite orb_true_r. reflexivity.
    - assert (E : existsb (fun g => String.eqb owner (fst g)) guarded = true).
      { rewrite existsb_exists. exists (owner, field). split; [assumption | apply String.eqb_refl]. }
      rewrite E. apply orb_true_r.
  Qed.

  Theorem loadtime_read_only ws :
    forallb (confinedb per_run guarded inventory) ws = true -> disjointb = true ->
    forall w, In w ws -> ~ In (snd (fst w)) loadtime.
  Proof.
    intros Hc Hd w Hw Hin.
    pose proof (all_confined per_run guarded inventory ws Hc w Hw) as C.
    apply confined_admits in C.
    unfold disjointb in Hd. rewrite forallb_forall in Hd. specialize (Hd _ Hin).
    rewrite C in Hd. discriminate.
  Qed.
End ReadOnly.

(* substring test (field types that mention a synchronisation primitive) *)
Fixpoint has_sub (p s : string) : bool :=
  if String.prefix p s then true else match s with EmptyString => false | String _ r => has_sub p r end.
