(* RG.Locks.Front -- a memo table in front of a lookup whose answer depends on WHO asks.

   The natives behind ctx.GetType / ctx.GetInterface resolve a name relative to the package being checked
   (engineState.FindType: the dependencies of that package first, the engine's importer second).  Natives are bound
   once per engine and shared by all runs, so anything a native remembers between calls is an engine-wide table.
   [run_front] is such a table keyed by the name alone, filled by whoever asks first (under whatever lock: the
   model is sequential, the defect is not a data race).

   [front_sound_if_context_free]: if the answer is a function of the name alone the table is invisible -- every call
   returns what it returns alone.  [front_unsound_if_contexts_disagree]: as soon as two packages get different
   answers for one name, the history [p asks; q asks] already differs from the lone answers: q is served p's
   answer.  [front_order_dependent]: and the two orders of the same two calls give different results, so with
   concurrent runs the reports depend on the interleaving.  FindType itself never stores a dependency answer
   engine-wide (RG.Locks.Cache, step cs_dep); the instance obligation [natives_stateless] (coq/tmpl/C08) checks on
   the regenerated inventory that the natives hold no table of their own. *)
From Coq Require Import List Bool.
From RG.Locks Require Import Cache.
Import ListNotations.

Section Front.
  Variables key val ctx : Type.
  Variable key_eqb : key -> key -> bool.
  Hypothesis key_eqb_spec : forall a b, reflect (a = b) (key_eqb a b).
  (* what a lone call made for package p returns for the name k (None: an error, nothing is remembered) *)
  Variable answer : ctx -> key -> option val.

  Fixpoint run_front (tab : list (key * val)) (ops : list (ctx * key)) : list (option val) :=
    match ops with
    | [] => []
    | (p, k) :: r =>
        match lookup key_eqb k tab with
        | Some v => Some v :: run_front tab r
        | None => match answer p k with
                  | Some v => Some v :: run_front (store k v tab) r
                  | None => None :: run_front tab r
                  end
        end
    end.

  Definition lone_answers (ops : list (ctx * key)) : list (option val) := map (fun op => answer (fst op) (snd op)) ops.

  (* every entry is what ANY package gets for that name *)
  Definition tab_ok (tab : list (key * val)) : Prop :=
    forall k v, lookup key_eqb k tab = Some v -> forall p, answer p k = Some v.

  Lemma front_sound_from tab ops :
    (forall p q k, answer p k = answer q k) -> tab_ok tab -> run_front tab ops = lone_answers ops.
  Proof.
    intros CF. revert tab. induction ops as [|[p k] r IH]; intros tab OK; [reflexivity|].
    cbn [run_front lone_answers map fst snd].
    destruct (lookup key_eqb k tab) as [v|] eqn:L.
    - rewrite (OK k v L p). f_equal. apply IH. exact OK.
    - destruct (answer p k) as [v|] eqn:A.
      + f_equal. apply IH. intros k' v' L' p'.
        destruct (key_eqb_spec k' k) as [E|N].
        * subst k'. rewrite (lookup_store_same key val key_eqb key_eqb_spec) in L'. inversion L'; subst v'.
          rewrite (CF p' p k). exact A.
        * rewrite (lookup_store_other key val key_eqb key_eqb_spec) in L' by exact N. exact (OK k' v' L' p').
      + f_equal. apply IH. exact OK.
  Qed.

  Theorem front_sound_if_context_free :
    (forall p q k, answer p k = answer q k) -> forall ops, run_front [] ops = lone_answers ops.
  Proof. intros CF ops. apply front_sound_from; [exact CF|]. intros k v L. discriminate L. Qed.

  Theorem front_unsound_if_contexts_disagree :
    forall p q k v w, answer p k = Some v -> answer q k = Some w -> v <> w ->
      run_front [] [(p, k); (q, k)] <> lone_answers [(p, k); (q, k)].
  Proof.
    intros p q k v w Ap Aq N. cbn. rewrite Ap. cbn.
    destruct (key_eqb_spec k k) as [_|C]; [|congruence].
    rewrite Aq. intros E. inversion E. congruence.
  Qed.

  Theorem front_order_dependent :
    forall p q k v w, answer p k = Some v -> answer q k = Some w -> v <> w ->
      nth_error (run_front [] [(p, k); (q, k)]) 1 <> nth_error (run_front [] [(q, k); (p, k)]) 0.
  Proof.
    intros p q k v w Ap Aq N. cbn. rewrite Ap, Aq. cbn.
    destruct (key_eqb_spec k k) as [_|C]; [|congruence].
    cbn. intros E. inversion E. congruence.
  Qed.
End Front.

Arguments run_front {key val ctx} key_eqb answer tab ops.
Arguments lone_answers {key val ctx} answer ops.
