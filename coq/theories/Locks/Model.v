(* RG.Locks.Model -- threads as lists of lock / access operations, RWMutex enabledness under arbitrary
   interleaving, the per-thread lock discipline check, and the generic theorem
   [discipline_implies_race_free]: for ANY number of threads and ANY interleaving, if every thread program passes
   the decidable check, no reachable state has two conflicting accesses enabled.

   The step relation consults only the per-mutex reader count and writer flag (what sync.RWMutex knows); the [held]
   component of a thread is ghost state used by the invariant.  Enabledness is an over-approximation of
   sync.RWMutex (a pending Lock does not block new RLocks here), i.e. the model admits more interleavings. *)
From Coq Require Import List NArith Bool Arith Lia.
Import ListNotations.

Definition mutex := N.
Definition field := N.

Inductive mode := MR | MW.

Inductive op :=
| RLock (m : mutex) | RUnlock (m : mutex) | Lock (m : mutex) | Unlock (m : mutex)
| Read (f : field) | Write (f : field) | Local.

(* how a field is protected while Run calls are in flight *)
Inductive fclass :=
| Guarded (m : mutex)   (* every access under m; writes under m in write mode *)
| Frozen.               (* never written after loading; reads need no lock *)

Definition mode_eqb (a b : mode) : bool :=
  match a, b with MR, MR | MW, MW => true | _, _ => false end.

Definition lk_eqb (a b : mutex * mode) : bool := N.eqb (fst a) (fst b) && mode_eqb (snd a) (snd b).

Lemma lk_eqb_spec a b : reflect (a = b) (lk_eqb a b).
Proof.
  destruct a as [m1 d1], b as [m2 d2]; unfold lk_eqb; cbn [fst snd].
  destruct (N.eqb_spec m1 m2); destruct d1, d2; cbn; constructor; congruence.
Qed.

Fixpoint cnt (k : mutex * mode) (h : list (mutex * mode)) : nat :=
  match h with
  | [] => 0
  | x :: r => (if lk_eqb k x then 1 else 0) + cnt k r
  end.

Definition mem (k : mutex * mode) (h : list (mutex * mode)) : bool := existsb (lk_eqb k) h.

Fixpoint remove1 (k : mutex * mode) (h : list (mutex * mode)) : list (mutex * mode) :=
  match h with
  | [] => []
  | x :: r => if lk_eqb k x then r else x :: remove1 k r
  end.

Definition holds (m : mutex) (h : list (mutex * mode)) : bool := mem (m, MR) h || mem (m, MW) h.

Lemma mem_cnt k h : mem k h = true <-> cnt k h > 0.
Proof.
  induction h as [|x r IH]; cbn; [split; [discriminate | lia]|].
  destruct (lk_eqb k x); cbn; [split; [lia | reflexivity] | exact IH].
Qed.

Lemma cnt_remove1_same k h : mem k h = true -> S (cnt k (remove1 k h)) = cnt k h.
Proof.
  induction h as [|x r IH]; cbn; [discriminate|].
  destruct (lk_eqb k x) eqn:E; cbn; [reflexivity|].
  intros H. rewrite E. cbn. auto.
Qed.

Lemma cnt_remove1_other k k' h : k <> k' -> cnt k (remove1 k' h) = cnt k h.
Proof.
  intros N. induction h as [|x r IH]; cbn; [reflexivity|].
  destruct (lk_eqb_spec k' x) as [->|N'].
  - destruct (lk_eqb_spec k x); [congruence | reflexivity].
  - cbn. rewrite IH. reflexivity.
Qed.

(* ---------------------------------------------------------------- system *)

Record tstate := T { held : list (mutex * mode); rest : list op }.

Record sys := Sys { threads : list tstate; rcount : mutex -> nat; wheld : mutex -> bool }.

Definition upd {A} (f : mutex -> A) (m : mutex) (v : A) : mutex -> A :=
  fun x => if N.eqb x m then v else f x.

Inductive tstep : tstate -> (mutex -> nat) -> (mutex -> bool) -> tstate -> (mutex -> nat) -> (mutex -> bool) -> Prop :=
| ts_local h r rc wh : tstep (T h (Local :: r)) rc wh (T h r) rc wh
| ts_read h r rc wh f : tstep (T h (Read f :: r)) rc wh (T h r) rc wh
| ts_write h r rc wh f : tstep (T h (Write f :: r)) rc wh (T h r) rc wh
| ts_rlock h r rc wh m : wh m = false ->
    tstep (T h (RLock m :: r)) rc wh (T ((m, MR) :: h) r) (upd rc m (S (rc m))) wh
| ts_runlock h r rc wh m : rc m > 0 ->
    tstep (T h (RUnlock m :: r)) rc wh (T (remove1 (m, MR) h) r) (upd rc m (pred (rc m))) wh
| ts_lock h r rc wh m : wh m = false -> rc m = 0 ->
    tstep (T h (Lock m :: r)) rc wh (T ((m, MW) :: h) r) rc (upd wh m true)
| ts_unlock h r rc wh m : wh m = true ->
    tstep (T h (Unlock m :: r)) rc wh (T (remove1 (m, MW) h) r) rc (upd wh m false).

(* one step of the system: any thread whose next operation is enabled may move *)
Inductive step : sys -> sys -> Prop :=
| step_at l1 t l2 rc wh t' rc' wh' :
    tstep t rc wh t' rc' wh' ->
    step (Sys (l1 ++ t :: l2) rc wh) (Sys (l1 ++ t' :: l2) rc' wh').

Inductive reachable (s0 : sys) : sys -> Prop :=
| reach_refl : reachable s0 s0
| reach_step s s' : reachable s0 s -> step s s' -> reachable s0 s'.

Definition init (progs : list (list op)) : sys :=
  Sys (map (fun p => T [] p) progs) (fun _ => 0) (fun _ => false).

(* the next operation of a thread is an access to f; true = write *)
Definition next_access (t : tstate) (f : field) (w : bool) : Prop :=
  match rest t with
  | Read g :: _ => g = f /\ w = false
  | Write g :: _ => g = f /\ w = true
  | _ => False
  end.

(* a data race: two different threads are both about to access one field, at least one of them writing *)
Definition race (s : sys) : Prop :=
  exists l1 t1 l2 t2 l3 f w1 w2,
    threads s = l1 ++ t1 :: l2 ++ t2 :: l3 /\
    next_access t1 f w1 /\ next_access t2 f w2 /\ (w1 = true \/ w2 = true).

(* ---------------------------------------------------------------- the discipline *)

Section Discipline.
  Variable guard : field -> fclass.

  (* symbolic execution of one thread program from the held set [h] *)
  Fixpoint ok (h : list (mutex * mode)) (p : list op) : bool :=
    match p with
    | [] => match h with [] => true | _ => false end
    | Local :: r => ok h r
    | Read f :: r => match guard f with Frozen => true | Guarded m => holds m h end && ok h r
    | Write f :: r => match guard f with Frozen => false | Guarded m => mem (m, MW) h end && ok h r
    | RLock m :: r => negb (holds m h) && ok ((m, MR) :: h) r
    | Lock m :: r => negb (holds m h) && ok ((m, MW) :: h) r
    | RUnlock m :: r => mem (m, MR) h && ok (remove1 (m, MR) h) r
    | Unlock m :: r => mem (m, MW) h && ok (remove1 (m, MW) h) r
    end.

  Definition disciplined (progs : list (list op)) : bool := forallb (ok []) progs.

  Fixpoint total (k : mutex * mode) (ts : list tstate) : nat :=
    match ts with
    | [] => 0
    | t :: r => cnt k (held t) + total k r
    end.

  Lemma total_app k a b : total k (a ++ b) = total k a + total k b.
  Proof. induction a; cbn; [reflexivity | rewrite IHa; lia]. Qed.

  Record inv (s : sys) : Prop := {
    inv_ok : Forall (fun t => ok (held t) (rest t) = true) (threads s);
    inv_r : forall m, rcount s m = total (m, MR) (threads s);
    inv_w : forall m, (if wheld s m then 1 else 0) = total (m, MW) (threads s);
    inv_excl : forall m, wheld s m = true -> rcount s m = 0
  }.

  Lemma total_init k progs : total k (map (fun p => T [] p) progs) = 0.
  Proof. induction progs; cbn; auto. Qed.

  Lemma inv_init progs : disciplined progs = true -> inv (init progs).
  Proof.
    intros D. constructor; cbn.
    - apply Forall_forall. intros t Ht. apply in_map_iff in Ht. destruct Ht as [p [<- Hp]]. cbn.
      unfold disciplined in D. rewrite forallb_forall in D. auto.
    - intros. rewrite total_init. reflexivity.
    - intros. rewrite total_init. reflexivity.
    - discriminate.
  Qed.

  Lemma upd_same {A} (f : mutex -> A) m v : upd f m v m = v.
  Proof. unfold upd. rewrite N.eqb_refl. reflexivity. Qed.

  Lemma upd_other {A} (f : mutex -> A) m v x : x <> m -> upd f m v x = f x.
  Proof. unfold upd. intros H. destruct (N.eqb_spec x m); congruence. Qed.

  Lemma lk_neq_m (m m' : mutex) (d d' : mode) : m <> m' -> (m, d) <> (m', d').
  Proof. congruence. Qed.

  Lemma cnt_cons_other k x h : k <> x -> cnt k (x :: h) = cnt k h.
  Proof. intros N. cbn. destruct (lk_eqb_spec k x); [congruence | reflexivity]. Qed.

  Lemma cnt_cons_same k h : cnt k (k :: h) = S (cnt k h).
  Proof. cbn. destruct (lk_eqb_spec k k); [reflexivity | congruence]. Qed.

  Lemma inv_step s s' : inv s -> step s s' -> inv s'.
  Proof.
    intros I St. destruct St as [l1 t l2 rc wh t' rc' wh' TS].
    destruct I as [Iok Ir Iw Ix]. cbn in *.
    assert (Hok : ok (held t) (rest t) = true).
    { rewrite Forall_forall in Iok. apply Iok. apply in_or_app. right. left. reflexivity. }
    assert (Frame : forall t'', ok (held t'') (rest t'') = true ->
              Forall (fun t => ok (held t) (rest t) = true) (l1 ++ t'' :: l2)).
    { intros t'' H. apply Forall_app in Iok. destruct Iok as [A B]. inversion B; subst.
      apply Forall_app. split; [assumption | constructor; assumption]. }
    assert (Tot : forall k, total k (l1 ++ t :: l2) = total k l1 + cnt k (held t) + total k l2).
    { intros. rewrite total_app. cbn. lia. }
    assert (Tot' : forall k, total k (l1 ++ t' :: l2) = total k l1 + cnt k (held t') + total k l2).
    { intros. rewrite total_app. cbn. lia. }
    inversion TS; subst; cbn [held rest] in *.
    - (* local *) constructor; cbn; auto.
      + intros m. rewrite Ir, Tot, Tot'. reflexivity.
      + intros m. rewrite Iw, Tot, Tot'. reflexivity.
    - (* read *) apply andb_prop in Hok. destruct Hok as [_ Hok]. constructor; cbn; auto.
      + intros m. rewrite Ir, Tot, Tot'. reflexivity.
      + intros m. rewrite Iw, Tot, Tot'. reflexivity.
    - (* write *) apply andb_prop in Hok. destruct Hok as [_ Hok]. constructor; cbn; auto.
      + intros m. rewrite Ir, Tot, Tot'. reflexivity.
      + intros m. rewrite Iw, Tot, Tot'. reflexivity.
    - (* rlock *) apply andb_prop in Hok. destruct Hok as [_ Hok]. constructor; cbn; auto.
      + intros x. rewrite Tot'. cbn [held]. destruct (N.eq_dec x m) as [->|N].
        * rewrite upd_same, cnt_cons_same, Ir, Tot. cbn [held]. lia.
        * rewrite upd_other by assumption. rewrite cnt_cons_other by (apply lk_neq_m; assumption).
          rewrite Ir, Tot. reflexivity.
      + intros x. rewrite Iw, Tot, Tot'. cbn [held]. rewrite cnt_cons_other by congruence. reflexivity.
      + intros x Hx. destruct (N.eq_dec x m) as [->|N]; [congruence|].
        rewrite upd_other by assumption. auto.
    - (* runlock *) apply andb_prop in Hok. destruct Hok as [Hm Hok]. constructor; cbn; auto.
      + intros x. rewrite Tot'. cbn [held]. destruct (N.eq_dec x m) as [->|N].
        * rewrite upd_same. pose proof (cnt_remove1_same _ _ Hm). rewrite Ir, Tot. cbn [held]. lia.
        * rewrite upd_other by assumption. rewrite cnt_remove1_other by (apply lk_neq_m; assumption).
          rewrite Ir, Tot. reflexivity.
      + intros x. rewrite Iw, Tot, Tot'. cbn [held]. rewrite cnt_remove1_other by congruence. reflexivity.
      + intros x Hx. destruct (N.eq_dec x m) as [->|N].
        * rewrite upd_same. rewrite (Ix _ Hx). reflexivity.
        * rewrite upd_other by assumption. auto.
    - (* lock *) apply andb_prop in Hok. destruct Hok as [_ Hok]. constructor; cbn; auto.
      + intros x. rewrite Ir, Tot, Tot'. cbn [held]. rewrite cnt_cons_other by congruence. reflexivity.
      + intros x. rewrite Tot'. cbn [held]. destruct (N.eq_dec x m) as [->|N].
        * rewrite upd_same, cnt_cons_same. specialize (Iw m). rewrite H in Iw. rewrite Tot in Iw. cbn [held] in Iw. lia.
        * rewrite upd_other by assumption. rewrite cnt_cons_other by (apply lk_neq_m; assumption).
          rewrite Iw, Tot. reflexivity.
      + intros x Hx. destruct (N.eq_dec x m) as [->|N]; [assumption|].
        rewrite upd_other in Hx by assumption. auto.
    - (* unlock *) apply andb_prop in Hok. destruct Hok as [Hm Hok]. constructor; cbn; auto.
      + intros x. rewrite Ir, Tot, Tot'. cbn [held]. rewrite cnt_remove1_other by congruence. reflexivity.
      + intros x. rewrite Tot'. cbn [held]. destruct (N.eq_dec x m) as [->|N].
        * rewrite upd_same. pose proof (cnt_remove1_same _ _ Hm). specialize (Iw m). rewrite H in Iw.
          rewrite Tot in Iw. cbn [held] in Iw. lia.
        * rewrite upd_other by assumption. rewrite cnt_remove1_other by (apply lk_neq_m; assumption).
          rewrite Iw, Tot. reflexivity.
      + intros x Hx. destruct (N.eq_dec x m) as [->|N].
        * rewrite upd_same in Hx. discriminate.
        * rewrite upd_other in Hx by assumption. auto.
  Qed.

  Lemma inv_reachable progs s : disciplined progs = true -> reachable (init progs) s -> inv s.
  Proof.
    intros D R. induction R; [apply inv_init; assumption | eapply inv_step; eassumption].
  Qed.

  (* what the check guarantees about a thread whose next operation is an access *)
  Lemma ok_access t f w :
    ok (held t) (rest t) = true -> next_access t f w ->
    exists m, guard f = Guarded m /\ (w = true -> mem (m, MW) (held t) = true) /\ holds m (held t) = true
    \/ guard f = Frozen /\ w = false.
  Proof.
    unfold next_access. destruct (rest t) as [|o r]; [tauto|].
    destruct o; try tauto; cbn; intros H [-> ->]; apply andb_prop in H; destruct H as [H _];
      destruct (guard f) as [m|] eqn:G.
    - exists m. left. repeat split; [discriminate | assumption].
    - exists 0%N. right. split; reflexivity.
    - exists m. left. repeat split; [auto | unfold holds; rewrite H; apply orb_true_r].
    - discriminate.
  Qed.

  Lemma no_race_of_inv s : inv s -> ~ race s.
  Proof.
    intros [Iok Ir Iw Ix] (l1 & t1 & l2 & t2 & l3 & f & w1 & w2 & E & A1 & A2 & W).
    rewrite E in *. clear E.
    assert (O1 : ok (held t1) (rest t1) = true).
    { rewrite Forall_forall in Iok. apply Iok. apply in_or_app. right. left. reflexivity. }
    assert (O2 : ok (held t2) (rest t2) = true).
    { rewrite Forall_forall in Iok. apply Iok. apply in_or_app. right. right. apply in_or_app. right. left. reflexivity. }
    destruct (ok_access _ _ _ O1 A1) as [m1 [(G1 & W1 & H1) | (G1 & F1)]];
    destruct (ok_access _ _ _ O2 A2) as [m2 [(G2 & W2 & H2) | (G2 & F2)]]; try congruence.
    2:{ subst. destruct W; discriminate. }
    assert (m2 = m1) by congruence. subst m2.
    assert (TW : forall t t', mem (m1, MW) (held t) = true -> holds m1 (held t') = true ->
                 total (m1, MW) (l1 ++ t1 :: l2 ++ t2 :: l3) >= cnt (m1, MW) (held t) + cnt (m1, MW) (held t') ->
                 total (m1, MR) (l1 ++ t1 :: l2 ++ t2 :: l3) >= cnt (m1, MR) (held t') -> False).
    { intros t t' Hw Hh GeW GeR. apply mem_cnt in Hw.
      specialize (Iw m1). specialize (Ir m1). specialize (Ix m1).
      destruct (wheld s m1) eqn:WH; [|lia].
      specialize (Ix eq_refl). unfold holds in Hh. apply orb_prop in Hh. destruct Hh as [Hh|Hh]; apply mem_cnt in Hh; lia. }
    assert (TotW : total (m1, MW) (l1 ++ t1 :: l2 ++ t2 :: l3) >= cnt (m1, MW) (held t1) + cnt (m1, MW) (held t2)).
    { rewrite total_app. cbn. rewrite total_app. cbn. lia. }
    assert (TotR1 : total (m1, MR) (l1 ++ t1 :: l2 ++ t2 :: l3) >= cnt (m1, MR) (held t1)).
    { rewrite total_app. cbn. lia. }
    assert (TotR2 : total (m1, MR) (l1 ++ t1 :: l2 ++ t2 :: l3) >= cnt (m1, MR) (held t2)).
    { rewrite total_app. cbn. rewrite total_app. cbn. lia. }
    destruct W as [-> | ->].
    - apply (TW t1 t2); auto.
    - apply (TW t2 t1); auto. lia.
  Qed.

  (* THE generic theorem: any number of threads, any interleaving *)
  Theorem discipline_implies_race_free :
    forall progs, disciplined progs = true ->
    forall s, reachable (init progs) s -> ~ race s.
  Proof. intros progs D s R. apply no_race_of_inv. eapply inv_reachable; eassumption. Qed.

  Lemma disciplined_incl progs progs' :
    disciplined progs = true -> incl progs' progs -> disciplined progs' = true.
  Proof.
    unfold disciplined. rewrite !forallb_forall. intros H I p Hp. apply H. apply I. assumption.
  Qed.

  (* any number of threads, each running any program of a disciplined finite set *)
  Corollary disciplined_set_race_free :
    forall table, disciplined table = true ->
    forall progs, incl progs table ->
    forall s, reachable (init progs) s -> ~ race s.
  Proof.
    intros table D progs I. apply discipline_implies_race_free. eapply disciplined_incl; eassumption.
  Qed.

  (* mutual exclusion as a by-product: a writer excludes every other holder *)
  Theorem writer_excludes :
    forall progs, disciplined progs = true ->
    forall s, reachable (init progs) s ->
    forall m, total (m, MW) (threads s) <= 1 /\ (total (m, MW) (threads s) = 1 -> total (m, MR) (threads s) = 0).
  Proof.
    intros progs D s R m. destruct (inv_reachable _ _ D R) as [_ Ir Iw Ix].
    specialize (Iw m). specialize (Ir m). specialize (Ix m).
    destruct (wheld s m); [|lia]. specialize (Ix eq_refl). lia.
  Qed.
End Discipline.
