(* RG.Locks.Sites -- the access-site table of a path (function, field, R/W, locks held), its relation to the
   discipline check, and the shape check that ties an extracted path of FindType to the protocol of RG.Locks.Cache. *)
From Coq Require Import List NArith Bool String.
From RG.Locks Require Import Model.
Import ListNotations.

Definition site := (N * field * bool * list (mutex * mode))%type.

(* ops are paired with the id of the function in which they occur *)
Fixpoint path_sites (h : list (mutex * mode)) (p : list (op * N)) : list site :=
  match p with
  | [] => []
  | (Read f, s) :: r => (s, f, false, h) :: path_sites h r
  | (Write f, s) :: r => (s, f, true, h) :: path_sites h r
  | (RLock m, _) :: r => path_sites ((m, MR) :: h) r
  | (Lock m, _) :: r => path_sites ((m, MW) :: h) r
  | (RUnlock m, _) :: r => path_sites (remove1 (m, MR) h) r
  | (Unlock m, _) :: r => path_sites (remove1 (m, MW) h) r
  | (Local, _) :: r => path_sites h r
  end.

Section SiteDiscipline.
  Variable guard : field -> fclass.

  Definition site_okb (s : site) : bool :=
    let '(_, f, w, h) := s in
    match guard f with
    | Frozen => negb w
    | Guarded m => if w then mem (m, MW) h else holds m h
    end.

  (* the path check implies that every row of the path's site table is in order *)
  Lemma ok_sites p : forall h, ok guard h (map fst p) = true -> forallb site_okb (path_sites h p) = true.
  Proof.
    induction p as [|[o s] r IH]; intros h H; [reflexivity|].
    destruct o; cbn in H |- *; try (apply andb_prop in H; destruct H as [H1 H2]); auto.
    - rewrite (IH _ H2). destruct (guard f); cbn; rewrite ?H1; auto.
    - rewrite (IH _ H2). destruct (guard f); [|discriminate]. cbn. rewrite H1. auto.
  Qed.
End SiteDiscipline.

(* ---------------------------------------------------------------- FindType shape *)
(* projection of a path on one mutex and one field *)
Definition on_mf (m : mutex) (f : field) (o : op) : bool :=
  match o with
  | RLock a | RUnlock a | Lock a | Unlock a => N.eqb a m
  | Read g | Write g => N.eqb g f
  | Local => false
  end.

Fixpoint writes_then_unlock (m : mutex) (l : list op) : bool :=
  match l with
  | [Unlock _] => true
  | Write _ :: r => writes_then_unlock m r
  | _ => false
  end.

(* nothing  |  RLock; Read; RUnlock  [ Lock; Write*; Unlock ]   -- the event language of one call of the protocol in
   RG.Locks.Cache (answer of the calling package's dependencies: neither the lock nor the cache is touched / hit /
   miss+error / miss+store) *)
Definition conforms (m : mutex) (f : field) (p : list op) : bool :=
  match filter (on_mf m f) p with
  | [] => true
  | RLock _ :: Read _ :: RUnlock _ :: rest =>
      match rest with
      | [] => true
      | Lock _ :: rest' => writes_then_unlock m rest'
      | _ => false
      end
  | _ => false
  end.

Local Open Scope N_scope.

Example conforms_dependency_answer : conforms 0 3 [RLock 1; Read 4; RUnlock 1] = true.
Proof. reflexivity. Qed.
Example conforms_hit : conforms 0 3 [RLock 0; Read 3; RUnlock 0] = true.
Proof. reflexivity. Qed.
Example conforms_miss : conforms 0 3 [RLock 0; Read 3; RUnlock 0; Lock 0; RLock 1; Read 4; RUnlock 1; Write 3; Write 3; Unlock 0] = true.
Proof. reflexivity. Qed.
Example conforms_rejects_store_after_unlock : conforms 0 3 [RLock 0; Read 3; RUnlock 0; Lock 0; Unlock 0; Write 3] = false.
Proof. reflexivity. Qed.
Example conforms_rejects_unlocked_lookup : conforms 0 3 [Read 3; Lock 0; Write 3; Unlock 0] = false.
Proof. reflexivity. Qed.
