(* RG.Locks.Progress -- lock ordering and deadlock freedom.
   A thread program is [ordered] for a rank function when every acquisition takes a mutex whose rank is strictly above
   the ranks of all mutexes the thread holds at that point.  [ordered_implies_progress]: for ANY number of disciplined
   and ordered threads and ANY interleaving, a reachable state in which some thread is unfinished always has an
   enabled step -- the system never deadlocks on its own locks.  (Fairness of the Go scheduler and of sync.RWMutex --
   e.g. writer preference -- is outside this model: enabledness here is the over-approximation of Model.v.) *)
From Coq Require Import List NArith Bool Arith Lia.
From RG.Locks Require Import Model.
Import ListNotations.

Section Progress.
  Variable guard : field -> fclass.
  Variable rank : mutex -> nat.

  Definition above (m : mutex) (h : list (mutex * mode)) : bool :=
    forallb (fun x => Nat.ltb (rank (fst x)) (rank m)) h.

  Fixpoint ordered (h : list (mutex * mode)) (p : list op) : bool :=
    match p with
    | [] => true
    | RLock m :: r => above m h && ordered ((m, MR) :: h) r
    | Lock m :: r => above m h && ordered ((m, MW) :: h) r
    | RUnlock m :: r => ordered (remove1 (m, MR) h) r
    | Unlock m :: r => ordered (remove1 (m, MW) h) r
    | _ :: r => ordered h r
    end.

  Definition all_ordered (progs : list (list op)) : bool := forallb (ordered []) progs.

  Definition ord_inv (s : sys) : Prop := Forall (fun t => ordered (held t) (rest t) = true) (threads s).

  Lemma ord_init progs : all_ordered progs = true -> ord_inv (init progs).
  Proof.
    intros H. unfold ord_inv. cbn. apply Forall_forall. intros t Ht. apply in_map_iff in Ht.
    destruct Ht as [p [<- Hp]]. cbn. unfold all_ordered in H. rewrite forallb_forall in H. auto.
  Qed.

  Lemma ord_step s s' : ord_inv s -> step s s' -> ord_inv s'.
  Proof.
    intros I St. destruct St as [l1 t l2 rc wh t' rc' wh' TS]. unfold ord_inv in *. cbn in *.
    apply Forall_app in I. destruct I as [A B]. inversion B as [|? ? Ht C]; subst.
    apply Forall_app. split; [assumption|]. constructor; [|assumption].
    inversion TS; subst; cbn [held rest] in *; cbn in Ht; try assumption;
      try (apply andb_prop in Ht; destruct Ht as [_ Ht]; assumption).
  Qed.

  Lemma ord_reachable progs s : all_ordered progs = true -> reachable (init progs) s -> ord_inv s.
  Proof. intros O R. induction R; [apply ord_init; assumption | eapply ord_step; eassumption]. Qed.

  (* who holds a lock that the counters say is held *)
  Lemma total_pos_holder k ts : total k ts > 0 -> exists t, In t ts /\ cnt k (held t) > 0.
  Proof.
    induction ts as [|t r IH]; cbn; [lia|]. intros H.
    destruct (Nat.eq_dec (cnt k (held t)) 0) as [E|N].
    - destruct IH as [t' [Hin Hc]]; [lia|]. exists t'. auto.
    - exists t. split; [auto | lia].
  Qed.

  (* the mutex a thread is waiting to acquire *)
  Definition wants (t : tstate) : option mutex :=
    match rest t with
    | RLock m :: _ | Lock m :: _ => Some m
    | _ => None
    end.

  Definition finished (t : tstate) : Prop := rest t = [].

  Lemma cnt_above m d h x : above x h = true -> cnt (m, d) h > 0 -> rank m < rank x.
  Proof.
    unfold above. induction h as [|y r IH]; cbn; [lia|]. intros H C.
    apply andb_prop in H. destruct H as [H1 H2].
    destruct (lk_eqb_spec (m, d) y) as [<-|N].
    - cbn in H1. apply Nat.ltb_lt in H1. assumption.
    - apply IH; [assumption | cbn in C; lia].
  Qed.

  (* a thread that is not at an acquisition can always move *)
  Lemma non_acquire_enabled s l1 t l2 :
    inv guard s -> threads s = l1 ++ t :: l2 -> rest t <> [] -> wants t = None ->
    exists s', step s s'.
  Proof.
    intros I E NF W. destruct s as [ts rc wh]. cbn in E. subst ts.
    destruct I as [Iok Ir Iw Ix]. cbn in *.
    assert (Hok : ok guard (held t) (rest t) = true).
    { rewrite Forall_forall in Iok. apply Iok. apply in_or_app. right. left. reflexivity. }
    destruct t as [h p]. cbn in *. destruct p as [|o r]; [congruence|]. unfold wants in W. cbn in W.
    destruct o; try discriminate.
    - (* RUnlock *) cbn in Hok. apply andb_prop in Hok. destruct Hok as [Hm _].
      eexists. apply step_at. apply ts_runlock. rewrite Ir. apply mem_cnt in Hm.
      rewrite total_app. cbn. lia.
    - (* Unlock *) cbn in Hok. apply andb_prop in Hok. destruct Hok as [Hm _].
      eexists. apply step_at. apply ts_unlock. apply mem_cnt in Hm.
      specialize (Iw m). rewrite total_app in Iw. cbn in Iw. destruct (wh m); [reflexivity | lia].
    - eexists. apply step_at. apply ts_read.
    - eexists. apply step_at. apply ts_write.
    - eexists. apply step_at. apply ts_local.
  Qed.

  (* among the threads of a list that wait for a mutex, one waits for a mutex of maximal rank *)
  Lemma max_wanted ts : (exists t m, In t ts /\ wants t = Some m) ->
    exists t m, In t ts /\ wants t = Some m /\ forall t' m', In t' ts -> wants t' = Some m' -> rank m' <= rank m.
  Proof.
    induction ts as [|a r IH]; intros [t [m [Hin W]]]; [destruct Hin|].
    destruct (wants a) as [ma|] eqn:Wa.
    - assert (Hr : (exists t m, In t r /\ wants t = Some m) \/ ~ (exists t m, In t r /\ wants t = Some m)).
      { clear. induction r as [|b r IH]; [right; intros [t [m [[] _]]]|].
        destruct (wants b) as [mb|] eqn:Wb; [left; exists b, mb; split; [left; reflexivity | assumption]|].
        destruct IH as [[t [m [Hin W]]] | N]; [left; exists t, m; split; [right; assumption | assumption]|].
        right. intros [t [m [[<-|Hin] W]]]; [congruence | apply N; exists t, m; auto]. }
      destruct Hr as [Hr|Hr].
      + destruct (IH Hr) as [t1 [m1 [Hin1 [W1 Mx]]]].
        destruct (le_lt_dec (rank ma) (rank m1)).
        * exists t1, m1. split; [right; assumption|]. split; [assumption|].
          intros t' m' [<-|Hin'] W'; [rewrite Wa in W'; inversion W'; subst; assumption | eapply Mx; eassumption].
        * exists a, ma. split; [left; reflexivity|]. split; [assumption|].
          intros t' m' [<-|Hin'] W'; [rewrite Wa in W'; inversion W'; subst; lia|].
          specialize (Mx _ _ Hin' W'). lia.
      + exists a, ma. split; [left; reflexivity|]. split; [assumption|].
        intros t' m' [<-|Hin'] W'; [rewrite Wa in W'; inversion W'; subst; lia|].
        exfalso. apply Hr. exists t', m'. auto.
    - destruct Hin as [<-|Hin]; [congruence|].
      destruct IH as [t1 [m1 [Hin1 [W1 Mx]]]]; [exists t, m; auto|].
      exists t1, m1. split; [right; assumption|]. split; [assumption|].
      intros t' m' [<-|Hin'] W'; [congruence | eapply Mx; eassumption].
  Qed.

  Lemma in_split_threads (t : tstate) ts : In t ts -> exists l1 l2, ts = l1 ++ t :: l2.
  Proof. apply in_split. Qed.

  Definition movable (t : tstate) : bool :=
    match rest t with
    | [] => false
    | RLock _ :: _ | Lock _ :: _ => false
    | _ :: _ => true
    end.

  Lemma movable_spec t : movable t = true -> rest t <> [] /\ wants t = None.
  Proof. unfold movable, wants. destruct (rest t) as [|o r]; [discriminate|]. destruct o; try discriminate; split; congruence. Qed.

  Lemma not_movable_spec t : movable t = false -> rest t <> [] -> exists m, wants t = Some m.
  Proof. unfold movable, wants. destruct (rest t) as [|o r]; [congruence|]. destruct o; try discriminate; eauto. Qed.

  Theorem ordered_implies_progress :
    forall progs, disciplined guard progs = true -> all_ordered progs = true ->
    forall s, reachable (init progs) s ->
      (exists t, In t (threads s) /\ ~ finished t) -> exists s', step s s'.
  Proof.
    intros progs D O s R [t0 [Hin0 NF0]].
    pose proof (inv_reachable guard _ _ D R) as I.
    pose proof (ord_reachable _ _ O R) as OI.
    destruct (existsb movable (threads s)) eqn:Mv.
    { (* a thread that is not at an acquisition moves *)
      apply existsb_exists in Mv. destruct Mv as [t [Hin Hm]]. apply movable_spec in Hm. destruct Hm as [NF W].
      destruct (in_split_threads _ _ Hin) as [l1 [l2 E]]. eapply non_acquire_enabled; eauto. }
    (* every unfinished thread waits for a mutex *)
    assert (Wait : forall t, In t (threads s) -> rest t <> [] -> exists m, wants t = Some m).
    { intros t Hin NF. apply not_movable_spec; [|assumption].
      destruct (movable t) eqn:M; [|reflexivity].
      assert (existsb movable (threads s) = true) by (apply existsb_exists; eauto). congruence. }
    destruct (Wait t0 Hin0 NF0) as [m0 W0].
    destruct (max_wanted (threads s)) as [t [m [Hin [W Mx]]]]; [exists t0, m0; auto|].
    destruct (in_split_threads _ _ Hin) as [l1 [l2 E]].
    destruct s as [ts rc wh]. cbn in *. subst ts.
    destruct I as [Iok Ir Iw Ix]. cbn in *.
    (* nobody holds m: a holder would be unfinished, hence waiting for a mutex of rank above m *)
    assert (Free : forall d, total (m, d) (l1 ++ t :: l2) = 0).
    { intros d. destruct (Nat.eq_dec (total (m, d) (l1 ++ t :: l2)) 0) as [Z|NZ]; [assumption|exfalso].
      destruct (total_pos_holder (m, d) (l1 ++ t :: l2)) as [h [Hh Ch]]; [lia|].
      assert (Okh : ok guard (held h) (rest h) = true) by (rewrite Forall_forall in Iok; auto).
      assert (Ordh : ordered (held h) (rest h) = true) by (unfold ord_inv in OI; cbn in OI; rewrite Forall_forall in OI; auto).
      assert (NFh : rest h <> []).
      { intros Eh. rewrite Eh in Okh. cbn in Okh. destruct (held h); [cbn in Ch; lia | discriminate]. }
      destruct (Wait h Hh NFh) as [m' Wh].
      specialize (Mx h m' Hh Wh).
      unfold wants in Wh. destruct (rest h) as [|o r]; [congruence|].
      assert (Ab : above m' (held h) = true).
      { destruct o; try discriminate; inversion Wh; subst; cbn in Ordh; apply andb_prop in Ordh; tauto. }
      pose proof (cnt_above m d (held h) m' Ab Ch). lia. }
    assert (Wf : wh m = false).
    { specialize (Iw m). rewrite (Free MW) in Iw. destruct (wh m); [discriminate | reflexivity]. }
    assert (Rf : rc m = 0) by (rewrite Ir; apply Free).
    destruct t as [h p]. unfold wants in W. cbn in W. destruct p as [|o r]; [discriminate|].
    destruct o; try discriminate; inversion W; subst.
    - eexists. apply step_at. apply ts_rlock. assumption.
    - eexists. apply step_at. apply ts_lock; assumption.
  Qed.

  Corollary ordered_set_progress :
    forall table, disciplined guard table = true -> all_ordered table = true ->
    forall progs, incl progs table ->
    forall s, reachable (init progs) s ->
      (exists t, In t (threads s) /\ ~ finished t) -> exists s', step s s'.
  Proof.
    intros table D O progs I. apply ordered_implies_progress.
    - eapply disciplined_incl; eassumption.
    - unfold all_ordered in *. rewrite forallb_forall in *. intros p Hp. apply O. apply I. assumption.
  Qed.
End Progress.
