(* RG.Locks.Cache -- the FindType protocol as a transition system over an abstract cache, and
   [findtype_linearizable]: under ANY interleaving of ANY number of calls every finished call has returned what a
   sequential execution returns, and the cache only ever holds correct entries.

   Protocol of one call (engineState.FindType):
     RLock; r := cache[k]; RUnlock; if r is a hit return it;
     Lock; v, err := compute(k)   (findTypeNoCache: a deterministic importer oracle, a Section variable);
     on error: Unlock, return the error (nothing stored);  otherwise cache[k] := v; Unlock; return v.
   Two calls that miss concurrently both compute; by determinism of the oracle the second store is harmless.
   The map lookup and the map store are atomic steps here -- that they do not overlap in the implementation is
   exactly what RG.Locks.Model.discipline_implies_race_free gives for the extracted lock protocol. *)
From Coq Require Import List Bool Arith Lia.
Import ListNotations.

Section FindType.
  Variables key val : Type.
  Variable key_eqb : key -> key -> bool.
  Hypothesis key_eqb_spec : forall a b, reflect (a = b) (key_eqb a b).
  (* the importer oracle: None = the lookup fails (error result, nothing cached) *)
  Variable oracle : key -> option val.

  Definition cache := list (key * val).

  Fixpoint lookup (k : key) (c : cache) : option val :=
    match c with
    | [] => None
    | (k', v) :: r => if key_eqb k k' then Some v else lookup k r
    end.

  Definition store (k : key) (v : val) (c : cache) : cache := (k, v) :: c.

  Lemma lookup_store_same k v c : lookup k (store k v c) = Some v.
  Proof. cbn. destruct (key_eqb_spec k k); [reflexivity | congruence]. Qed.

  Lemma lookup_store_other k k' v c : k <> k' -> lookup k (store k' v c) = lookup k c.
  Proof. intros N. cbn. destruct (key_eqb_spec k k'); [congruence | reflexivity]. Qed.

  (* ------------------------------------------------------------ sequential execution (executable) *)
  Definition find_seq (c : cache) (k : key) : option val * cache :=
    match lookup k c with
    | Some v => (Some v, c)
    | None => match oracle k with
              | Some v => (Some v, store k v c)
              | None => (None, c)
              end
    end.

  Fixpoint run_seq (c : cache) (ks : list key) : list (option val) * cache :=
    match ks with
    | [] => ([], c)
    | k :: r => let '(res, c1) := find_seq c k in
                let '(rs, c2) := run_seq c1 r in (res :: rs, c2)
    end.

  (* what a call returns, as a function of the initial cache alone *)
  Definition spec (c0 : cache) (k : key) : option val :=
    match lookup k c0 with Some v => Some v | None => oracle k end.

  (* cache c is a correct extension of c0 *)
  Definition good (c0 c : cache) : Prop :=
    (forall k v, lookup k c0 = Some v -> lookup k c = Some v) /\
    (forall k v, lookup k c = Some v -> spec c0 k = Some v).

  Lemma good_refl c0 : good c0 c0.
  Proof. split; [auto|]. intros k v H. unfold spec. rewrite H. reflexivity. Qed.

  Lemma good_store c0 c k v : good c0 c -> spec c0 k = Some v -> good c0 (store k v c).
  Proof.
    intros [G1 G2] S. split.
    - intros k' v' H. destruct (key_eqb_spec k' k) as [->|N].
      + rewrite lookup_store_same. unfold spec in S. rewrite H in S. congruence.
      + rewrite lookup_store_other by assumption. auto.
    - intros k' v' H. destruct (key_eqb_spec k' k) as [->|N].
      + rewrite lookup_store_same in H. congruence.
      + rewrite lookup_store_other in H by assumption. auto.
  Qed.

  Lemma find_seq_spec c0 c k : good c0 c ->
    fst (find_seq c k) = spec c0 k /\ good c0 (snd (find_seq c k)).
  Proof.
    intros G. unfold find_seq. destruct (lookup k c) as [v|] eqn:L; cbn.
    - split; [symmetry; apply (proj2 G); assumption | assumption].
    - assert (L0 : lookup k c0 = None).
      { destruct (lookup k c0) eqn:E; [|reflexivity]. apply (proj1 G) in E. congruence. }
      assert (S : spec c0 k = oracle k) by (unfold spec; rewrite L0; reflexivity).
      destruct (oracle k) as [v|] eqn:O; cbn; split; auto. apply good_store; congruence.
  Qed.

  Lemma run_seq_spec c0 ks : forall c, good c0 c ->
    fst (run_seq c ks) = map (spec c0) ks /\ good c0 (snd (run_seq c ks)).
  Proof.
    induction ks as [|k r IH]; intros c G; cbn; [auto|].
    destruct (find_seq c k) as [res c1] eqn:F.
    pose proof (find_seq_spec c0 c k G) as [F1 F2]. rewrite F in F1, F2. cbn in F1, F2.
    destruct (run_seq c1 r) as [rs c2] eqn:R.
    specialize (IH c1 F2). rewrite R in IH. cbn in IH. destruct IH as [I1 I2].
    cbn. split; [congruence | assumption].
  Qed.

  (* sequential execution in any order gives every call the same answer: spec *)
  Corollary run_seq_results c0 ks : fst (run_seq c0 ks) = map (spec c0) ks.
  Proof. apply run_seq_spec. apply good_refl. Qed.

  (* ------------------------------------------------------------ concurrent execution *)
  Inductive pc :=
  | Start                       (* before RLock *)
  | HoldR                       (* read lock held, before the lookup *)
  | GotR (r : option val)       (* lookup done, read lock still held *)
  | Missed                      (* read lock released after a miss, before Lock *)
  | HoldW                       (* write lock held, before the computation *)
  | Computed (r : option val)   (* findTypeNoCache returned, write lock held *)
  | Stored (v : val)            (* cache[k] := v done, write lock held *)
  | Done (r : option val).      (* returned *)

  Record call := C { ckey : key; cpc : pc }.

  Record cstate := CS { calls : list call; ccache : cache; creaders : nat; cwriter : bool }.

  Inductive cstep : call -> cache -> nat -> bool -> call -> cache -> nat -> bool -> Prop :=
  | cs_rlock k c n : cstep (C k Start) c n false (C k HoldR) c (S n) false
  | cs_lookup k c n w : cstep (C k HoldR) c n w (C k (GotR (lookup k c))) c n w
  | cs_hit k v c n w : cstep (C k (GotR (Some v))) c n w (C k (Done (Some v))) c (pred n) w
  | cs_miss k c n w : cstep (C k (GotR None)) c n w (C k Missed) c (pred n) w
  | cs_lock k c : cstep (C k Missed) c 0 false (C k HoldW) c 0 true
  | cs_compute k c n w : cstep (C k HoldW) c n w (C k (Computed (oracle k))) c n w
  | cs_fail k c n w : cstep (C k (Computed None)) c n w (C k (Done None)) c n false
  | cs_store k v c n w : cstep (C k (Computed (Some v))) c n w (C k (Stored v)) (store k v c) n w
  | cs_unlock k v c n w : cstep (C k (Stored v)) c n w (C k (Done (Some v))) c n false.

  Inductive sstep : cstate -> cstate -> Prop :=
  | sstep_at l1 x l2 c n w x' c' n' w' :
      cstep x c n w x' c' n' w' ->
      sstep (CS (l1 ++ x :: l2) c n w) (CS (l1 ++ x' :: l2) c' n' w').

  Inductive sreach (s0 : cstate) : cstate -> Prop :=
  | sreach_refl : sreach s0 s0
  | sreach_step s s' : sreach s0 s -> sstep s s' -> sreach s0 s'.

  Definition cinit (c0 : cache) (ks : list key) : cstate :=
    CS (map (fun k => C k Start) ks) c0 0 false.

  (* per-call invariant *)
  Definition call_ok (c0 : cache) (x : call) : Prop :=
    match cpc x with
    | Start | HoldR => True
    | GotR (Some v) => spec c0 (ckey x) = Some v
    | GotR None | Missed | HoldW => lookup (ckey x) c0 = None
    | Computed r => lookup (ckey x) c0 = None /\ r = spec c0 (ckey x)
    | Stored v => spec c0 (ckey x) = Some v
    | Done r => r = spec c0 (ckey x)
    end.

  Definition cinv (c0 : cache) (s : cstate) : Prop :=
    good c0 (ccache s) /\ Forall (call_ok c0) (calls s).

  Lemma cinv_init c0 ks : cinv c0 (cinit c0 ks).
  Proof.
    split; [apply good_refl|]. cbn. apply Forall_forall. intros x H. apply in_map_iff in H.
    destruct H as [k [<- _]]. exact I.
  Qed.

  Lemma cinv_step c0 s s' : cinv c0 s -> sstep s s' -> cinv c0 s'.
  Proof.
    intros [G F] St. destruct St as [l1 x l2 c n w x' c' n' w' CSt]. cbn in *.
    apply Forall_app in F. destruct F as [F1 F2]. inversion F2 as [|? ? Hx F3]; subst.
    assert (Re : forall c'', good c0 c'' -> call_ok c0 x' -> cinv c0 (CS (l1 ++ x' :: l2) c'' n' w')).
    { intros c'' G' H. split; [assumption|]. cbn. apply Forall_app. split; [assumption | constructor; assumption]. }
    inversion CSt; subst; unfold call_ok in *; cbn [cpc ckey] in *.
    - apply Re; auto.
    - apply Re; auto. destruct (lookup k c') as [v|] eqn:L.
      + apply (proj2 G). assumption.
      + destruct (lookup k c0) eqn:E; [|reflexivity]. apply (proj1 G) in E. congruence.
    - apply Re; auto.
    - apply Re; auto.
    - apply Re; auto.
    - apply Re; auto. split; [assumption|]. unfold spec. rewrite Hx. reflexivity.
    - apply Re; auto. tauto.
    - destruct Hx as [_ Hx]. apply Re; auto. apply good_store; auto.
    - apply Re; auto.
  Qed.

  Lemma cinv_reach c0 ks s : sreach (cinit c0 ks) s -> cinv c0 s.
  Proof. induction 1; [apply cinv_init | eapply cinv_step; eassumption]. Qed.

  (* the list of keys never changes *)
  Lemma keys_step s s' : sstep s s' -> map ckey (calls s') = map ckey (calls s).
  Proof.
    intros St. destruct St as [l1 x l2 c n w x' c' n' w' CSt]. cbn.
    rewrite !map_app. cbn. f_equal. f_equal. inversion CSt; reflexivity.
  Qed.

  Lemma keys_reach c0 ks s : sreach (cinit c0 ks) s -> map ckey (calls s) = ks.
  Proof.
    induction 1.
    - cbn. rewrite map_map. cbn. apply map_id.
    - rewrite (keys_step _ _ H0). assumption.
  Qed.

  (* a successful call leaves its entry in the cache (entries are never removed or changed) *)
  Definition stored_ok (c : cache) (x : call) : Prop :=
    match cpc x with
    | Stored v | Done (Some v) => lookup (ckey x) c = Some v
    | GotR (Some v) => lookup (ckey x) c = Some v
    | _ => True
    end.

  Lemma stored_mono c0 c k v x : good c0 c -> spec c0 k = Some v -> stored_ok c x -> call_ok c0 x -> stored_ok (store k v c) x.
  Proof.
    intros G S H Ok. unfold stored_ok, call_ok in *. 
    assert (M : forall v', lookup (ckey x) c = Some v' -> lookup (ckey x) (store k v c) = Some v').
    { intros v' L. destruct (key_eqb_spec (ckey x) k) as [E|N].
      - rewrite E in *. rewrite lookup_store_same. apply (proj2 G) in L. congruence.
      - rewrite lookup_store_other by assumption. assumption. }
    destruct (cpc x) as [| |[?|]| | |?|?|[?|]]; auto.
  Qed.

  Lemma stored_reach c0 ks s : sreach (cinit c0 ks) s -> Forall (stored_ok (ccache s)) (calls s).
  Proof.
    intros R. induction R as [|s s' R IH St].
    - cbn. apply Forall_forall. intros x H. apply in_map_iff in H. destruct H as [k [<- _]]. exact I.
    - pose proof (cinv_reach _ _ _ R) as [G F].
      destruct St as [l1 x l2 c n w x' c' n' w' CSt]. cbn in *.
      apply Forall_app in IH. destruct IH as [I1 I2]. inversion I2 as [|? ? Hx I3]; subst.
      apply Forall_app in F. destruct F as [F1 F2]. inversion F2 as [|? ? Ox F3]; subst.
      inversion CSt; subst; try (apply Forall_app; split; [assumption | constructor; [|assumption]]);
        unfold stored_ok in *; cbn [cpc ckey] in *; auto.
      + destruct (lookup k c'); auto.
      + (* store *)
        unfold call_ok in Ox. cbn [cpc ckey] in Ox. destruct Ox as [_ Ox]. symmetry in Ox.
        apply Forall_app. split; [|constructor].
        * rewrite Forall_forall in *. intros y Hy. apply (stored_mono c0); auto. apply I1; assumption.
        * cbn [cpc ckey]. apply lookup_store_same.
        * rewrite Forall_forall in *. intros y Hy. apply (stored_mono c0); auto. apply I3; assumption.
  Qed.

  (* THE refinement theorem *)
  Theorem findtype_linearizable :
    forall (c0 : cache) (ks : list key) (s : cstate),
      sreach (cinit c0 ks) s ->
      (* (1) every finished call returned what the sequential execution of the same calls returns *)
      (forall i x r, nth_error (calls s) i = Some x -> cpc x = Done r ->
                     nth_error (fst (run_seq c0 ks)) i = Some r) /\
      (* (2) the cache extends the initial one and holds only correct entries *)
      good c0 (ccache s) /\
      (* (3) a successful call's entry is in the cache *)
      (forall x v, In x (calls s) -> cpc x = Done (Some v) -> lookup (ckey x) (ccache s) = Some v).
  Proof.
    intros c0 ks s R. pose proof (cinv_reach _ _ _ R) as [G F]. repeat split; try apply G.
    - intros i x r Hn Hd. rewrite run_seq_results.
      pose proof (keys_reach _ _ _ R) as K.
      assert (Hk : nth_error ks i = Some (ckey x)).
      { rewrite <- K. rewrite nth_error_map. rewrite Hn. reflexivity. }
      rewrite nth_error_map. rewrite Hk. cbn. f_equal.
      rewrite Forall_forall in F. apply nth_error_In in Hn. specialize (F _ Hn).
      unfold call_ok in F. rewrite Hd in F. congruence.
    - intros x v Hin Hd. pose proof (stored_reach _ _ _ R) as S. rewrite Forall_forall in S.
      specialize (S _ Hin). unfold stored_ok in S. rewrite Hd in S. assumption.
  Qed.

  (* the lock part of the protocol: a store happens only under the write lock with no reader inside *)
  Definition in_read (x : call) : bool := match cpc x with HoldR | GotR _ => true | _ => false end.
  Definition in_write (x : call) : bool := match cpc x with HoldW | Computed _ | Stored _ => true | _ => false end.

  Definition lock_inv (s : cstate) : Prop :=
    creaders s = length (filter in_read (calls s)) /\
    (if cwriter s then 1 else 0) = length (filter in_write (calls s)) /\
    (cwriter s = true -> creaders s = 0).

  Lemma filter_len_app {A} (f : A -> bool) a b : length (filter f (a ++ b)) = length (filter f a) + length (filter f b).
  Proof. rewrite filter_app, app_length. reflexivity. Qed.

  Lemma lock_inv_reach c0 ks s : sreach (cinit c0 ks) s -> lock_inv s.
  Proof.
    induction 1 as [|s s' R IH St].
    - unfold lock_inv. cbn. assert (forall f, (forall k, f (C k Start) = false) -> length (filter f (map (fun k => C k Start) ks)) = 0).
      { intros f Hf. induction ks; cbn; [reflexivity|]. rewrite Hf. assumption. }
      rewrite !H by reflexivity. auto.
    - destruct St as [l1 x l2 c n w x' c' n' w' CSt]. unfold lock_inv in *. cbn in *.
      rewrite !filter_len_app in *. cbn [filter] in *. destruct IH as (A & B & D).
      inversion CSt; subst; cbn [in_read in_write cpc length] in *; repeat split; try lia; try congruence;
        try (intros Hw; specialize (D Hw); lia); destruct w; lia.
  Qed.

  Theorem writers_exclusive c0 ks s : sreach (cinit c0 ks) s ->
    length (filter in_write (calls s)) <= 1 /\
    (length (filter in_write (calls s)) = 1 -> length (filter in_read (calls s)) = 0).
  Proof.
    intros R. destruct (lock_inv_reach _ _ _ R) as (A & B & D).
    destruct (cwriter s); [|lia]. specialize (D eq_refl). lia.
  Qed.
End FindType.

Arguments lookup {key val} key_eqb k c.
Arguments store {key val} k v c.
Arguments find_seq {key val} key_eqb oracle c k.
Arguments run_seq {key val} key_eqb oracle c ks.
Arguments spec {key val} key_eqb oracle c0 k.
Arguments good {key val} key_eqb oracle c0 c.
Arguments Start {val}.
Arguments HoldR {val}.
Arguments GotR {val} r.
Arguments Missed {val}.
Arguments HoldW {val}.
Arguments Computed {val} r.
Arguments Stored {val} v.
Arguments Done {val} r.
Arguments C {key val} ckey cpc.
Arguments ckey {key val} c.
Arguments cpc {key val} c.
Arguments CS {key val} calls ccache creaders cwriter.
Arguments calls {key val} c.
Arguments ccache {key val} c.
Arguments creaders {key val} c.
Arguments cwriter {key val} c.
Arguments cinit {key val} c0 ks.
Arguments cstep {key val} key_eqb oracle.
Arguments sstep {key val} key_eqb oracle.
Arguments sreach {key val} key_eqb oracle s0.
Arguments in_read {key val} x.
Arguments in_write {key val} x.

(* ------------------------------------------------------------------------------------------------------------
   The faithful sequential model: findTypeNoCache first looks among the dependencies of the package being checked
   (findDependency) and only then asks the importer, so what a miss computes depends on the calling context as well
   -- while the cache is keyed by the name alone.  [run_dep] is what the implementation does; it coincides with
   [run_seq] (and the theorems above apply) exactly when the oracle does not depend on the context. *)
Section Dep.
  Variables key val ctx : Type.
  Variable key_eqb : key -> key -> bool.
  Variable oracle2 : ctx -> key -> option val.

  Definition find_dep (c : cache key val) (p : ctx) (k : key) : option val * cache key val :=
    match lookup key_eqb k c with
    | Some v => (Some v, c)
    | None => match oracle2 p k with
              | Some v => (Some v, store k v c)
              | None => (None, c)
              end
    end.

  Fixpoint run_dep (c : cache key val) (ops : list (ctx * key)) : list (option val) * cache key val :=
    match ops with
    | [] => ([], c)
    | (p, k) :: r => let '(res, c1) := find_dep c p k in
                     let '(rs, c2) := run_dep c1 r in (res :: rs, c2)
    end.

  (* what a lone call on a fresh engine (cache c0) returns *)
  Definition lone (c0 : cache key val) (op : ctx * key) : option val := fst (find_dep c0 (fst op) (snd op)).

  Lemma run_dep_indep (p0 : ctx) :
    (forall p q k, oracle2 p k = oracle2 q k) ->
    forall ops c, run_dep c ops = run_seq key_eqb (oracle2 p0) c (map snd ops).
  Proof.
    intros Ind. induction ops as [|[p k] r IH]; intros c; cbn; [reflexivity|].
    unfold find_dep, find_seq. rewrite (Ind p p0 k).
    destruct (lookup key_eqb k c); [rewrite IH; reflexivity|].
    destruct (oracle2 p0 k); rewrite IH; reflexivity.
  Qed.
End Dep.

Arguments find_dep {key val ctx} key_eqb oracle2 c p k.
Arguments run_dep {key val ctx} key_eqb oracle2 c ops.
Arguments lone {key val ctx} key_eqb oracle2 c0 op.
