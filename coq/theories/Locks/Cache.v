(* RG.Locks.Cache -- the FindType protocol as a transition system over an abstract cache, and
   [findtype_linearizable]: under ANY interleaving of ANY number of calls every finished call has returned what a
   sequential execution returns -- which is what a lone call on a fresh engine returns ([run_seq_results]) -- and the
   cache only ever holds correct entries.

   Protocol of one call (engineState.FindType) for the name k, made for a package whose dependencies answer d
   (d = None: the name's package is not among them; d = Some r: findDependency found it and the lookup in it gives r):
     if d = Some r: return r                      (an answer for this package only: NOT cached engine-wide, and it
                                                   takes precedence over whatever the cache holds for the name);
     RLock; x := cache[k]; RUnlock; if x is a hit return it;
     Lock; v, err := importer(k)                  (a deterministic oracle of the name alone, a Section variable);
     on error: Unlock, return the error (nothing stored);  otherwise cache[k] := v; Unlock; return v.
   Two calls that miss concurrently both import; by determinism of the oracle the second store is harmless.
   The map lookup and the map store are atomic steps here -- that they do not overlap in the implementation is
   exactly what RG.Locks.Model.discipline_implies_race_free gives for the extracted lock protocol. *)
From Coq Require Import List Bool Arith Lia.
Import ListNotations.

Section FindType.
  Variables key val : Type.
  Variable key_eqb : key -> key -> bool.
  Hypothesis key_eqb_spec : forall a b, reflect (a = b) (key_eqb a b).
  (* the importer oracle: None = the import or the lookup fails (error result, nothing cached) *)
  Variable oracle : key -> option val.

  Definition cache := list (key * val).
  (* what the dependencies of the calling package say about a name *)
  Definition depans := option (option val).

  Fixpoint lookup (k : key) (c : cache) : option val :=
    match c with
    | [] => None
    | (k', v) :: r => if key_eqb k k' then Some v else lookup k r
    end.

  Definition store (k : key) (v : val) (c : cache) : cache := (k, v) :: c.

  Lemma lookup_store_same k v c : lookup k (store k v c) = Some v.
  Proof. cbn. destruct (key_eqb_spec k k); [reflexivity | congruence]. Qed.

  Lemma lookup_store_other k k' v c : k <> k' -> lookup k (store k' v c) = lookup k c.
  Proof. intros N. cbn. destruct (key_eqb_spec k k'); [congruence | reflexivity]. Qed.

  (* ------------------------------------------------------------ sequential execution (executable) *)
  Definition find_seq (c : cache) (k : key) (d : depans) : option val * cache :=
    match d with
    | Some r => (r, c)
    | None => match lookup k c with
              | Some v => (Some v, c)
              | None => match oracle k with
                        | Some v => (Some v, store k v c)
                        | None => (None, c)
                        end
              end
    end.

  Fixpoint run_seq (c : cache) (ks : list (key * depans)) : list (option val) * cache :=
    match ks with
    | [] => ([], c)
    | (k, d) :: r => let '(res, c1) := find_seq c k d in
                     let '(rs, c2) := run_seq c1 r in (res :: rs, c2)
    end.

  (* what the cache may hold for a name, as a function of the initial cache alone *)
  Definition cspec (c0 : cache) (k : key) : option val :=
    match lookup k c0 with Some v => Some v | None => oracle k end.

  (* what a call returns, as a function of the initial cache and its own inputs alone: the lone call *)
  Definition spec (c0 : cache) (k : key) (d : depans) : option val :=
    match d with Some r => r | None => cspec c0 k end.

  (* cache c is a correct extension of c0 *)
  Definition good (c0 c : cache) : Prop :=
    (forall k v, lookup k c0 = Some v -> lookup k c = Some v) /\
    (forall k v, lookup k c = Some v -> cspec c0 k = Some v).

  Lemma good_refl c0 : good c0 c0.
  Proof. split; [auto|]. intros k v H. unfold cspec. rewrite H. reflexivity. Qed.

  Lemma good_store c0 c k v : good c0 c -> cspec c0 k = Some v -> good c0 (store k v c).
  Proof.
    intros [G1 G2] S. split.
    - intros k' v' H. destruct (key_eqb_spec k' k) as [->|N].
      + rewrite lookup_store_same. unfold cspec in S. rewrite H in S. congruence.
      + rewrite lookup_store_other by assumption. auto.
    - intros k' v' H. destruct (key_eqb_spec k' k) as [->|N].
      + rewrite lookup_store_same in H. congruence.
      + rewrite lookup_store_other in H by assumption. auto.
  Qed.

  Lemma good_miss c0 c k : good c0 c -> lookup k c = None -> lookup k c0 = None.
  Proof. intros G L. destruct (lookup k c0) eqn:E; [|reflexivity]. apply (proj1 G) in E. congruence. Qed.

  Lemma find_seq_spec c0 c k d : good c0 c ->
    fst (find_seq c k d) = spec c0 k d /\ good c0 (snd (find_seq c k d)).
  Proof.
    intros G. unfold find_seq, spec. destruct d as [r|]; cbn; [split; auto|].
    destruct (lookup k c) as [v|] eqn:L; cbn.
    - split; [symmetry; apply (proj2 G); assumption | assumption].
    - pose proof (good_miss _ _ _ G L) as L0. unfold cspec. rewrite L0.
      destruct (oracle k) as [v|] eqn:O; cbn; split; auto.
      apply good_store; [assumption|]. unfold cspec. rewrite L0. assumption.
  Qed.

  Lemma run_seq_spec c0 ks : forall c, good c0 c ->
    fst (run_seq c ks) = map (fun x => spec c0 (fst x) (snd x)) ks /\ good c0 (snd (run_seq c ks)).
  Proof.
    induction ks as [|[k d] r IH]; intros c G; cbn; [auto|].
    destruct (find_seq c k d) as [res c1] eqn:F.
    destruct (find_seq_spec c0 c k d G) as [F1 F2]. rewrite F in F1, F2. cbn in F1, F2.
    destruct (run_seq c1 r) as [rs c2] eqn:R.
    destruct (IH c1 F2) as [I1 I2]. rewrite R in I1, I2. cbn in I1, I2.
    cbn. split; [congruence | assumption].
  Qed.

  (* history independence: in a sequential execution, in any order, every call returns what it returns alone *)
  Corollary run_seq_results c0 ks :
    fst (run_seq c0 ks) = map (fun x => spec c0 (fst x) (snd x)) ks.
  Proof. apply run_seq_spec. apply good_refl. Qed.

  (* ------------------------------------------------------------ concurrent execution *)
  Inductive pc :=
  | Start                       (* before RLock *)
  | HoldR                       (* read lock held, before the lookup *)
  | GotR (r : option val)       (* lookup done, read lock still held *)
  | Missed                      (* read lock released after a miss *)
  | HoldW                       (* write lock held, before the import *)
  | Computed (r : option val)   (* the importer returned, write lock held *)
  | Stored (v : val)            (* cache[k] := v done, write lock held *)
  | Done (r : option val).      (* returned *)

  Record call := C { ckey : key; cdep : depans; cpc : pc }.

  Record cstate := CS { calls : list call; ccache : cache; creaders : nat; cwriter : bool }.

  Inductive cstep : call -> cache -> nat -> bool -> call -> cache -> nat -> bool -> Prop :=
  | cs_dep k r c n w : cstep (C k (Some r) Start) c n w (C k (Some r) (Done r)) c n w
  | cs_rlock k c n : cstep (C k None Start) c n false (C k None HoldR) c (S n) false
  | cs_lookup k d c n w : cstep (C k d HoldR) c n w (C k d (GotR (lookup k c))) c n w
  | cs_hit k d v c n w : cstep (C k d (GotR (Some v))) c n w (C k d (Done (Some v))) c (pred n) w
  | cs_miss k d c n w : cstep (C k d (GotR None)) c n w (C k d Missed) c (pred n) w
  | cs_lock k c : cstep (C k None Missed) c 0 false (C k None HoldW) c 0 true
  | cs_compute k d c n w : cstep (C k d HoldW) c n w (C k d (Computed (oracle k))) c n w
  | cs_fail k d c n w : cstep (C k d (Computed None)) c n w (C k d (Done None)) c n false
  | cs_store k d v c n w : cstep (C k d (Computed (Some v))) c n w (C k d (Stored v)) (store k v c) n w
  | cs_unlock k d v c n w : cstep (C k d (Stored v)) c n w (C k d (Done (Some v))) c n false.

  Inductive sstep : cstate -> cstate -> Prop :=
  | sstep_at l1 x l2 c n w x' c' n' w' :
      cstep x c n w x' c' n' w' ->
      sstep (CS (l1 ++ x :: l2) c n w) (CS (l1 ++ x' :: l2) c' n' w').

  Inductive sreach (s0 : cstate) : cstate -> Prop :=
  | sreach_refl : sreach s0 s0
  | sreach_step s s' : sreach s0 s -> sstep s s' -> sreach s0 s'.

  Definition cinit (c0 : cache) (ks : list (key * depans)) : cstate :=
    CS (map (fun x => C (fst x) (snd x) Start) ks) c0 0 false.

  (* per-call invariant *)
  Definition call_ok (c0 : cache) (x : call) : Prop :=
    match cpc x with
    | Start => True
    | HoldR => cdep x = None
    | GotR (Some v) => cdep x = None /\ cspec c0 (ckey x) = Some v
    | GotR None | Missed => cdep x = None /\ lookup (ckey x) c0 = None
    | HoldW => lookup (ckey x) c0 = None /\ cdep x = None
    | Computed r => lookup (ckey x) c0 = None /\ cdep x = None /\ r = oracle (ckey x)
    | Stored v => lookup (ckey x) c0 = None /\ cdep x = None /\ oracle (ckey x) = Some v
    | Done r => r = spec c0 (ckey x) (cdep x)
    end.

  Definition cinv (c0 : cache) (s : cstate) : Prop :=
    good c0 (ccache s) /\ Forall (call_ok c0) (calls s).

  Lemma cinv_init c0 ks : cinv c0 (cinit c0 ks).
  Proof.
    split; [apply good_refl|]. cbn. apply Forall_forall. intros x H. apply in_map_iff in H.
    destruct H as [[k d] [<- Hin]]. exact I.
  Qed.

  Lemma cinv_step c0 s s' : cinv c0 s -> sstep s s' -> cinv c0 s'.
  Proof.
    intros [G F] St. destruct St as [l1 x l2 c n w x' c' n' w' CSt]. cbn in *.
    apply Forall_app in F. destruct F as [F1 F2]. inversion F2 as [|? ? Hx F3]; subst.
    assert (Re : forall c'', good c0 c'' -> call_ok c0 x' -> cinv c0 (CS (l1 ++ x' :: l2) c'' n' w')).
    { intros c'' G' H. split; [assumption|]. cbn. apply Forall_app. split; [assumption | constructor; assumption]. }
    inversion CSt; subst; unfold call_ok in *; cbn [cpc ckey cdep] in *.
    - (* dep *) apply Re; auto.
    - (* rlock *) apply Re; auto.
    - (* lookup *) apply Re; auto. destruct (lookup k c') as [v|] eqn:L.
      + split; [assumption|]. apply (proj2 G). assumption.
      + split; [assumption|]. eapply good_miss; eassumption.
    - (* hit *) apply Re; auto. destruct Hx as [D S]. unfold spec. rewrite D. auto.
    - (* miss *) apply Re; auto.
    - (* lock *) apply Re; auto. tauto.
    - (* compute *) apply Re; auto. tauto.
    - (* fail *) apply Re; auto. destruct Hx as (L & D & E). unfold spec, cspec. rewrite L, D. assumption.
    - (* store *) destruct Hx as (L & D & E). apply Re; [|auto].
      apply good_store; [assumption|]. unfold cspec. rewrite L. auto.
    - (* unlock *) apply Re; auto. destruct Hx as (L & D & E). unfold spec, cspec. rewrite L, D. auto.
  Qed.

  Lemma cinv_reach c0 ks s : sreach (cinit c0 ks) s -> cinv c0 s.
  Proof. induction 1; [apply cinv_init | eapply cinv_step; eassumption]. Qed.

  (* the list of calls (name, dependency answer) never changes *)
  Definition cin (x : call) : key * depans := (ckey x, cdep x).

  Lemma keys_step s s' : sstep s s' -> map cin (calls s') = map cin (calls s).
  Proof.
    intros St. destruct St as [l1 x l2 c n w x' c' n' w' CSt]. cbn.
    rewrite !map_app. cbn. f_equal. f_equal. inversion CSt; reflexivity.
  Qed.

  Lemma keys_reach c0 ks s : sreach (cinit c0 ks) s -> map cin (calls s) = ks.
  Proof.
    induction 1.
    - cbn. rewrite map_map. unfold cin. cbn. rewrite <- (map_id ks) at 2. apply map_ext. intros [k d]. reflexivity.
    - rewrite (keys_step _ _ H0). assumption.
  Qed.

  (* an answer that came from the cache or from the importer stays in the cache (entries are never removed or changed) *)
  Definition stored_ok (c : cache) (x : call) : Prop :=
    match cpc x with
    | Stored v | GotR (Some v) => lookup (ckey x) c = Some v
    | Done (Some v) => cdep x = None -> lookup (ckey x) c = Some v
    | _ => True
    end.

  Lemma stored_mono c0 c k v x : good c0 c -> cspec c0 k = Some v -> stored_ok c x -> stored_ok (store k v c) x.
  Proof.
    intros G S H. unfold stored_ok in *.
    assert (M : forall v', lookup (ckey x) c = Some v' -> lookup (ckey x) (store k v c) = Some v').
    { intros v' L. destruct (key_eqb_spec (ckey x) k) as [E|N].
      - rewrite E in *. rewrite lookup_store_same. apply (proj2 G) in L. congruence.
      - rewrite lookup_store_other by assumption. assumption. }
    destruct (cpc x) as [| |[?|]| | |?|?|[?|]]; auto.
  Qed.

  Lemma stored_reach c0 ks s :
    sreach (cinit c0 ks) s -> Forall (stored_ok (ccache s)) (calls s).
  Proof.
    intros R. induction R as [|s s' R IH St].
    - cbn. apply Forall_forall. intros x H. apply in_map_iff in H. destruct H as [k [<- _]]. exact I.
    - pose proof (cinv_reach _ _ _ R) as [G F].
      destruct St as [l1 x l2 c n w x' c' n' w' CSt]. cbn in *.
      apply Forall_app in IH. destruct IH as [I1 I2]. inversion I2 as [|? ? Hx I3]; subst.
      apply Forall_app in F. destruct F as [F1 F2]. inversion F2 as [|? ? Ox F3]; subst.
      inversion CSt; subst; try (apply Forall_app; split; [assumption | constructor; [|assumption]]);
        unfold stored_ok in *; cbn [cpc ckey cdep] in *; auto.
      + destruct r; auto. discriminate.
      + destruct (lookup k c'); auto.
      + (* store *)
        destruct Ox as (L & D & E). cbn [cpc ckey cdep] in *.
        assert (S : cspec c0 k = Some v) by (unfold cspec; rewrite L; auto).
        apply Forall_app. split; [|constructor].
        * rewrite Forall_forall in *. intros y Hy. apply (stored_mono c0); auto. apply I1; assumption.
        * cbn [cpc ckey]. apply lookup_store_same.
        * rewrite Forall_forall in *. intros y Hy. apply (stored_mono c0); auto. apply I3; assumption.
  Qed.

  (* THE refinement theorem *)
  Theorem findtype_linearizable :
    forall (c0 : cache) (ks : list (key * depans)) (s : cstate),
      sreach (cinit c0 ks) s ->
      (* (1) every finished call returned what the sequential execution of the same calls returns *)
      (forall i x r, nth_error (calls s) i = Some x -> cpc x = Done r ->
                     nth_error (fst (run_seq c0 ks)) i = Some r) /\
      (* (1') which is what the call returns when it is made alone on the initial cache *)
      (forall x r, In x (calls s) -> cpc x = Done r -> r = spec c0 (ckey x) (cdep x)) /\
      (* (2) the cache extends the initial one and holds only correct entries *)
      good c0 (ccache s) /\
      (* (3) an answer of the importer is in the cache *)
      (forall x v, In x (calls s) -> cpc x = Done (Some v) -> cdep x = None -> lookup (ckey x) (ccache s) = Some v).
  Proof.
    intros c0 ks s R. pose proof (cinv_reach _ _ _ R) as [G F]. repeat split; try apply G.
    - intros i x r Hn Hd. rewrite run_seq_results.
      pose proof (keys_reach _ _ _ R) as K.
      assert (Hk : nth_error ks i = Some (cin x)).
      { rewrite <- K. rewrite nth_error_map. rewrite Hn. reflexivity. }
      rewrite nth_error_map. rewrite Hk. cbn. f_equal.
      rewrite Forall_forall in F. apply nth_error_In in Hn. specialize (F _ Hn).
      unfold call_ok in F. rewrite Hd in F. congruence.
    - intros x r Hin Hd. rewrite Forall_forall in F. pose proof (F _ Hin) as F'. unfold call_ok in F'. rewrite Hd in F'. assumption.
    - intros x v Hin Hd Hn. pose proof (stored_reach _ _ _ R) as S. rewrite Forall_forall in S.
      specialize (S _ Hin). unfold stored_ok in S. rewrite Hd in S. auto.
  Qed.

  (* the lock part of the protocol: a store happens only under the write lock with no reader inside *)
  Definition in_read (x : call) : bool := match cpc x with HoldR | GotR _ => true | _ => false end.
  Definition in_write (x : call) : bool := match cpc x with HoldW | Computed _ | Stored _ => true | _ => false end.

  Definition lock_inv (s : cstate) : Prop :=
    creaders s = length (filter in_read (calls s)) /\
    (if cwriter s then 1 else 0) = length (filter in_write (calls s)) /\
    (cwriter s = true -> creaders s = 0).

  Lemma filter_len_app {A} (f : A -> bool) a b : length (filter f (a ++ b)) = length (filter f a) + length (filter f b).
  Proof. rewrite filter_app, app_length. reflexivity. Qed.

  Lemma lock_inv_reach c0 ks s : sreach (cinit c0 ks) s -> lock_inv s.
  Proof.
    induction 1 as [|s s' R IH St].
    - unfold lock_inv. cbn.
      assert (H : forall f, (forall k d, f (C k d Start) = false) ->
                            length (filter f (map (fun x : key * depans => C (fst x) (snd x) Start) ks)) = 0).
      { intros f Hf. induction ks; cbn; [reflexivity|]. rewrite Hf. assumption. }
      rewrite !H by reflexivity. auto.
    - destruct St as [l1 x l2 c n w x' c' n' w' CSt]. unfold lock_inv in *. cbn in *.
      rewrite !filter_len_app in *. cbn [filter] in *. destruct IH as (A & B & D).
      inversion CSt; subst; cbn [in_read in_write cpc length] in *; repeat split; try lia; try congruence;
        try (intros Hw; specialize (D Hw); lia); destruct w; lia.
  Qed.

  Theorem writers_exclusive c0 ks s : sreach (cinit c0 ks) s ->
    length (filter in_write (calls s)) <= 1 /\
    (length (filter in_write (calls s)) = 1 -> length (filter in_read (calls s)) = 0).
  Proof.
    intros R. destruct (lock_inv_reach _ _ _ R) as (A & B & D).
    destruct (cwriter s); [|lia]. specialize (D eq_refl). lia.
  Qed.
End FindType.

Arguments lookup {key val} key_eqb k c.
Arguments store {key val} k v c.
Arguments find_seq {key val} key_eqb oracle c k d.
Arguments run_seq {key val} key_eqb oracle c ks.
Arguments cspec {key val} key_eqb oracle c0 k.
Arguments spec {key val} key_eqb oracle c0 k d.
Arguments good {key val} key_eqb oracle c0 c.
Arguments Start {val}.
Arguments HoldR {val}.
Arguments GotR {val} r.
Arguments Missed {val}.
Arguments HoldW {val}.
Arguments Computed {val} r.
Arguments Stored {val} v.
Arguments Done {val} r.
Arguments C {key val} ckey cdep cpc.
Arguments ckey {key val} c.
Arguments cdep {key val} c.
Arguments cpc {key val} c.
Arguments CS {key val} calls ccache creaders cwriter.
Arguments calls {key val} c.
Arguments ccache {key val} c.
Arguments creaders {key val} c.
Arguments cwriter {key val} c.
Arguments cinit {key val} c0 ks.
Arguments cstep {key val} key_eqb oracle.
Arguments sstep {key val} key_eqb oracle.
Arguments sreach {key val} key_eqb oracle s0.
Arguments in_read {key val} x.
Arguments in_write {key val} x.

(* ------------------------------------------------------------------------------------------------------------
   Calls as the implementation receives them: (package being checked, name).  [dep p k] is what findDependency and
   the scope lookup give for that package; [run_dep] is the implementation's sequential behaviour and [lone] the
   answer of a single call on the initial cache.  [history_independent]: they coincide for every call of every
   sequence -- FindType's answer is a function of its inputs, not of what other runs asked before. *)
Section Dep.
  Variables key val ctx : Type.
  Variable key_eqb : key -> key -> bool.
  Hypothesis key_eqb_spec : forall a b, reflect (a = b) (key_eqb a b).
  Variable oracle : key -> option val.
  Variable dep : ctx -> key -> option (option val).

  Definition as_call (op : ctx * key) : key * option (option val) := (snd op, dep (fst op) (snd op)).

  Definition run_dep (c : cache key val) (ops : list (ctx * key)) : list (option val) * cache key val :=
    run_seq key_eqb oracle c (map as_call ops).

  Definition lone (c0 : cache key val) (op : ctx * key) : option val :=
    fst (find_seq key_eqb oracle c0 (snd op) (dep (fst op) (snd op))).

  Lemma lone_spec c0 op : lone c0 op = spec key_eqb oracle c0 (snd op) (dep (fst op) (snd op)).
  Proof.
    unfold lone, find_seq, spec, cspec. destruct (dep (fst op) (snd op)); [reflexivity|].
    destruct (lookup key_eqb (snd op) c0); [reflexivity|]. destruct (oracle (snd op)); reflexivity.
  Qed.

  Theorem history_independent :
    forall c0 ops, fst (run_dep c0 ops) = map (lone c0) ops.
  Proof.
    intros c0 ops. unfold run_dep. rewrite (run_seq_results key val key_eqb key_eqb_spec oracle).
    rewrite map_map. apply map_ext. intros op. rewrite lone_spec. reflexivity.
  Qed.
End Dep.

Arguments as_call {key val ctx} dep op.
Arguments run_dep {key val ctx} key_eqb oracle dep c ops.
Arguments lone {key val ctx} key_eqb oracle dep c0 op.
