(* Regular expressions as Go's regexp/syntax represents them after syntax.Parse(p, syntax.Perl), and what it means for
   one to match: a positional matching relation over the rune sequence of the input.
   Existence of a match does not depend on greediness, so the NonGreedy flag is not represented. *)
From Coq Require Import List ZArith Lia Bool Arith.
From RG.Base Require Import Outcome GoSlice.
From RG.Regex Require Import Utf8.
Import ListNotations.

(* regexp/syntax.Op *)
Inductive op :=
| OpNoMatch | OpEmptyMatch | OpLiteral | OpCharClass | OpAnyCharNotNL | OpAnyChar
| OpBeginLine | OpEndLine | OpBeginText | OpEndText | OpWordBoundary | OpNoWordBoundary
| OpCapture | OpStar | OpPlus | OpQuest | OpRepeat | OpConcat | OpAlternate.

Definition op_eqb (a b : op) : bool :=
  match a, b with
  | OpNoMatch, OpNoMatch | OpEmptyMatch, OpEmptyMatch | OpLiteral, OpLiteral | OpCharClass, OpCharClass
  | OpAnyCharNotNL, OpAnyCharNotNL | OpAnyChar, OpAnyChar | OpBeginLine, OpBeginLine | OpEndLine, OpEndLine
  | OpBeginText, OpBeginText | OpEndText, OpEndText | OpWordBoundary, OpWordBoundary
  | OpNoWordBoundary, OpNoWordBoundary | OpCapture, OpCapture | OpStar, OpStar | OpPlus, OpPlus
  | OpQuest, OpQuest | OpRepeat, OpRepeat | OpConcat, OpConcat | OpAlternate, OpAlternate => true
  | _, _ => false
  end.

Lemma op_eqb_eq a b : op_eqb a b = true <-> a = b.
Proof. destruct a, b; cbn; split; intros H; try reflexivity; discriminate. Qed.

Inductive regex :=
| NoMatch
| EmptyMatch
| Literal (fold : bool) (rs : list rune)          (* fold = Flags&FoldCase != 0 *)
| CharClass (ranges : list (rune * rune))          (* Rune pairs lo,hi (inclusive) *)
| AnyCharNotNL
| AnyChar
| BeginLine | EndLine | BeginText | EndText
| WordBoundary | NoWordBoundary
| Capture (r : regex)
| Star (r : regex) | Plus (r : regex) | Quest (r : regex)
| Repeat (min : nat) (max : option nat) (r : regex)  (* max = None is Max = -1 *)
| Concat (rs : list regex)
| Alternate (rs : list regex).

(* the fields of syntax.Regexp that compileOptimized reads *)
Definition op_of (re : regex) : op :=
  match re with
  | NoMatch => OpNoMatch | EmptyMatch => OpEmptyMatch | Literal _ _ => OpLiteral | CharClass _ => OpCharClass
  | AnyCharNotNL => OpAnyCharNotNL | AnyChar => OpAnyChar | BeginLine => OpBeginLine | EndLine => OpEndLine
  | BeginText => OpBeginText | EndText => OpEndText | WordBoundary => OpWordBoundary
  | NoWordBoundary => OpNoWordBoundary | Capture _ => OpCapture | Star _ => OpStar | Plus _ => OpPlus
  | Quest _ => OpQuest | Repeat _ _ _ => OpRepeat | Concat _ => OpConcat | Alternate _ => OpAlternate
  end.

Definition subs (re : regex) : list regex :=
  match re with
  | Capture r | Star r | Plus r | Quest r | Repeat _ _ r => [r]
  | Concat rs | Alternate rs => rs
  | _ => []
  end.

Definition runes_of (re : regex) : list rune := match re with Literal _ rs => rs | _ => [] end.
Definition fold_of (re : regex) : bool := match re with Literal f _ => f | _ => false end.

(* re.Sub[i]: panics when out of range, as the Go expression does *)
Definition sub_at (re : regex) (i : nat) : outcome regex :=
  match nth_error (subs re) i with Some r => Ok r | None => Panic PIndex end.

(* ------------------------------------------------------------------ semantics *)
Local Open Scope Z_scope.

Fixpoint in_ranges (rg : list (rune * rune)) (c : rune) : bool :=
  match rg with [] => false | (lo, hi) :: t => ((lo <=? c) && (c <=? hi)) || in_ranges t c end.

Definition is_word (c : rune) : bool :=
  ((48 <=? c) && (c <=? 57)) || ((65 <=? c) && (c <=? 90)) || ((97 <=? c) && (c <=? 122)) || (c =? 95).

Section Semantics.
(* unicode.SimpleFold orbits: fold_rel a c = "c is in the case-folding orbit of a" (trusted: package unicode) *)
Variable fold_rel : rune -> rune -> bool.

Definition rune_match (fold : bool) (a c : rune) : bool := (a =? c) || (fold && fold_rel a c).

Fixpoint lit_match (fold : bool) (rs l : list rune) : bool :=
  match rs, l with
  | [], _ => true
  | a :: rs', c :: l' => rune_match fold a c && lit_match fold rs' l'
  | _ :: _, [] => false
  end.

Local Close Scope Z_scope.

Definition word_before (l : list rune) (i : nat) : bool :=
  match i with O => false | S k => match nth_error l k with Some c => is_word c | None => false end end.
Definition word_at (l : list rune) (i : nat) : bool :=
  match nth_error l i with Some c => is_word c | None => false end.

(* m l re i j : re matches the runes l[i..j) (with l's context for anchors) *)
Inductive m (l : list rune) : regex -> nat -> nat -> Prop :=
| m_empty i : i <= length l -> m l EmptyMatch i i
| m_lit fold rs i : i + length rs <= length l -> lit_match fold rs (skipn i l) = true ->
    m l (Literal fold rs) i (i + length rs)
| m_class rg i c : nth_error l i = Some c -> in_ranges rg c = true -> m l (CharClass rg) i (S i)
| m_anynl i c : nth_error l i = Some c -> c <> 10%Z -> m l AnyCharNotNL i (S i)
| m_any i c : nth_error l i = Some c -> m l AnyChar i (S i)
| m_bol i : i <= length l -> (i = 0 \/ exists k, i = S k /\ nth_error l k = Some 10%Z) -> m l BeginLine i i
| m_eol i : i <= length l -> (i = length l \/ nth_error l i = Some 10%Z) -> m l EndLine i i
| m_bot : m l BeginText 0 0
| m_eot : m l EndText (length l) (length l)
| m_wb i : i <= length l -> word_before l i <> word_at l i -> m l WordBoundary i i
| m_nwb i : i <= length l -> word_before l i = word_at l i -> m l NoWordBoundary i i
| m_capture r i j : m l r i j -> m l (Capture r) i j
| m_star_nil r i : i <= length l -> m l (Star r) i i
| m_star_step r i j k : m l r i j -> m l (Star r) j k -> m l (Star r) i k
| m_plus r i j k : m l r i j -> m l (Star r) j k -> m l (Plus r) i k
| m_quest_nil r i : i <= length l -> m l (Quest r) i i
| m_quest_one r i j : m l r i j -> m l (Quest r) i j
| m_repeat mn mx r i j n : mn <= n -> (match mx with Some x => n <= x | None => True end) ->
    mrep l r n i j -> m l (Repeat mn mx r) i j
| m_concat rs i j : mseq l rs i j -> m l (Concat rs) i j
| m_alt rs r i j : In r rs -> m l r i j -> m l (Alternate rs) i j
with mseq (l : list rune) : list regex -> nat -> nat -> Prop :=
| mseq_nil i : i <= length l -> mseq l [] i i
| mseq_cons r rs i j k : m l r i j -> mseq l rs j k -> mseq l (r :: rs) i k
with mrep (l : list rune) : regex -> nat -> nat -> nat -> Prop :=
| mrep_0 r i : i <= length l -> mrep l r 0 i i
| mrep_S r n i j k : m l r i j -> mrep l r n j k -> mrep l r (S n) i k.

(* regexp.Regexp.Match: an unanchored search *)
Definition search (re : regex) (l : list rune) : Prop := exists i j, m l re i j.

Lemma m_bounds l re i j : m l re i j -> i <= j /\ j <= length l
with mseq_bounds l rs i j : mseq l rs i j -> i <= j /\ j <= length l
with mrep_bounds l r n i j : mrep l r n i j -> i <= j /\ j <= length l.
Proof.
  - destruct 1; try lia.
    + assert (i < length l) by (apply nth_error_Some; congruence). lia.
    + assert (i < length l) by (apply nth_error_Some; congruence). lia.
    + assert (i < length l) by (apply nth_error_Some; congruence). lia.
    + apply m_bounds in H. exact H.
    + apply m_bounds in H, H0. lia.
    + apply m_bounds in H, H0. lia.
    + apply m_bounds in H. exact H.
    + apply mrep_bounds in H1. exact H1.
    + apply mseq_bounds in H. exact H.
    + apply m_bounds in H0. exact H0.
  - destruct 1; try lia. apply m_bounds in H. apply mseq_bounds in H0. lia.
  - destruct 1; try lia. apply m_bounds in H. apply mrep_bounds in H0. lia.
Qed.

(* ------------------------------------------------------------------ the shapes the fast paths recognise *)
(* a case-sensitive literal at position i *)
Lemma lit_match_nofold rs l : lit_match false rs l = true <-> firstn (length rs) l = rs.
Proof.
  revert l. induction rs as [|a rs IH]; intros l; cbn [lit_match length firstn]; [tauto|].
  destruct l as [|c l]; [split; discriminate|].
  unfold rune_match. cbn [andb orb]. rewrite orb_false_r, andb_true_iff, Z.eqb_eq, IH.
  split; [intros [-> ->]; reflexivity|intros [= -> ->]; auto].
Qed.

Lemma firstn_eq_length {A} (rs l : list A) : firstn (length rs) l = rs -> length rs <= length l.
Proof. intros H. rewrite <- H at 1. rewrite firstn_length. lia. Qed.

Lemma m_lit_nofold_iff l rs i j :
  m l (Literal false rs) i j <-> (j = i + length rs /\ i <= length l /\ lit_at rs l i).
Proof.
  unfold lit_at. split.
  - inversion 1; subst. apply lit_match_nofold in H5. repeat split; auto; lia.
  - intros (-> & Hi & H). constructor.
    + apply firstn_eq_length in H. rewrite skipn_length in H. lia.
    + now apply lit_match_nofold.
Qed.

Lemma search_literal l rs :
  search (Literal false rs) l <-> exists i, i <= length l /\ lit_at rs l i.
Proof.
  unfold search. split.
  - intros (i & j & H). apply m_lit_nofold_iff in H. exists i. tauto.
  - intros (i & Hi & H). exists i, (i + length rs). apply m_lit_nofold_iff. auto.
Qed.

(* .* lit .* *)
Lemma search_any_lit_any l rs :
  search (Concat [Star AnyCharNotNL; Literal false rs; Star AnyCharNotNL]) l <-> exists i, i <= length l /\ lit_at rs l i.
Proof.
  unfold search. split.
  - intros (i & j & H). inversion H as [| | | | | | | | | | | | | | | | | |? ? ? Hs|]; subst.
    inversion Hs as [|? ? ? j1 ? _ Hs1]; subst.
    inversion Hs1 as [|? ? ? j2 ? Hl _]; subst.
    apply m_lit_nofold_iff in Hl. exists j1. tauto.
  - intros (i & Hi & H). exists i, (i + length rs).
    assert (Hm : m l (Literal false rs) i (i + length rs)) by (apply m_lit_nofold_iff; auto).
    pose proof (m_bounds _ _ _ _ Hm) as [_ Hb].
    constructor. econstructor; [apply m_star_nil; exact Hi|].
    econstructor; [exact Hm|]. econstructor; [apply m_star_nil; exact Hb|]. constructor. exact Hb.
Qed.

(* ^lit *)
Lemma search_begin_lit l rs :
  search (Concat [BeginText; Literal false rs]) l <-> lit_at rs l 0.
Proof.
  unfold search. split.
  - intros (i & j & H). inversion H as [| | | | | | | | | | | | | | | | | |? ? ? Hs|]; subst.
    inversion Hs as [|? ? ? j1 ? Hb Hs1]; subst. inversion Hb; subst.
    inversion Hs1 as [|? ? ? j2 ? Hl _]; subst.
    apply m_lit_nofold_iff in Hl. tauto.
  - intros H. exists 0, (0 + length rs).
    assert (Hm : m l (Literal false rs) 0 (0 + length rs)) by (apply m_lit_nofold_iff; repeat split; auto; lia).
    pose proof (m_bounds _ _ _ _ Hm) as [_ Hb].
    constructor. econstructor; [constructor|]. econstructor; [exact Hm|]. constructor. exact Hb.
Qed.

(* lit$ *)
Lemma search_lit_end l rs :
  search (Concat [Literal false rs; EndText]) l <->
  (length rs <= length l /\ lit_at rs l (length l - length rs)).
Proof.
  unfold search. split.
  - intros (i & j & H). inversion H as [| | | | | | | | | | | | | | | | | |? ? ? Hs|]; subst.
    inversion Hs as [|? ? ? j1 ? Hl Hs1]; subst.
    inversion Hs1 as [|? ? ? j2 ? He Hn]; subst. inversion He; subst. inversion Hn; subst.
    apply m_lit_nofold_iff in Hl. destruct Hl as (Hj & Hi & Hl).
    split; [lia|]. replace (length l - length rs) with i by lia. exact Hl.
  - intros (Hlen & H). exists (length l - length rs), (length l).
    assert (Hm : m l (Literal false rs) (length l - length rs) (length l)).
    { apply m_lit_nofold_iff. repeat split; auto; lia. }
    constructor. econstructor; [exact Hm|]. econstructor; [constructor|]. constructor. lia.
Qed.

(* ^lit$ *)
Lemma search_begin_lit_end l rs :
  search (Concat [BeginText; Literal false rs; EndText]) l <-> l = rs.
Proof.
  unfold search. split.
  - intros (i & j & H). inversion H as [| | | | | | | | | | | | | | | | | |? ? ? Hs|]; subst.
    inversion Hs as [|? ? ? j1 ? Hb Hs1]; subst. inversion Hb; subst.
    inversion Hs1 as [|? ? ? j2 ? Hl Hs2]; subst.
    inversion Hs2 as [|? ? ? j3 ? He Hn]; subst. inversion He; subst. inversion Hn; subst.
    apply m_lit_nofold_iff in Hl. destruct Hl as (Hj & _ & Hl). unfold lit_at in Hl. cbn [skipn] in Hl.
    rewrite <- Hl. cbn in Hj. rewrite <- Hj. symmetry. apply firstn_all.
  - intros ->. exists 0, (length rs).
    assert (Hm : m rs (Literal false rs) 0 (0 + length rs)).
    { apply m_lit_nofold_iff. repeat split; auto; try lia. unfold lit_at. cbn [skipn]. apply firstn_all. }
    constructor. econstructor; [constructor|]. econstructor; [exact Hm|].
    cbn [Nat.add]. econstructor; [constructor|]. constructor. lia.
Qed.

(* ^[class] *)
Lemma search_begin_class l rg :
  search (Concat [BeginText; CharClass rg]) l <-> exists c, hd_error l = Some c /\ in_ranges rg c = true.
Proof.
  unfold search. split.
  - intros (i & j & H). inversion H as [| | | | | | | | | | | | | | | | | |? ? ? Hs|]; subst.
    inversion Hs as [|? ? ? j1 ? Hb Hs1]; subst. inversion Hb; subst.
    inversion Hs1 as [|? ? ? j2 ? Hc _]; subst. inversion Hc; subst.
    exists c. split; [destruct l; cbn in *; congruence|assumption].
  - intros (c & Hh & Hc). exists 0, 1.
    assert (Hn : nth_error l 0 = Some c) by (destruct l; cbn in *; congruence).
    assert (1 <= length l) by (destruct l; cbn in *; [discriminate|lia]).
    constructor. econstructor; [constructor|]. econstructor; [econstructor; eassumption|]. constructor. lia.
Qed.

(* a case-folded literal really is different: refutes the equivalence when the flag is ignored *)
Lemma fold_literal_matches_variant a c :
  fold_rel a c = true -> search (Literal true [a]) [c].
Proof.
  intros H. exists 0, (0 + 1). apply (m_lit [c] true [a] 0); cbn; [lia|].
  unfold rune_match. rewrite H. cbn. now rewrite orb_true_r.
Qed.

(* ------------------------------------------------------------------ what an unanchored search does not see
   A starred item at either end of a concatenation -- `.*foo`, `foo.*`, any `r*` -- never changes the ANSWER of an unanchored
   search: the star may match nothing and the search may begin / stop where it pleases. (This is all a normalisation in front
   of the fast-path selection may rely on; an anchor between the star and the end of the pattern takes it away: see
   anchored_any_is_not_containment below Matcher.searchb.) *)
Lemma mseq_app l rs1 rs2 i k :
  mseq l (rs1 ++ rs2) i k <-> exists j, mseq l rs1 i j /\ mseq l rs2 j k.
Proof.
  revert i. induction rs1 as [|r rs1 IH]; intros i; cbn [app].
  - split.
    + intros H. exists i. split; [|exact H]. constructor. pose proof (mseq_bounds _ _ _ _ H). lia.
    + intros (j & H1 & H2). inversion H1; subst. exact H2.
  - split.
    + intros H. inversion H as [|? ? ? j ? Hr Hs]; subst. apply IH in Hs. destruct Hs as (j' & Ha & Hb).
      exists j'. split; [|exact Hb]. econstructor; eassumption.
    + intros (j & H1 & H2). inversion H1 as [|? ? ? j0 ? Hr Hs]; subst.
      econstructor; [exact Hr|]. apply IH. exists j. auto.
Qed.

Lemma search_drop_leading_star r rs l :
  search (Concat (Star r :: rs)) l <-> search (Concat rs) l.
Proof.
  unfold search. split.
  - intros (i & j & H). inversion H as [| | | | | | | | | | | | | | | | | |? ? ? Hs|]; subst.
    inversion Hs as [|? ? ? k ? _ Hs1]; subst. exists k, j. constructor. exact Hs1.
  - intros (i & j & H). inversion H as [| | | | | | | | | | | | | | | | | |? ? ? Hs|]; subst.
    exists i, j. constructor. econstructor; [|exact Hs]. apply m_star_nil.
    pose proof (mseq_bounds _ _ _ _ Hs). lia.
Qed.

Lemma search_drop_trailing_star r rs l :
  search (Concat (rs ++ [Star r])) l <-> search (Concat rs) l.
Proof.
  unfold search. split.
  - intros (i & j & H). inversion H as [| | | | | | | | | | | | | | | | | |? ? ? Hs|]; subst.
    apply mseq_app in Hs. destruct Hs as (k & H1 & _). exists i, k. constructor. exact H1.
  - intros (i & j & H). inversion H as [| | | | | | | | | | | | | | | | | |? ? ? Hs|]; subst.
    exists i, j. constructor. apply mseq_app. exists j. split; [exact Hs|].
    pose proof (mseq_bounds _ _ _ _ Hs) as [_ Hb].
    econstructor; [apply m_star_nil; exact Hb|]. constructor. exact Hb.
Qed.

End Semantics.

(* ------------------------------------------------------------------ capture groups (ruleguard/utils.go) *)
Fixpoint has_capture (re : regex) : bool :=
  match re with
  | Capture _ => true
  | Star r | Plus r | Quest r | Repeat _ _ r => has_capture r
  | Concat rs | Alternate rs => (fix any (l : list regex) := match l with [] => false | r :: t => has_capture r || any t end) rs
  | _ => false
  end.
