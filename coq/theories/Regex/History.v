(* C11: predicates evaluated over a HISTORY of runs that share one piece of state (the analyzer hands a pooled RunnerState
   to one Run() after the other). A predicate site may read and update that state; the property wants the verdict of
   every run to be a function of that run's context alone. *)
From Coq Require Import List Bool.
Import ListNotations.

Section History.
Variables state ctx : Type.

(* a predicate as it runs inside the engine: it sees what the reused state holds and this run's context, and may leave
   something behind for the next run *)
Definition site := state -> ctx -> bool * state.

Fixpoint run_history (f : site) (st : state) (h : list ctx) : list bool :=
  match h with
  | [] => []
  | c :: h' => let (v, st') := f st c in v :: run_history f st' h'
  end.

(* the verdict does not depend on the state it finds *)
Definition stateless (f : site) (spec : ctx -> bool) : Prop := forall st c, fst (f st c) = spec c.

Theorem stateless_history f spec :
  stateless f spec -> forall st h, run_history f st h = map spec h.
Proof.
  intros Hf st h. revert st. induction h as [|c h IH]; intros st; [reflexivity|].
  cbn [run_history map]. specialize (Hf st c). destruct (f st c) as [v st']. cbn [fst] in Hf. rewrite Hf, IH. reflexivity.
Qed.

(* the converse: if every history (from every state) gives the per-run verdicts, the site is stateless *)
Theorem history_stateless f spec :
  (forall st h, run_history f st h = map spec h) -> stateless f spec.
Proof.
  intros H st c. specialize (H st [c]). cbn in H. destruct (f st c) as [v st']. cbn. now injection H.
Qed.

(* a closure that does not take the state at all *)
Definition pure_site (g : ctx -> bool) : site := fun st c => (g c, st).

Lemma pure_site_stateless g : stateless (pure_site g) g.
Proof. intros st c. reflexivity. Qed.

Corollary pure_site_history g st h : run_history (pure_site g) st h = map g h.
Proof. apply stateless_history, pure_site_stateless. Qed.
End History.

Arguments run_history {state ctx}.
Arguments stateless {state ctx}.
Arguments pure_site {state ctx}.

(* what goes wrong otherwise: a site that keeps its first answer in the shared state (one slot per pattern) answers the
   later runs with the first run's verdict *)
Definition memo_site {ctx : Type} (g : ctx -> bool) : site (option bool) ctx :=
  fun st c => match st with Some v => (v, st) | None => (g c, Some (g c)) end.

Lemma memo_site_keeps_first {ctx : Type} (g : ctx -> bool) c h :
  run_history (memo_site g) None (c :: h) = g c :: map (fun _ => g c) h.
Proof.
  cbn. f_equal. induction h as [|c' h IH]; [reflexivity|]. cbn. f_equal. exact IH.
Qed.

Example memo_site_differs :
  run_history (memo_site (fun b : bool => b)) None [true; false] <> map (fun b : bool => b) [true; false].
Proof. cbn. discriminate. Qed.
