(* Go-side primitives the regenerated textmatch code is expressed in (argument order as in Go). *)
From Coq Require Import List ZArith Bool Arith.
From RG.Base Require Import Outcome GoSlice.
From RG.Regex Require Import Utf8 Regex.
Import ListNotations.
Local Open Scope Z_scope.

(* && and || evaluate their right operand only when needed; ! *)
Definition o_and (a b : outcome bool) : outcome bool := bind a (fun x => if x : bool then b else Ok false).
Definition o_or (a b : outcome bool) : outcome bool := bind a (fun x => if x : bool then Ok true else b).
Definition o_not (a : outcome bool) : outcome bool := bind a (fun x => Ok (negb x)).

(* strings.Contains(s, sub) / bytes.Contains; HasPrefix(s, p); HasSuffix(s, p); a == b / bytes.Equal(a, b) *)
Definition go_contains (s sub : bytes) : bool := containsb sub s.
Definition go_has_prefix (s p : bytes) : bool := has_prefixb p s.
Definition go_has_suffix (s p : bytes) : bool := has_suffixb p s.
Definition go_equal (a b : bytes) : bool := bytes_eqb a b.

(* utf8.ValidRune *)
Definition valid_rune (r : rune) : bool :=
  ((0 <=? r) && (r <? 55296)) || ((57343 <? r) && (r <=? 1114111)).

Lemma bytes_eqb_sym a b : bytes_eqb a b = bytes_eqb b a.
Proof.
  revert b. induction a as [|x a IH]; destruct b as [|y b]; cbn; try reflexivity.
  rewrite Z.eqb_sym, IH. reflexivity.
Qed.
