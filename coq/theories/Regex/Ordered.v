(* Two literals with a dot-star in between: `foo.*bar` is "foo and, LATER ON THE SAME LINE, bar".
   What an unanchored search of Concat [Literal a; Star AnyCharNotNL; Literal b] decides, stated on positions of the input:
   an occurrence of a, an occurrence of b that begins at or after the end of that a, and no line break in between. A matcher
   that answers the shape with two substring searches has to meet exactly this -- in particular the occurrence of a may be ANY
   one in front of b on b's line, not the first one of the input (seed C11-51: "foo\nfoo bar"). With a dot that matches the
   newline (Star AnyChar) the condition on the text in between goes away. *)
From Coq Require Import List ZArith Lia Bool Arith.
From RG.Base Require Import Outcome GoSlice.
From RG.Regex Require Import Utf8 Regex Matcher.
Import ListNotations.

Section Ordered.
Variable fold_rel : rune -> rune -> bool.
Notation m := (m fold_rel).
Notation search := (search fold_rel).

(* no line break at the positions j .. k-1 *)
Definition same_line (l : list rune) (j k : nat) : Prop := forall p, j <= p < k -> nth_error l p <> Some 10%Z.

Lemma m_star_anynl_iff l j k :
  m l (Star AnyCharNotNL) j k <-> (j <= k /\ k <= length l /\ same_line l j k).
Proof.
  split.
  - intros H. remember (Star AnyCharNotNL) as r eqn:Hr. induction H; try discriminate.
    + repeat split; try lia. intros p Hp. lia.
    + injection Hr as ->. specialize (IHm2 eq_refl). destruct IHm2 as (Hjk & Hk & Hs).
      inversion H as [| | |? c Hn Hc| | | | | | | | | | | | | | | |]; subst.
      repeat split; try lia. intros p Hp. destruct (Nat.eq_dec p i) as [->|Hne].
      * rewrite Hn. intros [= ->]. apply Hc. reflexivity.
      * apply Hs. lia.
  - intros (Hjk & Hk & Hs). remember (k - j) as n eqn:Hn. revert j Hjk Hs Hn. induction n as [|n IH]; intros j Hjk Hs Hn.
    + assert (j = k) by lia. subst j. apply m_star_nil. exact Hk.
    + assert (Hlt : j < length l) by lia.
      destruct (nth_error l j) as [c|] eqn:Hc; [|apply nth_error_None in Hc; lia].
      apply m_star_step with (j := S j).
      * apply m_anynl with (c := c); [exact Hc|]. intros ->. apply (Hs j); [lia|exact Hc].
      * apply IH; try lia. intros p Hp. apply Hs. lia.
Qed.

Lemma m_star_any_iff l j k :
  m l (Star AnyChar) j k <-> (j <= k /\ k <= length l).
Proof.
  split.
  - intros H. apply m_bounds in H. exact H.
  - intros (Hjk & Hk). remember (k - j) as n eqn:Hn. revert j Hjk Hn. induction n as [|n IH]; intros j Hjk Hn.
    + assert (j = k) by lia. subst j. apply m_star_nil. exact Hk.
    + assert (Hlt : j < length l) by lia.
      destruct (nth_error l j) as [c|] eqn:Hc; [|apply nth_error_None in Hc; lia].
      apply m_star_step with (j := S j); [apply m_any with (c := c); exact Hc|apply IH; lia].
Qed.

Lemma m_lit_sep_lit l sep a b i j :
  m l (Concat [Literal false a; sep; Literal false b]) i j <->
  (lit_at a l i /\ i <= length l /\ exists k, m l sep (i + length a) k /\ k <= length l /\ lit_at b l k /\ j = k + length b).
Proof.
  split.
  - intros H. inversion H as [| | | | | | | | | | | | | | | | | |? ? ? Hs|]; subst.
    inversion Hs as [|? ? ? j1 ? Ha Hs1]; subst.
    inversion Hs1 as [|? ? ? j2 ? Hsep Hs2]; subst.
    inversion Hs2 as [|? ? ? j3 ? Hb Hs3]; subst.
    inversion Hs3; subst.
    apply m_lit_nofold_iff in Ha. apply m_lit_nofold_iff in Hb.
    destruct Ha as (-> & Hi & Ha). destruct Hb as (-> & Hk & Hb).
    repeat split; auto. exists j2. repeat split; auto.
  - intros (Ha & Hi & k & Hsep & Hk & Hb & ->).
    assert (Hmb : m l (Literal false b) k (k + length b)) by (apply m_lit_nofold_iff; auto).
    pose proof (m_bounds _ _ _ _ _ Hmb) as [_ Hbb].
    constructor. econstructor; [apply m_lit_nofold_iff; eauto|].
    econstructor; [exact Hsep|]. econstructor; [exact Hmb|]. constructor. exact Hbb.
Qed.

(* `a.*b`: some occurrence of a, an occurrence of b at or behind its end, and no line break from the end of that a to the
   beginning of that b *)
Theorem search_lit_anynl_lit l a b :
  search (Concat [Literal false a; Star AnyCharNotNL; Literal false b]) l <->
  exists i k, lit_at a l i /\ lit_at b l k /\ i + length a <= k /\ k <= length l /\ same_line l (i + length a) k.
Proof.
  unfold Regex.search. split.
  - intros (i & j & H). apply m_lit_sep_lit in H. destruct H as (Ha & Hi & k & Hsep & Hk & Hb & _).
    apply m_star_anynl_iff in Hsep. destruct Hsep as (H1 & _ & H3). exists i, k. auto.
  - intros (i & k & Ha & Hb & H1 & Hk & Hs). exists i, (k + length b). apply m_lit_sep_lit.
    repeat split; auto; [lia|]. exists k. repeat split; auto. apply m_star_anynl_iff. auto.
Qed.

(* `(?s)a.*b`: the same without the condition on the text in between *)
Theorem search_lit_any_lit l a b :
  search (Concat [Literal false a; Star AnyChar; Literal false b]) l <->
  exists i k, lit_at a l i /\ lit_at b l k /\ i + length a <= k /\ k <= length l.
Proof.
  unfold Regex.search. split.
  - intros (i & j & H). apply m_lit_sep_lit in H. destruct H as (Ha & Hi & k & Hsep & Hk & Hb & _).
    apply m_star_any_iff in Hsep. exists i, k. tauto.
  - intros (i & k & Ha & Hb & H1 & Hk). exists i, (k + length b). apply m_lit_sep_lit.
    repeat split; auto; [lia|]. exists k. repeat split; auto. apply m_star_any_iff. auto.
Qed.

(* the occurrence of a that counts need not be the first one: a first a whose line holds no b does not settle the answer *)
Theorem later_occurrence_of_first_literal_counts l a b i0 :
  (exists i k, i0 < i /\ lit_at a l i /\ lit_at b l k /\ i + length a <= k /\ k <= length l /\ same_line l (i + length a) k) ->
  search (Concat [Literal false a; Star AnyCharNotNL; Literal false b]) l.
Proof. intros (i & k & _ & H). apply search_lit_anynl_lit. exists i, k. exact H. Qed.
End Ordered.

(* "foo\nfoo bar": the first foo has no bar on its line, the second has (through the theorem: i = 4, k = 8); "foo\nbar": no
   pair on one line; with a dot that matches the newline the latter matches *)
Example dot_star_between_literals :
  let nf : rune -> rune -> bool := fun _ _ => false in
  let foo := Literal false [102; 111; 111]%Z in
  let bar := Literal false [98; 97; 114]%Z in
  Regex.search nf (Concat [foo; Star AnyCharNotNL; bar]) [102; 111; 111; 10; 102; 111; 111; 32; 98; 97; 114]%Z /\
  ~ Regex.search nf (Concat [foo; Star AnyCharNotNL; bar]) [102; 111; 111; 10; 98; 97; 114]%Z /\
  Regex.search nf (Concat [foo; Star AnyChar; bar]) [102; 111; 111; 10; 98; 97; 114]%Z.
Proof.
  cbv zeta. repeat split.
  - apply search_lit_anynl_lit. exists 4, 8. repeat split; try reflexivity; try (cbn; lia).
    intros p Hp. cbn in Hp. assert (p = 7) by lia. subst p. cbn. discriminate.
  - intros H. apply searchb_correct in H. vm_compute in H. discriminate H.
  - apply search_lit_any_lit. exists 0, 4. repeat split; try reflexivity; cbn; lia.
Qed.

Print Assumptions search_lit_anynl_lit.
Print Assumptions search_lit_any_lit.
