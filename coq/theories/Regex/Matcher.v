(* An executable matcher for the regexes of Regex.v, proved equivalent to the inductive matching relation `m`:
     ends re l i  =  the list of all j with  m fold_rel l re i j          (ends_correct)
     searchb re l =  true  iff  search fold_rel re l                      (searchb_correct)
   `ends` is `ends_from re l [i]`, where ends_from (structural on re) maps a SET of start positions to the set of end
   positions. Star/Plus/Repeat are reachability closures over the positions 0..length l: all matches move forward
   (m_bounds), so one sweep over the positions in increasing order computes the closure (Section Reach, abstract in the
   step function). Sets are duplicate-free lists, so nested stars stay polynomial: only an iteration directly under an
   iteration multiplies the cost by length l. *)
From Coq Require Import List ZArith Lia Bool Arith.
From RG.Regex Require Import Utf8 Regex.
Import ListNotations.

(* ------------------------------------------------------------------ induction principle for the nested type *)
Section RegexInd.
Variable P : regex -> Prop.
Hypothesis H_leaf : forall re, subs re = [] -> P re.
Hypothesis H_capture : forall r, P r -> P (Capture r).
Hypothesis H_star : forall r, P r -> P (Star r).
Hypothesis H_plus : forall r, P r -> P (Plus r).
Hypothesis H_quest : forall r, P r -> P (Quest r).
Hypothesis H_repeat : forall mn mx r, P r -> P (Repeat mn mx r).
Hypothesis H_concat : forall rs, Forall P rs -> P (Concat rs).
Hypothesis H_alt : forall rs, Forall P rs -> P (Alternate rs).

Fixpoint regex_ind3 (re : regex) : P re :=
  match re with
  | Capture r => H_capture r (regex_ind3 r)
  | Star r => H_star r (regex_ind3 r)
  | Plus r => H_plus r (regex_ind3 r)
  | Quest r => H_quest r (regex_ind3 r)
  | Repeat mn mx r => H_repeat mn mx r (regex_ind3 r)
  | Concat rs => H_concat rs ((fix go (l : list regex) : Forall P l :=
                    match l with [] => Forall_nil P | r :: t => Forall_cons r (regex_ind3 r) (go t) end) rs)
  | Alternate rs => H_alt rs ((fix go (l : list regex) : Forall P l :=
                    match l with [] => Forall_nil P | r :: t => Forall_cons r (regex_ind3 r) (go t) end) rs)
  | NoMatch => H_leaf NoMatch eq_refl
  | EmptyMatch => H_leaf EmptyMatch eq_refl
  | Literal f rs => H_leaf (Literal f rs) eq_refl
  | CharClass rg => H_leaf (CharClass rg) eq_refl
  | AnyCharNotNL => H_leaf AnyCharNotNL eq_refl
  | AnyChar => H_leaf AnyChar eq_refl
  | BeginLine => H_leaf BeginLine eq_refl
  | EndLine => H_leaf EndLine eq_refl
  | BeginText => H_leaf BeginText eq_refl
  | EndText => H_leaf EndText eq_refl
  | WordBoundary => H_leaf WordBoundary eq_refl
  | NoWordBoundary => H_leaf NoWordBoundary eq_refl
  end.
End RegexInd.

(* ------------------------------------------------------------------ finite sets of positions as duplicate-free lists *)
Fixpoint mem (x : nat) (l : list nat) : bool :=
  match l with [] => false | y :: t => Nat.eqb x y || mem x t end.

Lemma mem_In x l : mem x l = true <-> In x l.
Proof.
  induction l as [|y t IH]; cbn; [split; [discriminate|tauto]|].
  rewrite orb_true_iff, Nat.eqb_eq, IH. split; intros [H|H]; auto.
Qed.

Definition add (x : nat) (acc : list nat) : list nat := if mem x acc then acc else x :: acc.
Definition union (xs acc : list nat) : list nat := fold_right add acc xs.
Definition dedup (xs : list nat) : list nat := union xs [].

Lemma In_add z x acc : In z (add x acc) <-> z = x \/ In z acc.
Proof.
  unfold add. destruct (mem x acc) eqn:E; cbn.
  - apply mem_In in E. split; [auto|intros [->|H]; auto].
  - split; intros [H|H]; auto.
Qed.

Lemma In_union z xs acc : In z (union xs acc) <-> In z xs \/ In z acc.
Proof.
  induction xs as [|x t IH]; cbn; [tauto|]. rewrite In_add, IH. split; intros H; intuition auto.
Qed.

Lemma In_dedup z xs : In z (dedup xs) <-> In z xs.
Proof. unfold dedup. rewrite In_union. cbn. tauto. Qed.

(* ------------------------------------------------------------------ reachability over a forward step function *)
Section Reach.
Variable step : nat -> list nat.
Variable n : nat.

(* zero or more steps (the shape of m_star_nil / m_star_step) *)
Inductive reach : nat -> nat -> Prop :=
| reach_refl x : reach x x
| reach_step x y z : In y (step x) -> reach y z -> reach x z.

(* exactly k steps (the shape of mrep) *)
Inductive reachn : nat -> nat -> nat -> Prop :=
| reachn_0 x : reachn 0 x x
| reachn_S k x y z : In y (step x) -> reachn k y z -> reachn (S k) x z.

Lemma reach_trans x y z : reach x y -> reach y z -> reach x z.
Proof. induction 1; intros; [assumption|]. eapply reach_step; eauto. Qed.

Lemma reach_snoc x y z : reach x y -> In z (step y) -> reach x z.
Proof. intros H1 H2. eapply reach_trans; [exact H1|]. eapply reach_step; [exact H2|constructor]. Qed.

Lemma reach_reachn x z : reach x z <-> exists k, reachn k x z.
Proof.
  split.
  - induction 1 as [x|x y z Hs _ [k IH]]; [exists 0; constructor|exists (S k); econstructor; eauto].
  - intros [k H]. induction H; [constructor|econstructor; eauto].
Qed.

Lemma reachn_add a b x z : reachn (a + b) x z <-> exists y, reachn a x y /\ reachn b y z.
Proof.
  revert x. induction a as [|a IH]; intros x; cbn [Nat.add].
  - split; [intros H; exists x; split; [constructor|assumption]|].
    intros (y & H1 & H2). inversion H1; subst. assumption.
  - split.
    + intros H. inversion H as [|? ? y0 ? Hs Hr]; subst. apply IH in Hr. destruct Hr as (y & H1 & H2).
      exists y. split; [econstructor; eauto|assumption].
    + intros (y & H1 & H2). inversion H1 as [|? ? y0 ? Hs Hr]; subst.
      econstructor; [exact Hs|]. apply IH. eauto.
Qed.

(* one step from every element of a set *)
Definition image (xs : list nat) : list nat := dedup (flat_map step xs).

Lemma In_image y xs : In y (image xs) <-> exists x, In x xs /\ In y (step x).
Proof. unfold image. rewrite In_dedup. apply in_flat_map. Qed.

(* exactly k steps from a set *)
Fixpoint iter (k : nat) (xs : list nat) : list nat :=
  match k with 0 => xs | S k' => iter k' (image xs) end.

Lemma In_iter k : forall xs z, In z (iter k xs) <-> exists x, In x xs /\ reachn k x z.
Proof.
  induction k as [|k IH]; intros xs z; cbn [iter].
  - split; [intros H; exists z; split; [assumption|constructor]|].
    intros (x & H1 & H2). inversion H2; subst. assumption.
  - rewrite IH. split.
    + intros (y & Hy & Hr). apply In_image in Hy. destruct Hy as (x & Hx & Hs).
      exists x. split; [assumption|econstructor; eauto].
    + intros (x & Hx & Hr). inversion Hr as [|? ? y ? Hs Hr']; subst.
      exists y. split; [apply In_image; eauto|assumption].
Qed.

(* between 0 and k steps from a set *)
Fixpoint upto (k : nat) (xs : list nat) : list nat :=
  match k with 0 => dedup xs | S k' => union xs (upto k' (image xs)) end.

Lemma In_upto k : forall xs z, In z (upto k xs) <-> exists d x, d <= k /\ In x xs /\ reachn d x z.
Proof.
  induction k as [|k IH]; intros xs z; cbn [upto].
  - rewrite In_dedup. split.
    + intros H. exists 0, z. repeat split; auto. constructor.
    + intros (d & x & Hd & Hx & Hr). assert (d = 0) by lia. subst. inversion Hr; subst. assumption.
  - rewrite In_union, IH. split.
    + intros [H|(d & y & Hd & Hy & Hr)].
      * exists 0, z. repeat split; auto; [lia|constructor].
      * apply In_image in Hy. destruct Hy as (x & Hx & Hs).
        exists (S d), x. repeat split; [lia|assumption|econstructor; eauto].
    + intros (d & x & Hd & Hx & Hr). inversion Hr as [|d' ? y ? Hs Hr']; subst; [left; assumption|].
      right. exists d', y. repeat split; [lia|apply In_image; eauto|assumption].
Qed.

(* closure: one sweep over the positions 0..n in increasing order; position x is expanded iff it has been reached,
   and since steps never go backwards everything that can reach x has been expanded before *)
Fixpoint sweep (k x : nat) (acc : list nat) : list nat :=
  match k with
  | 0 => acc
  | S k' => sweep k' (S x) (if mem x acc then union (step x) acc else acc)
  end.

Definition closure (acc0 : list nat) : list nat := sweep (S n) 0 acc0.

Lemma sweep_sound (R : nat -> Prop) :
  (forall x z, R x -> In z (step x) -> R z) ->
  forall k x acc, (forall z, In z acc -> R z) -> forall z, In z (sweep k x acc) -> R z.
Proof.
  intros HR. induction k as [|k IH]; intros x acc Hacc z Hz; cbn [sweep] in Hz; [auto|].
  eapply IH; [|exact Hz]. intros z' Hz'. destruct (mem x acc) eqn:E; [|auto].
  apply In_union in Hz'. destruct Hz' as [Hs|Ha]; [|auto].
  apply mem_In in E. eapply HR; eauto.
Qed.

Hypothesis step_bound : forall x y, In y (step x) -> x <= y <= n.

Lemma sweep_complete : forall k x acc,
  (forall y, In y acc -> y <= n) ->
  (forall y, In y acc -> y < x -> forall z, In z (step y) -> In z acc) ->
  let r := sweep k x acc in
  (forall y, In y acc -> In y r) /\ (forall y, In y r -> y <= n) /\
  (forall y, In y r -> y < x + k -> forall z, In z (step y) -> In z r).
Proof.
  induction k as [|k IH]; intros x acc Hn Hc; cbn [sweep].
  - repeat split; auto. intros y Hy Hlt. apply Hc; [assumption|lia].
  - set (acc' := if mem x acc then union (step x) acc else acc).
    assert (Hsub : forall y, In y acc -> In y acc').
    { intros y Hy. unfold acc'. destruct (mem x acc); [apply In_union; auto|assumption]. }
    assert (Hn' : forall y, In y acc' -> y <= n).
    { intros y Hy. unfold acc' in Hy. destruct (mem x acc); [|auto].
      apply In_union in Hy. destruct Hy as [Hs|Ha]; [apply step_bound in Hs; lia|auto]. }
    assert (Hc' : forall y, In y acc' -> y < S x -> forall z, In z (step y) -> In z acc').
    { intros y Hy Hlt z Hz. unfold acc' in *. destruct (mem x acc) eqn:E.
      - apply mem_In in E. apply In_union. apply In_union in Hy. destruct Hy as [Hs|Ha].
        + apply step_bound in Hs. assert (y = x) by lia. subst. auto.
        + destruct (Nat.eq_dec y x) as [->|Hne]; [auto|]. right. eapply Hc; eauto. lia.
      - assert (y <> x). { intros ->. apply mem_In in Hy. congruence. }
        eapply Hc; eauto. lia. }
    destruct (IH (S x) acc' Hn' Hc') as (H1 & H2 & H3).
    repeat split; [auto|assumption|]. intros y Hy Hlt. apply H3; [assumption|lia].
Qed.

Lemma In_closure acc0 z :
  (forall y, In y acc0 -> y <= n) ->
  (In z (closure acc0) <-> exists y, In y acc0 /\ reach y z).
Proof.
  intros Hn. unfold closure. split.
  - revert z. apply sweep_sound.
    + intros x z (y & Hy & Hr) Hs. exists y. split; [assumption|eapply reach_snoc; eauto].
    + intros z Hz. exists z. split; [assumption|constructor].
  - intros (y & Hy & Hr).
    destruct (sweep_complete (S n) 0 acc0 Hn) as (H1 & H2 & H3); [intros; lia|].
    apply H1 in Hy. induction Hr as [x|x y z Hs _ IH]; [assumption|].
    apply IH. eapply H3; eauto. apply H2 in Hy. lia.
Qed.

End Reach.

(* ------------------------------------------------------------------ the matcher *)
Definition here (n i : nat) (b : bool) : list nat := if (i <=? n) && b then [i] else [].

Lemma In_here n i b j : In j (here n i b) <-> j = i /\ i <= n /\ b = true.
Proof.
  unfold here. destruct ((i <=? n) && b) eqn:E.
  - apply andb_true_iff in E. destruct E as [E1 E2]. apply Nat.leb_le in E1. cbn. intuition auto.
  - cbn. split; [tauto|]. intros (_ & H1 & H2). apply Nat.leb_le in H1. rewrite H1, H2 in E. discriminate.
Qed.

(* the positions of xs that lie within 0..n *)
Definition inr (n : nat) (xs : list nat) : list nat := filter (fun x => x <=? n) xs.

Lemma In_inr n xs x : In x (inr n xs) <-> In x xs /\ x <= n.
Proof. unfold inr. rewrite filter_In, Nat.leb_le. tauto. Qed.

Definition is_nl (o : option rune) : bool := match o with Some c => Z.eqb c 10 | None => false end.

Lemma is_nl_true o : is_nl o = true <-> o = Some 10%Z.
Proof.
  destruct o as [c|]; cbn; [|split; discriminate]. rewrite Z.eqb_eq. split; [intros ->; reflexivity|congruence].
Qed.

Section Matcher.
Variable fold_rel : rune -> rune -> bool.

(* the expressions without sub-expressions, from one start position *)
Definition leaf_ends (re : regex) (l : list rune) (i : nat) : list nat :=
  let n := length l in
  match re with
  | EmptyMatch => here n i true
  | Literal f rs =>
      if (i + length rs <=? n) && lit_match fold_rel f rs (skipn i l) then [i + length rs] else []
  | CharClass rg => match nth_error l i with Some c => if in_ranges rg c then [S i] else [] | None => [] end
  | AnyCharNotNL => match nth_error l i with Some c => if Z.eqb c 10 then [] else [S i] | None => [] end
  | AnyChar => match nth_error l i with Some _ => [S i] | None => [] end
  | BeginLine => here n i (match i with 0 => true | S k => is_nl (nth_error l k) end)
  | EndLine => here n i ((i =? n) || is_nl (nth_error l i))
  | BeginText => if i =? 0 then [0] else []
  | EndText => if i =? n then [n] else []
  | WordBoundary => here n i (negb (Bool.eqb (word_before l i) (word_at l i)))
  | NoWordBoundary => here n i (Bool.eqb (word_before l i) (word_at l i))
  | _ => []
  end.

(* all end positions of matches of re that start at one of the positions xs.
   Working on sets of start positions keeps a Star that follows another Star inside a Concat from being
   re-run once per start position: only a Star directly under a Star/Plus/Repeat multiplies the cost by length l. *)
Fixpoint ends_from (re : regex) (l : list rune) (xs : list nat) {struct re} : list nat :=
  let n := length l in
  match re with
  | Capture r => ends_from r l xs
  | Star r => closure (fun x => ends_from r l [x]) n (inr n xs)
  | Plus r => closure (fun x => ends_from r l [x]) n (dedup (ends_from r l xs))
  | Quest r => union (inr n xs) (ends_from r l xs)
  | Repeat mn None r =>
      closure (fun x => ends_from r l [x]) n (iter (fun x => ends_from r l [x]) mn (inr n xs))
  | Repeat mn (Some mx) r =>
      if mn <=? mx
      then upto (fun x => ends_from r l [x]) (mx - mn) (iter (fun x => ends_from r l [x]) mn (inr n xs))
      else []
  | Concat rs =>
      (fix go (rs : list regex) (xs : list nat) : list nat :=
         match rs with [] => xs | r :: t => go t (ends_from r l xs) end) rs (inr n xs)
  | Alternate rs =>
      (fix go (rs : list regex) : list nat :=
         match rs with [] => [] | r :: t => union (ends_from r l xs) (go t) end) rs
  | _ => dedup (flat_map (leaf_ends re l) xs)
  end.

(* all end positions j such that  m fold_rel l re i j  *)
Definition ends (re : regex) (l : list rune) (i : nat) : list nat := ends_from re l [i].

Definition ends_seq (rs : list regex) (l : list rune) (xs : list nat) : list nat :=
  (fix go (rs : list regex) (xs : list nat) : list nat :=
     match rs with [] => xs | r :: t => go t (ends_from r l xs) end) rs xs.

Definition ends_alt (rs : list regex) (l : list rune) (xs : list nat) : list nat :=
  (fix go (rs : list regex) : list nat :=
     match rs with [] => [] | r :: t => union (ends_from r l xs) (go t) end) rs.

Notation M := (m fold_rel).

Definition correct (re : regex) : Prop :=
  forall l xs j, In j (ends_from re l xs) <-> exists x, In x xs /\ M l re x j.

Lemma leaf_correct re l i j :
  subs re = [] -> (forall rs, re <> Concat rs) -> (forall rs, re <> Alternate rs) ->
  (In j (leaf_ends re l i) <-> M l re i j).
Proof.
  intros Hs Hnc Hna. destruct re; cbn in Hs; try discriminate Hs; cbn [leaf_ends].
  - (* NoMatch *) split; [intros []|inversion 1].
  - (* EmptyMatch *) rewrite In_here. split; [intros (-> & H & _); constructor; assumption|inversion 1; subst; auto].
  - (* Literal *)
    destruct ((i + length rs <=? length l) && lit_match fold_rel fold rs (skipn i l)) eqn:E.
    + apply andb_true_iff in E. destruct E as [E1 E2]. apply Nat.leb_le in E1. cbn. split.
      * intros [<-|[]]. constructor; assumption.
      * inversion 1; subst. auto.
    + split; [intros []|]. inversion 1; subst.
      match goal with H1 : _ + _ <= _, H2 : lit_match _ _ _ _ = true |- _ =>
        apply Nat.leb_le in H1; rewrite H1, H2 in E; discriminate end.
  - (* CharClass *)
    destruct (nth_error l i) as [c|] eqn:E.
    + destruct (in_ranges ranges c) eqn:E2; cbn.
      * split; [intros [<-|[]]; econstructor; eauto|inversion 1; subst; auto].
      * split; [intros []|inversion 1; subst; congruence].
    + split; [intros []|inversion 1; subst; congruence].
  - (* AnyCharNotNL *)
    destruct (nth_error l i) as [c|] eqn:E.
    + destruct (Z.eqb c 10) eqn:E2; cbn.
      * apply Z.eqb_eq in E2. split; [intros []|inversion 1; subst; congruence].
      * apply Z.eqb_neq in E2. split; [intros [<-|[]]; econstructor; eauto|inversion 1; subst; auto].
    + split; [intros []|inversion 1; subst; congruence].
  - (* AnyChar *)
    destruct (nth_error l i) as [c|] eqn:E; cbn.
    + split; [intros [<-|[]]; econstructor; eauto|inversion 1; subst; auto].
    + split; [intros []|inversion 1; subst; congruence].
  - (* BeginLine *)
    rewrite In_here. split.
    + intros (-> & H & Hb). constructor; [assumption|]. destruct i as [|k]; [left; reflexivity|].
      right. exists k. split; [reflexivity|]. apply is_nl_true. assumption.
    + inversion 1 as [| | | | |? Hi Hc| | | | | | | | | | | | | |]; subst. repeat split; [assumption|].
      destruct Hc as [->|(k & -> & Hk)]; [reflexivity|]. apply is_nl_true. assumption.
  - (* EndLine *)
    rewrite In_here. split.
    + intros (-> & H & Hb). constructor; [assumption|]. apply orb_true_iff in Hb.
      destruct Hb as [Hb|Hb]; [left; apply Nat.eqb_eq; assumption|right; apply is_nl_true; assumption].
    + inversion 1 as [| | | | | |? Hi Hc| | | | | | | | | | | | |]; subst. repeat split; [assumption|].
      apply orb_true_iff. destruct Hc as [Hc|Hc]; [left; apply Nat.eqb_eq; assumption|right; apply is_nl_true; assumption].
  - (* BeginText *)
    destruct (i =? 0) eqn:E.
    + apply Nat.eqb_eq in E. subst. cbn. split; [intros [<-|[]]; constructor|inversion 1; auto].
    + apply Nat.eqb_neq in E. split; [intros []|inversion 1; subst; congruence].
  - (* EndText *)
    destruct (i =? length l) eqn:E.
    + apply Nat.eqb_eq in E. subst. cbn. split; [intros [<-|[]]; constructor|inversion 1; auto].
    + apply Nat.eqb_neq in E. split; [intros []|inversion 1; subst; congruence].
  - (* WordBoundary *)
    rewrite In_here, negb_true_iff. split.
    + intros (-> & H & Hb). constructor; [assumption|]. intros Heq. rewrite Heq, eqb_reflx in Hb. discriminate.
    + inversion 1; subst. repeat split; [assumption|]. apply eqb_false_iff. assumption.
  - (* NoWordBoundary *)
    rewrite In_here. split.
    + intros (-> & H & Hb). constructor; [assumption|]. apply eqb_prop. assumption.
    + inversion 1; subst. repeat split; [assumption|]. apply eqb_true_iff. assumption.
  - exfalso. eapply Hnc. reflexivity.
  - exfalso. eapply Hna. reflexivity.
Qed.

Lemma In_leaves re l xs j :
  subs re = [] -> (forall rs, re <> Concat rs) -> (forall rs, re <> Alternate rs) ->
  (In j (dedup (flat_map (leaf_ends re l) xs)) <-> exists x, In x xs /\ M l re x j).
Proof.
  intros H1 H2 H3. rewrite In_dedup, in_flat_map. split; intros (x & Hx & H); exists x; (split; [assumption|]).
  - apply leaf_correct in H; assumption.
  - apply leaf_correct; assumption.
Qed.

(* facts about one sub-expression r whose `ends_from` is already known to be correct *)
Section Sub.
Variable r : regex.
Variable l : list rune.
Hypothesis Hr : forall xs j, In j (ends_from r l xs) <-> exists x, In x xs /\ M l r x j.

Lemma Hstep i j : In j (ends r l i) <-> M l r i j.
Proof.
  unfold ends. rewrite Hr. split; [intros (x & [<-|[]] & H); assumption|].
  intros H. exists i. split; [left; reflexivity|assumption].
Qed.

Lemma step_bound x y : In y (ends r l x) -> x <= y <= length l.
Proof. intros H. apply Hstep in H. apply m_bounds in H. lia. Qed.

Lemma star_iff i k : M l (Star r) i k <-> i <= length l /\ reach (ends r l) i k.
Proof.
  split.
  - intros H. remember (Star r) as re eqn:Ere. revert Ere.
    induction H; intros Ere; try discriminate Ere; injection Ere as ->.
    + split; [assumption|constructor].
    + pose proof (m_bounds _ _ _ _ _ H) as Hb. destruct (IHm2 eq_refl) as [_ Hre].
      split; [lia|]. econstructor; [apply Hstep; exact H|exact Hre].
  - intros [Hi H]. induction H as [x|x y z Hs _ IH]; [constructor; assumption|].
    pose proof (step_bound _ _ Hs) as Hb. eapply m_star_step; [apply Hstep; exact Hs|apply IH; lia].
Qed.

Lemma mrep_iff k i j : mrep fold_rel l r k i j <-> i <= length l /\ reachn (ends r l) k i j.
Proof.
  split.
  - intros H. remember r as r' eqn:Er. revert Er.
    induction H; intros Er; subst.
    + split; [assumption|constructor].
    + pose proof (m_bounds _ _ _ _ _ H) as Hb. destruct (IHmrep Hr eq_refl) as [_ Hre].
      split; [lia|]. econstructor; [apply Hstep; exact H|exact Hre].
  - intros [Hi H]. induction H as [x|k x y z Hs _ IH]; [constructor; assumption|].
    pose proof (step_bound _ _ Hs) as Hb. econstructor; [apply Hstep; exact Hs|apply IH; lia].
Qed.

Lemma inr_bound n xs y : In y (inr n xs) -> y <= n.
Proof. intros H. apply In_inr in H. tauto. Qed.

Lemma iter_bound k : forall xs, (forall y, In y xs -> y <= length l) -> forall y, In y (iter (ends r l) k xs) -> y <= length l.
Proof.
  induction k as [|k IH]; intros xs Hxs y Hy; cbn [iter] in Hy; [auto|].
  eapply IH; [|exact Hy]. intros z Hz. apply In_image in Hz. destruct Hz as (x & _ & Hs).
  apply step_bound in Hs. lia.
Qed.

Lemma ends_star xs j :
  In j (closure (ends r l) (length l) (inr (length l) xs)) <-> exists x, In x xs /\ M l (Star r) x j.
Proof.
  rewrite In_closure; [|exact step_bound|apply inr_bound]. split.
  - intros (y & Hy & Hre). apply In_inr in Hy. exists y. split; [tauto|]. apply star_iff. tauto.
  - intros (x & Hx & H). apply star_iff in H. exists x. split; [apply In_inr|]; tauto.
Qed.

Lemma ends_plus xs j :
  In j (closure (ends r l) (length l) (dedup (ends_from r l xs))) <-> exists x, In x xs /\ M l (Plus r) x j.
Proof.
  assert (Hb : forall y, In y (dedup (ends_from r l xs)) -> y <= length l).
  { intros y Hy. rewrite In_dedup, Hr in Hy. destruct Hy as (x & _ & Hy). apply m_bounds in Hy. lia. }
  rewrite In_closure; [|exact step_bound|exact Hb]. split.
  - intros (y & Hy & Hre). pose proof (Hb _ Hy) as Hby. rewrite In_dedup, Hr in Hy. destruct Hy as (x & Hx & Hy).
    exists x. split; [assumption|]. eapply m_plus; [exact Hy|]. apply star_iff. split; assumption.
  - intros (x & Hx & H). inversion H as [| | | | | | | | | | | | | |? ? y ? H1 H2| | | | |]; subst.
    apply star_iff in H2. exists y. split; [rewrite In_dedup, Hr; eauto|tauto].
Qed.

Lemma ends_quest xs j :
  In j (union (inr (length l) xs) (ends_from r l xs)) <-> exists x, In x xs /\ M l (Quest r) x j.
Proof.
  rewrite In_union, In_inr, Hr. split.
  - intros [[Hj Hb]|(x & Hx & H)]; [exists j; split; [assumption|apply m_quest_nil; assumption]|].
    exists x. split; [assumption|apply m_quest_one; assumption].
  - intros (x & Hx & H). inversion H; subst; [left; auto|right; eauto].
Qed.

Lemma ends_repeat_none mn xs j :
  In j (closure (ends r l) (length l) (iter (ends r l) mn (inr (length l) xs)))
  <-> exists x, In x xs /\ M l (Repeat mn None r) x j.
Proof.
  rewrite In_closure; [|exact step_bound|apply iter_bound; apply inr_bound]. split.
  - intros (y & Hy & Hre). apply In_iter in Hy. destruct Hy as (x & Hx & Hn).
    apply In_inr in Hx. destruct Hx as [Hx Hi]. exists x. split; [assumption|].
    apply reach_reachn in Hre. destruct Hre as [d Hd].
    apply (m_repeat fold_rel l mn None r x j (mn + d)); [lia|exact I|].
    apply mrep_iff. split; [assumption|]. apply reachn_add. eauto.
  - intros (i & Hx & H). inversion H as [| | | | | | | | | | | | | | | | |? ? ? ? ? k Hmn _ Hrep| |]; subst.
    apply mrep_iff in Hrep. destruct Hrep as [Hi Hn].
    replace k with (mn + (k - mn)) in Hn by lia. apply reachn_add in Hn. destruct Hn as (y & H1 & H2).
    exists y. split; [|apply reach_reachn; eauto].
    apply In_iter. exists i. split; [apply In_inr; auto|assumption].
Qed.

Lemma ends_repeat_some mn mx xs j :
  In j (if mn <=? mx then upto (ends r l) (mx - mn) (iter (ends r l) mn (inr (length l) xs)) else [])
  <-> exists x, In x xs /\ M l (Repeat mn (Some mx) r) x j.
Proof.
  destruct (mn <=? mx) eqn:E.
  - apply Nat.leb_le in E. rewrite In_upto. split.
    + intros (d & y & Hd & Hy & Hdr). apply In_iter in Hy. destruct Hy as (x & Hx & Hn).
      apply In_inr in Hx. destruct Hx as [Hx Hi]. exists x. split; [assumption|].
      apply (m_repeat fold_rel l mn (Some mx) r x j (mn + d)); [lia|lia|].
      apply mrep_iff. split; [assumption|]. apply reachn_add. eauto.
    + intros (i & Hx & H). inversion H as [| | | | | | | | | | | | | | | | |? ? ? ? ? k Hmn Hmx Hrep| |]; subst.
      apply mrep_iff in Hrep. destruct Hrep as [Hi Hn].
      replace k with (mn + (k - mn)) in Hn by lia. apply reachn_add in Hn. destruct Hn as (y & H1 & H2).
      exists (k - mn), y. repeat split; [lia| |assumption].
      apply In_iter. exists i. split; [apply In_inr; auto|assumption].
  - apply Nat.leb_gt in E. split; [intros []|]. intros (i & Hx & H).
    inversion H as [| | | | | | | | | | | | | | | | |? ? ? ? ? k Hmn Hmx Hrep| |]; subst. lia.
Qed.

End Sub.

Lemma ends_seq_correct rs : Forall correct rs ->
  forall l xs j, (forall x, In x xs -> x <= length l) ->
  (In j (ends_seq rs l xs) <-> exists x, In x xs /\ mseq fold_rel l rs x j).
Proof.
  induction 1 as [|r t Hr _ IH]; intros l xs j Hxs.
  - cbn. split.
    + intros H. exists j. split; [assumption|constructor; auto].
    + intros (x & Hx & H). inversion H; subst. assumption.
  - change (ends_seq (r :: t) l xs) with (ends_seq t l (ends_from r l xs)).
    rewrite IH.
    + split.
      * intros (y & Hy & Hj). apply Hr in Hy. destruct Hy as (x & Hx & Hy).
        exists x. split; [assumption|]. econstructor; [exact Hy|exact Hj].
      * intros (x & Hx & H). inversion H as [|? ? ? y ? H1 H2]; subst.
        exists y. split; [|assumption]. apply Hr. eauto.
    + intros y Hy. apply Hr in Hy. destruct Hy as (x & _ & Hy). apply m_bounds in Hy. lia.
Qed.

Lemma ends_alt_correct rs : Forall correct rs ->
  forall l xs j, In j (ends_alt rs l xs) <-> exists r x, In r rs /\ In x xs /\ M l r x j.
Proof.
  induction 1 as [|r t Hr _ IH]; intros l xs j.
  - cbn. split; [intros []|intros (r & x & [] & _)].
  - change (ends_alt (r :: t) l xs) with (union (ends_from r l xs) (ends_alt t l xs)).
    rewrite In_union, IH, (Hr l xs j). split.
    + intros [(x & Hx & H)|(r' & x & Hin & Hx & H)]; [exists r, x|exists r', x]; repeat split; auto; [left|right]; auto.
    + intros (r' & x & [<-|Hin] & Hx & H); [left; eauto|right; eauto].
Qed.

Lemma correct_concat rs : Forall correct rs -> correct (Concat rs).
Proof.
  intros IHrs l xs j.
  change (ends_from (Concat rs) l xs) with (ends_seq rs l (inr (length l) xs)).
  rewrite (ends_seq_correct rs IHrs); [|intros x Hx; apply In_inr in Hx; tauto]. split.
  - intros (x & Hx & Hq). apply In_inr in Hx. exists x. split; [tauto|apply m_concat; assumption].
  - intros (x & Hx & H). inversion H as [| | | | | | | | | | | | | | | | | |? ? ? Hq|]; subst.
    pose proof (mseq_bounds _ _ _ _ _ Hq) as Hb.
    exists x. split; [apply In_inr; split; [assumption|lia]|assumption].
Qed.

Lemma correct_alt rs : Forall correct rs -> correct (Alternate rs).
Proof.
  intros IHrs l xs j.
  change (ends_from (Alternate rs) l xs) with (ends_alt rs l xs).
  rewrite (ends_alt_correct rs IHrs). split.
  - intros (r & x & Hin & Hx & H). exists x. split; [assumption|eapply m_alt; eauto].
  - intros (x & Hx & H). inversion H as [| | | | | | | | | | | | | | | | | | |? r ? ? Hin Hm]; subst. eauto.
Qed.

Lemma ends_from_correct : forall re, correct re.
Proof.
  induction re using regex_ind3.
  - destruct re; cbn in H; try discriminate H;
      try (intros l xs j; apply In_leaves; [reflexivity|intros ? [=]|intros ? [=]]).
    + subst rs. apply correct_concat. constructor.
    + subst rs. apply correct_alt. constructor.
  - (* Capture *) intros l xs j. cbn [ends_from]. rewrite (IHre l xs j). split.
    + intros (x & Hx & H). exists x. split; [assumption|apply m_capture; assumption].
    + intros (x & Hx & H). inversion H; subst. eauto.
  - (* Star *) intros l xs j. apply (ends_star re l (IHre l)).
  - (* Plus *) intros l xs j. apply (ends_plus re l (IHre l)).
  - (* Quest *) intros l xs j. apply (ends_quest re l (IHre l)).
  - (* Repeat *) intros l xs j. destruct mx as [mx|].
    + apply (ends_repeat_some re l (IHre l)).
    + apply (ends_repeat_none re l (IHre l)).
  - apply correct_concat. assumption.
  - apply correct_alt. assumption.
Qed.

Theorem ends_correct : forall re l i j, In j (ends re l i) <-> m fold_rel l re i j.
Proof. intros re l. apply Hstep. apply ends_from_correct. Qed.

Definition searchb (re : regex) (l : list rune) : bool :=
  existsb (fun i => match ends re l i with [] => false | _ => true end) (seq 0 (S (length l))).

Theorem searchb_correct : forall re l, searchb re l = true <-> search fold_rel re l.
Proof.
  intros re l. unfold searchb, search. rewrite existsb_exists. split.
  - intros (i & _ & H). destruct (ends re l i) as [|j t] eqn:E; [discriminate|].
    exists i, j. apply ends_correct. rewrite E. left. reflexivity.
  - intros (i & j & H). pose proof (m_bounds _ _ _ _ _ H) as Hb. exists i. split.
    + apply in_seq. lia.
    + apply ends_correct in H. destruct (ends re l i); [destruct H|reflexivity].
Qed.

End Matcher.

(* ------------------------------------------------------------------ the matcher runs *)
Section Examples.
Let nf : rune -> rune -> bool := fun _ _ => false.                       (* no case folding *)
Let cf : rune -> rune -> bool := fun a c => Z.eqb (Z.abs (a - c)) 32.    (* ASCII-style folding, for the demo only *)
Let a_or_empty := Alternate [Literal false [97%Z]; EmptyMatch].
Let dotstar_f_end := Concat [Star AnyCharNotNL; Literal false [102%Z]; EndText].

(* (a|)* : the inner expression matches the empty string, the closure still terminates *)
Example ex_star_empty : ends nf (Star a_or_empty) [97; 97; 98]%Z 0 = [2; 1; 0].
Proof. vm_compute. reflexivity. Qed.

Example ex_nested_star :
  ends nf (Star (Star (Star a_or_empty))) (repeat 97%Z 12) 3 = [12; 11; 10; 9; 8; 7; 6; 5; 4; 3].
Proof. vm_compute. reflexivity. Qed.

(* .*f$ *)
Example ex_concat_1 : ends nf dotstar_f_end [97; 102; 98; 102]%Z 0 = [4].
Proof. vm_compute. reflexivity. Qed.
Example ex_concat_2 : ends nf dotstar_f_end [97; 102; 10; 102]%Z 0 = [].       (* . does not cross the newline *)
Proof. vm_compute. reflexivity. Qed.
Example ex_search_1 : searchb nf dotstar_f_end [97; 102; 10; 102]%Z = true.    (* ... but a later start does *)
Proof. vm_compute. reflexivity. Qed.
Example ex_search_2 : searchb nf dotstar_f_end [97; 102; 98]%Z = false.
Proof. vm_compute. reflexivity. Qed.

(* a{2,3}, [ab]{2,}, .{3,2} *)
Example ex_repeat_1 : ends nf (Repeat 2 (Some 3) (Literal false [97%Z])) [97; 97; 97; 97; 97]%Z 1 = [3; 4].
Proof. vm_compute. reflexivity. Qed.
Example ex_repeat_2 : ends nf (Repeat 2 None (CharClass [(97, 98)%Z])) [97; 98; 97; 99; 97]%Z 0 = [3; 2].
Proof. vm_compute. reflexivity. Qed.
Example ex_repeat_3 : ends nf (Repeat 3 (Some 2) AnyChar) [97; 98; 97; 99; 97]%Z 0 = [].
Proof. vm_compute. reflexivity. Qed.

(* (?i:a)+ on "AaAb" *)
Example ex_fold : ends cf (Plus (Literal true [97%Z])) [65; 97; 65; 98]%Z 0 = [3; 2; 1].
Proof. vm_compute. reflexivity. Qed.

(* \b[a-z]+\b on " ab " from 1;  ^.?$ on "a\nb\n" from 2 *)
Example ex_wb : ends nf (Concat [WordBoundary; Plus (CharClass [(97, 122)%Z]); WordBoundary]) [32; 97; 98; 32]%Z 1 = [3].
Proof. vm_compute. reflexivity. Qed.
Example ex_lines : ends nf (Concat [BeginLine; Quest AnyChar; EndLine]) [97; 10; 98; 10]%Z 2 = [3].
Proof. vm_compute. reflexivity. Qed.

(* positions outside the sequence, and \A away from 0 *)
Example ex_out_of_range : ends nf (Star AnyChar) [97; 98]%Z 3 = [].
Proof. vm_compute. reflexivity. Qed.
Example ex_bot : ends nf BeginText [97; 98]%Z 1 = [].
Proof. vm_compute. reflexivity. Qed.

(* and through the theorems, facts about the relation itself *)
Example ex_rel : ~ search nf dotstar_f_end [97; 102; 98]%Z.
Proof. intros H. apply searchb_correct in H. vm_compute in H. discriminate H. Qed.

(* an anchor between the star and the end of the pattern: `^.*foo` is "foo on the FIRST line", `foo.*$` "foo on the LAST line".
   Dropping `^.*` / `.*$` the way a bare `.*` may be dropped (Regex.search_drop_leading_star / _trailing_star) changes the answer
   on texts of several lines; with a dot that matches the newline ((?s)) it does not. Inputs: "x\nfoo", "foo\nx". *)
Let foo := Literal false [102; 111; 111]%Z.
Example anchored_any_is_not_containment :
  ~ search nf (Concat [BeginText; Star AnyCharNotNL; foo]) [120; 10; 102; 111; 111]%Z /\
  ~ search nf (Concat [foo; Star AnyCharNotNL; EndText]) [102; 111; 111; 10; 120]%Z /\
  search nf foo [120; 10; 102; 111; 111]%Z /\ search nf foo [102; 111; 111; 10; 120]%Z /\
  search nf (Concat [BeginText; Star AnyChar; foo]) [120; 10; 102; 111; 111]%Z /\
  search nf (Concat [foo; Star AnyChar; EndText]) [102; 111; 111; 10; 120]%Z.
Proof.
  repeat split; try (intros H; apply searchb_correct in H; vm_compute in H; discriminate H);
    apply searchb_correct; vm_compute; reflexivity.
Qed.

(* 40 runes, stars nested under a concatenation of stars *)
Example ex_big :
  searchb nf (Concat [Star AnyChar; Star (Concat [Star a_or_empty; Quest AnyCharNotNL]); Star AnyChar; Star AnyChar;
                      Repeat 2 None (Quest AnyChar); Literal false [98%Z]]) (repeat 97%Z 39 ++ [98%Z]) = true.
Proof. vm_compute. reflexivity. Qed.
End Examples.

Print Assumptions ends_correct.
Print Assumptions searchb_correct.
