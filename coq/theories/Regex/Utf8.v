(* UTF-8 as Go's regexp / strings packages see it.
   decode : bytes -> list rune   -- what regexp's input stepping (utf8.DecodeRune) yields: an invalid or truncated
                                    sequence contributes U+FFFD and consumes ONE byte
   encode : list rune -> bytes   -- Go's string([]rune): surrogates and out-of-range values become EF BF BD *)
From Coq Require Import List ZArith Lia Bool.
From RG.Base Require Import Outcome GoSlice.
Import ListNotations.
Local Open Scope Z_scope.

Definition rune := Z.
Definition rune_error : rune := 65533.

Definition byte_ok (b : Z) : Prop := 0 <= b < 256.
Definition bytes_ok (b : bytes) : Prop := Forall byte_ok b.

Definition is_cont (b : Z) : bool := (128 <=? b) && (b <=? 191).

(* one step of utf8.DecodeRune on b0 :: rest: the rune and the number of bytes consumed *)
Definition decode_step (b0 : Z) (rest : bytes) : rune * nat :=
  if b0 <? 128 then (b0, 1%nat)
  else if (194 <=? b0) && (b0 <=? 223) then
    match rest with
    | b1 :: _ => if is_cont b1 then ((b0 - 192) * 64 + (b1 - 128), 2%nat) else (rune_error, 1%nat)
    | _ => (rune_error, 1%nat)
    end
  else if (224 <=? b0) && (b0 <=? 239) then
    match rest with
    | b1 :: b2 :: _ =>
        let lo := if b0 =? 224 then 160 else 128 in
        let hi := if b0 =? 237 then 159 else 191 in
        if (lo <=? b1) && (b1 <=? hi) && is_cont b2
        then ((b0 - 224) * 4096 + (b1 - 128) * 64 + (b2 - 128), 3%nat) else (rune_error, 1%nat)
    | _ => (rune_error, 1%nat)
    end
  else if (240 <=? b0) && (b0 <=? 244) then
    match rest with
    | b1 :: b2 :: b3 :: _ =>
        let lo := if b0 =? 240 then 144 else 128 in
        let hi := if b0 =? 244 then 143 else 191 in
        if (lo <=? b1) && (b1 <=? hi) && is_cont b2 && is_cont b3
        then ((b0 - 240) * 262144 + (b1 - 128) * 4096 + (b2 - 128) * 64 + (b3 - 128), 4%nat)
        else (rune_error, 1%nat)
    | _ => (rune_error, 1%nat)
    end
  else (rune_error, 1%nat).

Fixpoint decode_f (fuel : nat) (b : bytes) : list rune :=
  match fuel with
  | O => []
  | S f =>
      match b with
      | [] => []
      | b0 :: rest => let (r, w) := decode_step b0 rest in r :: decode_f f (skipn (pred w) rest)
      end
  end.

Definition decode (b : bytes) : list rune := decode_f (length b) b.

(* utf8.DecodeRune(b): (RuneError, 0) on empty input *)
Definition decode_first (b : bytes) : rune :=
  match b with [] => rune_error | b0 :: rest => fst (decode_step b0 rest) end.

Definition encode_rune (r : rune) : bytes :=
  if (0 <=? r) && (r <? 128) then [r]
  else if (128 <=? r) && (r <? 2048) then [192 + r / 64; 128 + r mod 64]
  else if (r <? 0) || (1114111 <? r) || ((55296 <=? r) && (r <=? 57343)) then [239; 191; 189]
  else if r <? 65536 then [224 + r / 4096; 128 + (r / 64) mod 64; 128 + r mod 64]
  else [240 + r / 262144; 128 + (r / 4096) mod 64; 128 + (r / 64) mod 64; 128 + r mod 64].

Definition encode (rs : list rune) : bytes := flat_map encode_rune rs.

(* runes that survive string(rune) and can be told apart from a decoding error *)
Definition plain_runeb (r : rune) : bool :=
  (((0 <=? r) && (r <? 55296)) || ((57344 <=? r) && (r <=? 1114111))) && negb (r =? 65533).
Definition plain_rune (r : rune) : Prop := plain_runeb r = true.

(* byte-string primitives (strings.Contains / HasPrefix / HasSuffix / ==) *)
Fixpoint has_prefixb (p s : bytes) : bool :=
  match p, s with
  | [], _ => true
  | x :: p', y :: s' => (x =? y) && has_prefixb p' s'
  | _ :: _, [] => false
  end.

Fixpoint containsb (p s : bytes) : bool :=
  has_prefixb p s || match s with [] => false | _ :: s' => containsb p s' end.

Definition has_suffixb (p s : bytes) : bool :=
  (length p <=? length s)%nat && bytes_eqb (skipn (length s - length p) s) p.

(* the literal rs occurs in the rune sequence l at index i *)
Definition lit_at (rs l : list rune) (i : nat) : Prop := firstn (length rs) (skipn i l) = rs.

(* ------------------------------------------------------------------------------------------------ *)
(* Proofs *)
From Coq Require Import ZifyBool Arith.

Ltac dlia := Z.to_euclidean_division_equations; lia.

Ltac brk :=
  repeat match goal with
  | H : context [if ?c then _ else _] |- _ => destruct c eqn:?
  | |- context [if ?c then _ else _] => destruct c eqn:?
  end.

(* --- list facts --- *)
Lemma skipn_length_app {A} (a b : list A) : skipn (length a) (a ++ b) = b.
Proof. induction a; cbn; auto. Qed.

Lemma firstn_length_app {A} (a b : list A) : firstn (length a) (a ++ b) = a.
Proof. induction a; cbn; auto. now f_equal. Qed.

Lemma has_prefixb_iff p : forall s, has_prefixb p s = true <-> exists c, s = p ++ c.
Proof.
  induction p as [|x p IH]; intros s; cbn [has_prefixb].
  - split; [intros _; now exists s|reflexivity].
  - destruct s as [|y s].
    + split; [discriminate|]. intros [c H]. discriminate.
    + rewrite andb_true_iff, IH, Z.eqb_eq. split.
      * intros [-> [c ->]]. now exists c.
      * intros [c H]. cbn in H. inversion H; subst. split; eauto.
Qed.

Lemma containsb_iff p : forall s, containsb p s = true <-> exists a c, s = a ++ p ++ c.
Proof.
  induction s as [|y s IH]; cbn [containsb]; rewrite orb_true_iff, has_prefixb_iff.
  - split.
    + intros [[c H]|H]; [|discriminate]. exists [], c. exact H.
    + intros [a [c H]]. left. destruct a; [|discriminate]. now exists c.
  - rewrite IH. split.
    + intros [[c H]|[a [c H]]].
      * exists [], c. exact H.
      * exists (y :: a), c. now rewrite H.
    + intros [a [c H]]. destruct a as [|z a].
      * left. now exists c.
      * right. cbn in H. inversion H; subst. eauto.
Qed.

Lemma has_suffixb_iff p s : has_suffixb p s = true <-> exists a, s = a ++ p.
Proof.
  unfold has_suffixb. rewrite andb_true_iff, Nat.leb_le, bytes_eqb_eq. split.
  - intros [_ H]. exists (firstn (length s - length p) s). rewrite <- H at 2.
    symmetry. apply firstn_skipn.
  - intros [a ->]. rewrite app_length. split; [lia|].
    replace (length a + length p - length p)%nat with (length a) by lia.
    apply skipn_length_app.
Qed.

(* --- decoder steps --- *)
Lemma decode_step_width b0 rest r w :
  decode_step b0 rest = (r, w) -> (1 <= w /\ pred w <= length rest)%nat.
Proof.
  unfold decode_step. intros H.
  destruct rest as [|r0 [|r1 [|r2 rest]]]; cbv zeta in H; brk; inversion H; subst; cbn; lia.
Qed.

Lemma decode_f_indep : forall n m b, (length b <= n)%nat -> (length b <= m)%nat ->
  decode_f n b = decode_f m b.
Proof.
  induction n as [|n IH]; intros m b Hn Hm.
  - destruct b; [|cbn in Hn; lia]. destruct m; reflexivity.
  - destruct m as [|m].
    + destruct b; [reflexivity|cbn in Hm; lia].
    + destruct b as [|b0 rest]; [reflexivity|]. cbn [decode_f].
      destruct (decode_step b0 rest) as [r w]. f_equal.
      cbn [length] in Hn, Hm. apply IH; rewrite skipn_length; lia.
Qed.

Lemma decode_nil : decode [] = [].
Proof. reflexivity. Qed.

Lemma decode_cons b0 rest :
  decode (b0 :: rest) = let (r, w) := decode_step b0 rest in r :: decode (skipn (pred w) rest).
Proof.
  unfold decode. cbn [length decode_f].
  destruct (decode_step b0 rest) as [r w]. f_equal.
  apply decode_f_indep; rewrite skipn_length; lia.
Qed.

Theorem decode_first_head b : decode_first b = hd rune_error (decode b).
Proof.
  destruct b as [|b0 rest]; [reflexivity|].
  rewrite decode_cons. unfold decode_first. destruct (decode_step b0 rest); reflexivity.
Qed.

Lemma decode_nil_inv b : decode b = [] -> b = [].
Proof.
  destruct b as [|b0 rest]; [reflexivity|]. rewrite decode_cons.
  destruct (decode_step b0 rest); discriminate.
Qed.

(* --- one rune: encode then decode --- *)
Lemma decode_encode_rune r t : plain_rune r -> decode (encode_rune r ++ t) = r :: decode t.
Proof.
  unfold plain_rune, plain_runeb, encode_rune. intros H.
  brk; cbn [app]; rewrite decode_cons; unfold decode_step, is_cont; cbv zeta; brk;
    try (exfalso; dlia); cbn [pred skipn]; f_equal; dlia.
Qed.

Lemma decode_encode_app rs t : Forall plain_rune rs -> decode (encode rs ++ t) = rs ++ decode t.
Proof.
  induction 1 as [|r rs Hr _ IH]; [reflexivity|].
  unfold encode in *. cbn [flat_map]. rewrite <- app_assoc, decode_encode_rune by assumption.
  cbn [app]. now f_equal.
Qed.

(* --- one rune: a plain rune comes only from its canonical encoding --- *)
Lemma decode_step_inv b0 rest r w :
  decode_step b0 rest = (r, w) -> plain_rune r ->
  b0 :: rest = encode_rune r ++ skipn (pred w) rest.
Proof.
  unfold plain_rune, plain_runeb, decode_step, is_cont, rune_error. intros H Hp.
  destruct rest as [|r0 [|r1 [|r2 rest]]]; cbv zeta in H; brk; inversion H; subst; clear H;
    try (exfalso; lia); unfold encode_rune; brk; try (exfalso; lia);
    cbn [pred skipn app]; repeat f_equal; dlia.
Qed.

Lemma decode_inv b r rest :
  decode b = r :: rest -> plain_rune r ->
  exists b', b = encode_rune r ++ b' /\ decode b' = rest.
Proof.
  destruct b as [|b0 tl]; [discriminate|]. rewrite decode_cons.
  destruct (decode_step b0 tl) as [r' w] eqn:E. intros H Hp. inversion H; subst.
  exists (skipn (pred w) tl). split; [|reflexivity]. now apply decode_step_inv.
Qed.

Lemma decode_inv_app rs : forall b post,
  Forall plain_rune rs -> decode b = rs ++ post ->
  exists b', b = encode rs ++ b' /\ decode b' = post.
Proof.
  induction rs as [|r rs IH]; intros b post Hp H.
  - exists b. now split.
  - inversion Hp; subst. cbn [app] in H.
    apply decode_inv in H as [b1 [-> H]]; [|assumption].
    apply IH in H as [b2 [-> H]]; [|assumption].
    exists b2. split; [|assumption]. unfold encode. cbn [flat_map]. now rewrite app_assoc.
Qed.

(* --- synchronisation: a byte string whose first byte is not a continuation byte starts a fresh rune --- *)
Definition nc (q : bytes) : Prop := match q with [] => True | q0 :: _ => is_cont q0 = false end.

Lemma decode_step_sync b0 rest q : nc q -> decode_step b0 (rest ++ q) = decode_step b0 rest.
Proof.
  unfold nc, decode_step, is_cont. intros H.
  destruct rest as [|r0 [|r1 [|r2 rest]]]; cbn [app]; try reflexivity;
    destruct q as [|q0 [|q1 [|q2 q]]]; cbv zeta; brk; try reflexivity; exfalso; lia.
Qed.

Lemma decode_sync_n n : forall p q, (length p <= n)%nat -> nc q -> decode (p ++ q) = decode p ++ decode q.
Proof.
  induction n as [|n IH]; intros p q Hn Hq.
  - destruct p; [reflexivity|cbn in Hn; lia].
  - destruct p as [|b0 rest]; [reflexivity|]. cbn [app]. rewrite !decode_cons.
    rewrite decode_step_sync by assumption.
    destruct (decode_step b0 rest) as [r w] eqn:E.
    apply decode_step_width in E as [_ Hw]. cbn [app]. f_equal.
    rewrite skipn_app. replace (pred w - length rest)%nat with 0%nat by lia. cbn [skipn].
    apply IH; [|assumption]. rewrite skipn_length. cbn [length] in Hn. lia.
Qed.

Lemma decode_sync p q : nc q -> decode (p ++ q) = decode p ++ decode q.
Proof. apply (decode_sync_n (length p)). lia. Qed.

Lemma encode_rune_nc r t : nc (encode_rune r ++ t).
Proof.
  unfold encode_rune. brk; cbn [app nc]; unfold is_cont; dlia.
Qed.

Lemma encode_nc r rs t : nc (encode (r :: rs) ++ t).
Proof. unfold encode. cbn [flat_map]. rewrite <- app_assoc. apply encode_rune_nc. Qed.

(* --- splitting at a decoder boundary --- *)
Lemma decode_split_n n : forall b pre post, (length b <= n)%nat -> decode b = pre ++ post ->
  exists p q, b = p ++ q /\ decode q = post.
Proof.
  induction n as [|n IH]; intros b pre post Hn H.
  - destruct b; [|cbn in Hn; lia]. destruct pre; [|discriminate]. exists [], []. now split.
  - destruct pre as [|x pre].
    + exists [], b. now split.
    + destruct b as [|b0 rest]; [discriminate|]. rewrite decode_cons in H.
      destruct (decode_step b0 rest) as [r w]. cbn [app] in H. inversion H; subst. clear H.
      apply IH in H2 as [p [q [H1 H2]]].
      * exists (b0 :: firstn (pred w) rest ++ p), q. split; [|assumption].
        cbn [app]. f_equal. rewrite <- app_assoc, <- H1. symmetry. apply firstn_skipn.
      * rewrite skipn_length. cbn [length] in Hn. lia.
Qed.

Lemma decode_split b pre post : decode b = pre ++ post -> exists p q, b = p ++ q /\ decode q = post.
Proof. apply (decode_split_n (length b)). lia. Qed.

Lemma lit_at_split rs l i : lit_at rs l i -> exists post, l = firstn i l ++ rs ++ post.
Proof.
  unfold lit_at. intros H. exists (skipn (length rs) (skipn i l)).
  rewrite <- H at 1. now rewrite !firstn_skipn.
Qed.

(* --- the theorems --- *)
Theorem contains_iff rs b : bytes_ok b -> Forall plain_rune rs ->
  (containsb (encode rs) b = true <-> exists i, (i <= length (decode b))%nat /\ lit_at rs (decode b) i).
Proof.
  intros _ Hp. rewrite containsb_iff. split.
  - intros [a [c ->]]. destruct rs as [|r rs].
    + exists 0%nat. split; [lia|reflexivity].
    + rewrite decode_sync by apply encode_nc. rewrite decode_encode_app by assumption.
      exists (length (decode a)). split; [rewrite app_length; lia|].
      unfold lit_at. rewrite skipn_length_app. apply firstn_length_app.
  - intros [i [_ H]]. apply lit_at_split in H as [post H].
    apply decode_split in H as [p [q [-> H]]].
    apply decode_inv_app in H as [b' [-> _]]; [|assumption]. eauto.
Qed.

Theorem prefix_iff rs b : bytes_ok b -> Forall plain_rune rs ->
  (has_prefixb (encode rs) b = true <-> lit_at rs (decode b) 0).
Proof.
  intros _ Hp. rewrite has_prefixb_iff. split.
  - intros [c ->]. rewrite decode_encode_app by assumption.
    unfold lit_at. cbn [skipn]. apply firstn_length_app.
  - intros H. apply lit_at_split in H as [post H]. cbn [firstn app] in H.
    apply decode_inv_app in H as [b' [-> _]]; [|assumption]. eauto.
Qed.

Theorem suffix_iff rs b : bytes_ok b -> Forall plain_rune rs ->
  (has_suffixb (encode rs) b = true <->
   (length rs <= length (decode b))%nat /\ lit_at rs (decode b) (length (decode b) - length rs)).
Proof.
  intros _ Hp. rewrite has_suffixb_iff. split.
  - intros [a ->]. destruct rs as [|r rs].
    + split; [cbn; lia|reflexivity].
    + rewrite <- (app_nil_r (encode (r :: rs))).
      rewrite decode_sync by apply encode_nc. rewrite decode_encode_app by assumption.
      rewrite decode_nil, app_nil_r, app_length. split; [lia|].
      replace (length (decode a) + length (r :: rs) - length (r :: rs))%nat
        with (length (decode a)) by lia.
      unfold lit_at. rewrite skipn_length_app. apply firstn_all.
  - intros [Hl H]. apply lit_at_split in H as [post H].
    assert (post = []) as ->.
    { apply (f_equal (@length rune)) in H. rewrite !app_length, firstn_length in H.
      destruct post; [reflexivity|]. cbn [length] in H. lia. }
    apply decode_split in H as [p [q [-> H]]].
    apply decode_inv_app in H as [b' [-> H]]; [|assumption].
    apply decode_nil_inv in H as ->. rewrite app_nil_r. eauto.
Qed.

Theorem eq_iff rs b : bytes_ok b -> Forall plain_rune rs ->
  (bytes_eqb (encode rs) b = true <-> decode b = rs).
Proof.
  intros _ Hp. rewrite bytes_eqb_eq. split.
  - intros <-. rewrite <- (app_nil_r (encode rs)), decode_encode_app by assumption.
    rewrite decode_nil. apply app_nil_r.
  - intros H. rewrite <- (app_nil_r rs) in H.
    apply decode_inv_app in H as [b' [-> H]]; [|assumption].
    apply decode_nil_inv in H as ->. now rewrite app_nil_r.
Qed.

Print Assumptions decode_first_head.
Print Assumptions contains_iff.
Print Assumptions prefix_iff.
Print Assumptions suffix_iff.
Print Assumptions eq_iff.
