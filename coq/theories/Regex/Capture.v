(* ruleguard/utils.go:regexpHasCaptureGroups -- the recursive walk with its shared `found` flag -- decides exactly
   "the syntax tree contains an OpCapture node". Used by C11 and by C12 (choice of the no-submatch path). *)
From Coq Require Import List ZArith Lia Bool Arith.
From RG.Base Require Import Outcome GoSlice.
From RG.Regex Require Import Utf8 Regex.
Import ListNotations.

(* induction principle that reaches into the lists of Concat / Alternate *)
Section RegexInd.
Variable P : regex -> Prop.
Hypothesis H_leaf : forall re, subs re = [] -> P re.
Hypothesis H_capture : forall r, P r -> P (Capture r).
Hypothesis H_star : forall r, P r -> P (Star r).
Hypothesis H_plus : forall r, P r -> P (Plus r).
Hypothesis H_quest : forall r, P r -> P (Quest r).
Hypothesis H_repeat : forall mn mx r, P r -> P (Repeat mn mx r).
Hypothesis H_concat : forall rs, Forall P rs -> P (Concat rs).
Hypothesis H_alt : forall rs, Forall P rs -> P (Alternate rs).

Fixpoint regex_ind2 (re : regex) : P re :=
  match re with
  | Capture r => H_capture r (regex_ind2 r)
  | Star r => H_star r (regex_ind2 r)
  | Plus r => H_plus r (regex_ind2 r)
  | Quest r => H_quest r (regex_ind2 r)
  | Repeat mn mx r => H_repeat mn mx r (regex_ind2 r)
  | Concat rs => H_concat rs ((fix go (l : list regex) : Forall P l :=
                    match l with [] => Forall_nil P | r :: t => Forall_cons r (regex_ind2 r) (go t) end) rs)
  | Alternate rs => H_alt rs ((fix go (l : list regex) : Forall P l :=
                    match l with [] => Forall_nil P | r :: t => Forall_cons r (regex_ind2 r) (go t) end) rs)
  | NoMatch => H_leaf NoMatch eq_refl
  | EmptyMatch => H_leaf EmptyMatch eq_refl
  | Literal f rs => H_leaf (Literal f rs) eq_refl
  | CharClass rg => H_leaf (CharClass rg) eq_refl
  | AnyCharNotNL => H_leaf AnyCharNotNL eq_refl
  | AnyChar => H_leaf AnyChar eq_refl
  | BeginLine => H_leaf BeginLine eq_refl
  | EndLine => H_leaf EndLine eq_refl
  | BeginText => H_leaf BeginText eq_refl
  | EndText => H_leaf EndText eq_refl
  | WordBoundary => H_leaf WordBoundary eq_refl
  | NoWordBoundary => H_leaf NoWordBoundary eq_refl
  end.
End RegexInd.

(* specification: some node of the tree is a capture group (named or not) *)
Inductive contains_capture : regex -> Prop :=
| cc_here r : contains_capture (Capture r)
| cc_sub re r : In r (subs re) -> contains_capture r -> contains_capture re.

(* walkRegexp: `if found {return}; if re.Op == OpCapture {found = true; return}; for _, sub := range re.Sub {walkRegexp(sub)}`
   as a function from the flag before the call to the flag after it *)
Fixpoint walk_found (re : regex) (found : bool) : bool :=
  if found then true else
  match re with
  | Capture _ => true
  | Star r | Plus r | Quest r | Repeat _ _ r => walk_found r false
  | Concat rs | Alternate rs =>
      (fix go (l : list regex) (f : bool) : bool := match l with [] => f | r :: t => go t (walk_found r f) end) rs false
  | _ => false
  end.

(* regexpHasCaptureGroups on a pattern that parses (a parse error answers true: conservative) *)
Definition has_capture_groups (parsed : option regex) : bool :=
  match parsed with None => true | Some re => walk_found re false end.

Definition walk_list (l : list regex) (f : bool) : bool :=
  (fix go (l : list regex) (f : bool) : bool := match l with [] => f | r :: t => go t (walk_found r f) end) l f.

Lemma walk_found_true re : walk_found re true = true.
Proof. destruct re; reflexivity. Qed.

Lemma walk_list_true l : walk_list l true = true.
Proof. induction l as [|r t IH]; cbn; [reflexivity|]. rewrite walk_found_true. exact IH. Qed.

Lemma walk_list_iff l :
  Forall (fun r => walk_found r false = true <-> contains_capture r) l ->
  (walk_list l false = true <-> exists r, In r l /\ contains_capture r).
Proof.
  induction 1 as [|r t Hr Ht IH]; cbn.
  - split; [discriminate|]. intros (r & [] & _).
  - fold (walk_list t (walk_found r false)). destruct (walk_found r false) eqn:E.
    + rewrite walk_list_true. split; [|reflexivity]. intros _. exists r. split; [now left|]. now apply Hr.
    + rewrite IH. split.
      * intros (r' & Hin & Hc). exists r'. split; [now right|assumption].
      * intros (r' & [<-|Hin] & Hc); [|eauto]. apply Hr in Hc. congruence.
Qed.

Theorem has_capture_correct re : walk_found re false = true <-> contains_capture re.
Proof.
  induction re using regex_ind2.
  - (* leaves *) split.
    + destruct re; cbn in H; try discriminate H; subst; cbn; intros E; discriminate E.
    + intros Hc. inversion Hc; subst; [discriminate H|]. rewrite H in H0. destruct H0.
  - split; [constructor|reflexivity].
  - cbn. rewrite IHre. split; [intros Hc; eapply cc_sub; [left; reflexivity|exact Hc]|].
    intros Hc; inversion Hc; subst. cbn in H. destruct H as [<-|[]]. assumption.
  - cbn. rewrite IHre. split; [intros Hc; eapply cc_sub; [left; reflexivity|exact Hc]|].
    intros Hc; inversion Hc; subst. cbn in H. destruct H as [<-|[]]. assumption.
  - cbn. rewrite IHre. split; [intros Hc; eapply cc_sub; [left; reflexivity|exact Hc]|].
    intros Hc; inversion Hc; subst. cbn in H. destruct H as [<-|[]]. assumption.
  - cbn. rewrite IHre. split; [intros Hc; eapply cc_sub; [left; reflexivity|exact Hc]|].
    intros Hc; inversion Hc; subst. cbn in H. destruct H as [<-|[]]. assumption.
  - change (walk_found (Concat rs) false) with (walk_list rs false). rewrite (walk_list_iff rs H). split.
    + intros (r & Hin & Hc). eapply cc_sub; eauto.
    + intros Hc; inversion Hc; subst. eauto.
  - change (walk_found (Alternate rs) false) with (walk_list rs false). rewrite (walk_list_iff rs H). split.
    + intros (r & Hin & Hc). eapply cc_sub; eauto.
    + intros Hc; inversion Hc; subst. eauto.
Qed.
