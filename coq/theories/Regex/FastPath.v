(* C11: the matchers of ruleguard/textmatch (specification of matchers.go), the specification of the fast-path selection
   of compileOptimized, and the theorem that a selected fast path answers exactly as an unanchored regexp search. *)
From Coq Require Import List ZArith Lia Bool Arith.
From RG.Base Require Import Outcome GoSlice.
From RG.Regex Require Import Utf8 Regex.
Import ListNotations.

Inductive pred_id := PredIsUpper | PredIsLower.   (* unicode.IsUpper, unicode.IsLower *)

Inductive matcher :=
| MContains (v : bytes)      (* containsLiteralMatcher *)
| MPrefix (v : bytes)        (* prefixLiteralMatcher *)
| MSuffix (v : bytes)        (* suffixLiteralMatcher *)
| MEq (v : bytes)            (* eqLiteralMatcher *)
| MPrefixPred (p : pred_id). (* prefixRunePredMatcher *)

Definition pred_eqb (a b : pred_id) : bool :=
  match a, b with PredIsUpper, PredIsUpper | PredIsLower, PredIsLower => true | _, _ => false end.

Definition matcher_eqb (a b : matcher) : bool :=
  match a, b with
  | MContains x, MContains y | MPrefix x, MPrefix y | MSuffix x, MSuffix y | MEq x, MEq y => bytes_eqb x y
  | MPrefixPred p, MPrefixPred q => pred_eqb p q
  | _, _ => false
  end.

Definition opt_matcher_eqb (a b : option matcher) : bool :=
  match a, b with Some x, Some y => matcher_eqb x y | None, None => true | _, _ => false end.

Definition pat_upper : bytes := [94; 92; 112; 123; 76; 117; 125]%Z.  (* ^\p{Lu} *)
Definition pat_lower : bytes := [94; 92; 112; 123; 76; 108; 125]%Z.  (* ^\p{Ll} *)

(* the literal a fast path may be built from: case-sensitive, and every rune survives string(rune) unchanged and
   differs from the decoder's error value *)
Definition plain_lit (re : regex) : option (list rune) :=
  match re with
  | Literal false rs => if forallb plain_runeb rs then Some rs else None
  | _ => None
  end.

Definition is_any (re : regex) : bool := match re with Star AnyCharNotNL => true | _ => false end.

Definition is_begin (re : regex) : bool := match re with BeginText => true | _ => false end.
Definition is_end (re : regex) : bool := match re with EndText => true | _ => false end.
Definition lit_matcher (k : bytes -> matcher) (re : regex) : option matcher :=
  option_map (fun rs => k (encode rs)) (plain_lit re).

Definition spec_shape (re : regex) : option matcher :=
  match re with
  | Literal _ _ => lit_matcher MContains re
  | Concat [a; b] =>
      if is_begin a then lit_matcher MPrefix b
      else if is_end b then lit_matcher MSuffix a else None
  | Concat [a; b; c] =>
      if is_any a && is_any c then lit_matcher MContains b
      else if is_begin a && is_end c then lit_matcher MEq b else None
  | _ => None
  end.

Definition spec_select (s : bytes) (re : regex) : option matcher :=
  match spec_shape re with
  | Some mt => Some mt
  | None =>
      if bytes_eqb s pat_upper then Some (MPrefixPred PredIsUpper)
      else if bytes_eqb s pat_lower then Some (MPrefixPred PredIsLower)
      else None
  end.

Section FastPaths.
Variable fold_rel : rune -> rune -> bool.       (* unicode.SimpleFold orbits *)
Variable pred_fn : pred_id -> rune -> bool.     (* unicode.IsUpper / unicode.IsLower *)
Variable parses_to : bytes -> regex -> Prop.    (* syntax.Parse(s, syntax.Perl) returns re *)

(* what syntax.Parse makes of the two pattern strings compared verbatim by compileOptimized, and that the
   class it produces is the one unicode.IsUpper / IsLower decide (checked for every rune by the harness) *)
Hypothesis parse_upper : forall re, parses_to pat_upper re ->
  exists rg, re = Concat [BeginText; CharClass rg] /\ forall c, in_ranges rg c = pred_fn PredIsUpper c.
Hypothesis parse_lower : forall re, parses_to pat_lower re ->
  exists rg, re = Concat [BeginText; CharClass rg] /\ forall c, in_ranges rg c = pred_fn PredIsLower c.
Hypothesis pred_error : forall p, pred_fn p rune_error = false.

(* matchers.go *)
Definition run_matcher (mt : matcher) (b : bytes) : bool :=
  match mt with
  | MContains v => containsb v b
  | MPrefix v => has_prefixb v b
  | MSuffix v => has_suffixb v b
  | MEq v => bytes_eqb v b
  | MPrefixPred p => pred_fn p (decode_first b)
  end.

Lemma plain_lit_inv re rs : plain_lit re = Some rs -> re = Literal false rs /\ Forall plain_rune rs.
Proof.
  destruct re; cbn; try discriminate. destruct fold; try discriminate.
  destruct (forallb plain_runeb rs0) eqn:E; intros [= <-]. split; [reflexivity|].
  apply Forall_forall. intros x Hx. eapply forallb_forall in E; eauto.
Qed.

Lemma is_any_inv re : is_any re = true -> re = Star AnyCharNotNL.
Proof. destruct re; try discriminate. destruct re; try discriminate. reflexivity. Qed.

Lemma is_begin_inv re : is_begin re = true -> re = BeginText.
Proof. destruct re; try discriminate. reflexivity. Qed.
Lemma is_end_inv re : is_end re = true -> re = EndText.
Proof. destruct re; try discriminate. reflexivity. Qed.

Lemma lit_matcher_inv k re mt :
  lit_matcher k re = Some mt -> exists rs, re = Literal false rs /\ Forall plain_rune rs /\ mt = k (encode rs).
Proof.
  unfold lit_matcher. destruct (plain_lit re) as [rs|] eqn:E; [|discriminate]. intros [= <-].
  apply plain_lit_inv in E as [-> Hp]. eauto.
Qed.

Lemma shape_equiv re mt :
  spec_shape re = Some mt -> forall b, bytes_ok b -> (run_matcher mt b = true <-> search fold_rel re (decode b)).
Proof.
  intros Hs b Hb. destruct re; cbn [spec_shape] in Hs; try discriminate.
  - (* lit *)
    apply lit_matcher_inv in Hs as (rs' & E & Hp & ->). rewrite E. cbn [run_matcher].
    rewrite search_literal. now apply contains_iff.
  - destruct rs as [|a [|b0 [|c [|d rs]]]]; try discriminate.
    + (* two elements *)
      destruct (is_begin a) eqn:Ea.
      * apply is_begin_inv in Ea as ->. apply lit_matcher_inv in Hs as (rs' & -> & Hp & ->).
        cbn [run_matcher]. rewrite search_begin_lit. now apply prefix_iff.
      * destruct (is_end b0) eqn:Eb; [|discriminate].
        apply is_end_inv in Eb as ->. apply lit_matcher_inv in Hs as (rs' & -> & Hp & ->).
        cbn [run_matcher]. rewrite search_lit_end. now apply suffix_iff.
    + (* three elements *)
      destruct (is_any a && is_any c) eqn:Ea.
      * apply andb_prop in Ea as [Ha Hc]. apply is_any_inv in Ha, Hc. subst a c.
        apply lit_matcher_inv in Hs as (rs' & -> & Hp & ->).
        cbn [run_matcher]. rewrite search_any_lit_any. now apply contains_iff.
      * destruct (is_begin a && is_end c) eqn:Eb; [|discriminate].
        apply andb_prop in Eb as [Ha Hc]. apply is_begin_inv in Ha. apply is_end_inv in Hc. subst a c.
        apply lit_matcher_inv in Hs as (rs' & -> & Hp & ->).
        cbn [run_matcher]. rewrite search_begin_lit_end. now apply eq_iff.
Qed.

Lemma pred_equiv p rg b :
  (forall c, in_ranges rg c = pred_fn p c) ->
  (pred_fn p (decode_first b) = true <-> search fold_rel (Concat [BeginText; CharClass rg]) (decode b)).
Proof.
  intros Hrg. rewrite search_begin_class, decode_first_head.
  destruct (decode b) as [|c l]; cbn [hd hd_error].
  - rewrite pred_error. split; [discriminate|]. intros (c & H & _). discriminate.
  - rewrite <- Hrg. split; [intros H; exists c; auto|]. intros (c' & [= <-] & H). exact H.
Qed.

(* fast_path_equiv, stated for the specification of the selection *)
Theorem spec_select_equiv s re mt :
  parses_to s re -> spec_select s re = Some mt ->
  forall b, bytes_ok b -> (run_matcher mt b = true <-> search fold_rel re (decode b)).
Proof.
  intros Hp Hs b Hb. unfold spec_select in Hs.
  destruct (spec_shape re) as [mt'|] eqn:E.
  - injection Hs as <-. now apply shape_equiv.
  - destruct (bytes_eqb s pat_upper) eqn:E1.
    + injection Hs as <-. apply bytes_eqb_eq in E1. subst s.
      destruct (parse_upper _ Hp) as (rg & -> & Hrg). cbn [run_matcher]. now apply pred_equiv.
    + destruct (bytes_eqb s pat_lower) eqn:E2; [|discriminate].
      injection Hs as <-. apply bytes_eqb_eq in E2. subst s.
      destruct (parse_lower _ Hp) as (rg & -> & Hrg). cbn [run_matcher]. now apply pred_equiv.
Qed.

End FastPaths.
