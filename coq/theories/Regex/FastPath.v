(* C11: the matchers of ruleguard/textmatch (specification of matchers.go), the specification of the fast-path selection
   of compileOptimized, and the theorem that a selected fast path answers exactly as an unanchored regexp search. *)
From Coq Require Import List ZArith Lia Bool Arith.
From RG.Base Require Import Outcome GoSlice.
From RG.Regex Require Import Utf8 Regex.
Import ListNotations.

(* the rune predicates of package unicode (func(rune) bool) a prefixRunePredMatcher may hold *)
Inductive pred_id :=
| PredIsUpper | PredIsLower | PredIsTitle | PredIsLetter | PredIsDigit | PredIsNumber | PredIsSpace
| PredIsPunct | PredIsSymbol | PredIsMark | PredIsControl | PredIsGraphic | PredIsPrint.

Inductive matcher :=
| MContains (v : bytes)      (* containsLiteralMatcher *)
| MPrefix (v : bytes)        (* prefixLiteralMatcher *)
| MSuffix (v : bytes)        (* suffixLiteralMatcher *)
| MEq (v : bytes)            (* eqLiteralMatcher *)
| MPrefixPred (p : pred_id). (* prefixRunePredMatcher *)

Definition pred_tag (p : pred_id) : nat :=
  match p with
  | PredIsUpper => 0 | PredIsLower => 1 | PredIsTitle => 2 | PredIsLetter => 3 | PredIsDigit => 4 | PredIsNumber => 5
  | PredIsSpace => 6 | PredIsPunct => 7 | PredIsSymbol => 8 | PredIsMark => 9 | PredIsControl => 10 | PredIsGraphic => 11
  | PredIsPrint => 12
  end%nat.

Definition pred_eqb (a b : pred_id) : bool := Nat.eqb (pred_tag a) (pred_tag b).

Lemma pred_eqb_eq a b : pred_eqb a b = true -> a = b.
Proof. destruct a, b; cbn; intros H; try reflexivity; discriminate H. Qed.

Definition matcher_eqb (a b : matcher) : bool :=
  match a, b with
  | MContains x, MContains y | MPrefix x, MPrefix y | MSuffix x, MSuffix y | MEq x, MEq y => bytes_eqb x y
  | MPrefixPred p, MPrefixPred q => pred_eqb p q
  | _, _ => false
  end.

Definition opt_matcher_eqb (a b : option matcher) : bool :=
  match a, b with Some x, Some y => matcher_eqb x y | None, None => true | _, _ => false end.

Definition pat_upper : bytes := [94; 92; 112; 123; 76; 117; 125]%Z.  (* ^\p{Lu} *)
Definition pat_lower : bytes := [94; 92; 112; 123; 76; 108; 125]%Z.  (* ^\p{Ll} *)

(* the prefix-class table: pattern strings compared verbatim by compileOptimized, each with the rune predicate the
   prefixRunePredMatcher built for it holds. The table itself is REGENERATED from the source (gen_prefix_table);
   the first entry with an equal key wins (a Go switch / map has no duplicate keys) *)
Definition prefix_table := list (bytes * pred_id).

Fixpoint table_find (s : bytes) (t : prefix_table) : option pred_id :=
  match t with
  | [] => None
  | (k, p) :: t' => if bytes_eqb s k then Some p else table_find s t'
  end.

(* the literal a fast path may be built from: case-sensitive, and every rune survives string(rune) unchanged and
   differs from the decoder's error value *)
Definition plain_lit (re : regex) : option (list rune) :=
  match re with
  | Literal false rs => if forallb plain_runeb rs then Some rs else None
  | _ => None
  end.

Definition is_any (re : regex) : bool := match re with Star AnyCharNotNL => true | _ => false end.

Definition is_begin (re : regex) : bool := match re with BeginText => true | _ => false end.
Definition is_end (re : regex) : bool := match re with EndText => true | _ => false end.
Definition lit_matcher (k : bytes -> matcher) (re : regex) : option matcher :=
  option_map (fun rs => k (encode rs)) (plain_lit re).

Definition spec_shape (re : regex) : option matcher :=
  match re with
  | Literal _ _ => lit_matcher MContains re
  | Concat [a; b] =>
      if is_begin a then lit_matcher MPrefix b
      else if is_end b then lit_matcher MSuffix a else None
  | Concat [a; b; c] =>
      if is_any a && is_any c then lit_matcher MContains b
      else if is_begin a && is_end c then lit_matcher MEq b else None
  | _ => None
  end.

Definition spec_select (tbl : prefix_table) (s : bytes) (re : regex) : option matcher :=
  match spec_shape re with
  | Some mt => Some mt
  | None => option_map MPrefixPred (table_find s tbl)
  end.

Section FastPaths.
Variable fold_rel : rune -> rune -> bool.       (* unicode.SimpleFold orbits *)
Variable pred_fn : pred_id -> rune -> bool.     (* unicode.IsUpper, unicode.IsLower, ... *)
Variable parses_to : bytes -> regex -> Prop.    (* syntax.Parse(s, syntax.Perl) returns re *)
Variable tbl : prefix_table.                    (* the table of prefix classes of the current source *)

(* what must hold of EVERY entry of the table: syntax.Parse makes `^` + one character class of the pattern string, the
   class is the one the entry's predicate decides -- for all runes --, and the predicate rejects the decoder's error
   value (the matcher decodes the empty input to it). Checked for the regenerated table on every run: the classes and the
   predicates are observed for every rune, and FastPath.table_check_sound turns the comparison into this statement. *)
Hypothesis table_sound : forall s p re, table_find s tbl = Some p -> parses_to s re ->
  exists rg, re = Concat [BeginText; CharClass rg] /\ (forall c, in_ranges rg c = pred_fn p c) /\ pred_fn p rune_error = false.

(* matchers.go *)
Definition run_matcher (mt : matcher) (b : bytes) : bool :=
  match mt with
  | MContains v => containsb v b
  | MPrefix v => has_prefixb v b
  | MSuffix v => has_suffixb v b
  | MEq v => bytes_eqb v b
  | MPrefixPred p => pred_fn p (decode_first b)
  end.

Lemma plain_lit_inv re rs : plain_lit re = Some rs -> re = Literal false rs /\ Forall plain_rune rs.
Proof.
  destruct re; cbn; try discriminate. destruct fold; try discriminate.
  destruct (forallb plain_runeb rs0) eqn:E; intros [= <-]. split; [reflexivity|].
  apply Forall_forall. intros x Hx. eapply forallb_forall in E; eauto.
Qed.

Lemma is_any_inv re : is_any re = true -> re = Star AnyCharNotNL.
Proof. destruct re; try discriminate. destruct re; try discriminate. reflexivity. Qed.

Lemma is_begin_inv re : is_begin re = true -> re = BeginText.
Proof. destruct re; try discriminate. reflexivity. Qed.
Lemma is_end_inv re : is_end re = true -> re = EndText.
Proof. destruct re; try discriminate. reflexivity. Qed.

Lemma lit_matcher_inv k re mt :
  lit_matcher k re = Some mt -> exists rs, re = Literal false rs /\ Forall plain_rune rs /\ mt = k (encode rs).
Proof.
  unfold lit_matcher. destruct (plain_lit re) as [rs|] eqn:E; [|discriminate]. intros [= <-].
  apply plain_lit_inv in E as [-> Hp]. eauto.
Qed.

Lemma shape_equiv re mt :
  spec_shape re = Some mt -> forall b, bytes_ok b -> (run_matcher mt b = true <-> search fold_rel re (decode b)).
Proof.
  intros Hs b Hb. destruct re; cbn [spec_shape] in Hs; try discriminate.
  - (* lit *)
    apply lit_matcher_inv in Hs as (rs' & E & Hp & ->). rewrite E. cbn [run_matcher].
    rewrite search_literal. now apply contains_iff.
  - destruct rs as [|a [|b0 [|c [|d rs]]]]; try discriminate.
    + (* two elements *)
      destruct (is_begin a) eqn:Ea.
      * apply is_begin_inv in Ea as ->. apply lit_matcher_inv in Hs as (rs' & -> & Hp & ->).
        cbn [run_matcher]. rewrite search_begin_lit. now apply prefix_iff.
      * destruct (is_end b0) eqn:Eb; [|discriminate].
        apply is_end_inv in Eb as ->. apply lit_matcher_inv in Hs as (rs' & -> & Hp & ->).
        cbn [run_matcher]. rewrite search_lit_end. now apply suffix_iff.
    + (* three elements *)
      destruct (is_any a && is_any c) eqn:Ea.
      * apply andb_prop in Ea as [Ha Hc]. apply is_any_inv in Ha, Hc. subst a c.
        apply lit_matcher_inv in Hs as (rs' & -> & Hp & ->).
        cbn [run_matcher]. rewrite search_any_lit_any. now apply contains_iff.
      * destruct (is_begin a && is_end c) eqn:Eb; [|discriminate].
        apply andb_prop in Eb as [Ha Hc]. apply is_begin_inv in Ha. apply is_end_inv in Hc. subst a c.
        apply lit_matcher_inv in Hs as (rs' & -> & Hp & ->).
        cbn [run_matcher]. rewrite search_begin_lit_end. now apply eq_iff.
Qed.

Lemma pred_equiv p rg b :
  (forall c, in_ranges rg c = pred_fn p c) -> pred_fn p rune_error = false ->
  (pred_fn p (decode_first b) = true <-> search fold_rel (Concat [BeginText; CharClass rg]) (decode b)).
Proof.
  intros Hrg pred_error. rewrite search_begin_class, decode_first_head.
  destruct (decode b) as [|c l]; cbn [hd hd_error].
  - rewrite pred_error. split; [discriminate|]. intros (c & H & _). discriminate.
  - rewrite <- Hrg. split; [intros H; exists c; auto|]. intros (c' & [= <-] & H). exact H.
Qed.

(* fast_path_equiv, stated for the specification of the selection *)
Theorem spec_select_equiv s re mt :
  parses_to s re -> spec_select tbl s re = Some mt ->
  forall b, bytes_ok b -> (run_matcher mt b = true <-> search fold_rel re (decode b)).
Proof.
  intros Hp Hs b Hb. unfold spec_select in Hs.
  destruct (spec_shape re) as [mt'|] eqn:E.
  - injection Hs as <-. now apply shape_equiv.
  - destruct (table_find s tbl) as [p|] eqn:Et; [|discriminate].
    injection Hs as <-.
    destruct (table_sound _ _ _ Et Hp) as (rg & -> & Hrg & He). cbn [run_matcher]. now apply pred_equiv.
Qed.

End FastPaths.

(* ------------------------------------------------------------------------------------------------------------------
   Discharging table_sound for a concrete table: the classes syntax.Parse builds for the table's pattern strings and the
   range tables of the unicode predicates are observed (both canonical: sorted, maximal ranges), compared here, and the
   comparison implies the hypothesis for ALL runes. *)
Fixpoint ranges_eqb (a b : list (rune * rune)) : bool :=
  match a, b with
  | [], [] => true
  | (l1, h1) :: a', (l2, h2) :: b' => (l1 =? l2)%Z && (h1 =? h2)%Z && ranges_eqb a' b'
  | _, _ => false
  end.

Lemma ranges_eqb_eq a b : ranges_eqb a b = true -> a = b.
Proof.
  revert b. induction a as [|[l1 h1] a IH]; destruct b as [|[l2 h2] b]; cbn; try discriminate; [reflexivity|].
  intros H. apply andb_prop in H as [H H3]. apply andb_prop in H as [H1 H2].
  apply Z.eqb_eq in H1, H2. subst. f_equal. now apply IH.
Qed.

Fixpoint parse_find (s : bytes) (ps : list (bytes * regex)) : option regex :=
  match ps with
  | [] => None
  | (k, re) :: ps' => if bytes_eqb s k then Some re else parse_find s ps'
  end.

(* a parse relation that agrees with the observed parses (and says anything elsewhere) *)
Definition agrees_with (parses : list (bytes * regex)) (s : bytes) (re : regex) : Prop :=
  forall re', parse_find s parses = Some re' -> re = re'.

Definition entry_ok (pred_rg : pred_id -> list (rune * rune)) (parses : list (bytes * regex)) (e : bytes * pred_id) : bool :=
  match parse_find (fst e) parses with
  | Some (Concat [BeginText; CharClass rg]) => ranges_eqb rg (pred_rg (snd e)) && negb (in_ranges rg rune_error)
  | _ => false
  end.

Theorem table_check_sound pred_rg parses tbl :
  forallb (entry_ok pred_rg parses) tbl = true ->
  forall s p re, table_find s tbl = Some p -> agrees_with parses s re ->
    exists rg, re = Concat [BeginText; CharClass rg] /\
      (forall c, in_ranges rg c = in_ranges (pred_rg p) c) /\ in_ranges (pred_rg p) rune_error = false.
Proof.
  induction tbl as [|[k q] t IH]; cbn [forallb table_find]; intros Hall s p re Hf Hag; [discriminate|].
  unfold agrees_with in Hag.
  apply andb_prop in Hall as [He Hall].
  destruct (bytes_eqb s k) eqn:Ek.
  - injection Hf as <-. apply bytes_eqb_eq in Ek. subst k.
    unfold entry_ok in He. cbn [fst snd] in He.
    destruct (parse_find s parses) as [re0|] eqn:Ep; [|discriminate].
    specialize (Hag _ eq_refl). subst re0.
    destruct re; try discriminate.
    destruct rs as [|a [|b [|c rs]]]; try discriminate; destruct a; try discriminate; destruct b; try discriminate.
    apply andb_prop in He as [H1 H2]. apply ranges_eqb_eq in H1. apply negb_true_iff in H2.
    eexists. split; [reflexivity|]. rewrite <- H1. split; [reflexivity|exact H2].
  - eapply IH; eauto.
Qed.
