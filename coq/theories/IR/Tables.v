(* C05: decidable versions of the side conditions of print_eval_roundtrip, so that they can be discharged by
   computation on the tables regenerated from /repo. *)
From Coq Require Import List ZArith Bool String Lia.
From RG.Base Require Import Outcome GoSlice.
From RG.IR Require Import Val Print.
Import ListNotations.
Local Open Scope Z_scope.

Lemma assoc_In {A} k (l : list (string * A)) v : assoc k l = Some v -> In (k, v) l.
Proof.
  induction l as [|[k' v'] l IH]; cbn [assoc]; [discriminate|].
  destruct (String.eqb k k') eqn:E.
  - intros [= <-]. apply String.eqb_eq in E. subst. now left.
  - intros H. right. now apply IH.
Qed.

Lemma nassoc_In {A} k (l : list (N * A)) v : nassoc k l = Some v -> In (k, v) l.
Proof.
  induction l as [|[k' v'] l IH]; cbn [nassoc]; [discriminate|].
  destruct (N.eqb k k') eqn:E.
  - intros [= <-]. apply N.eqb_eq in E. subst. now left.
  - intros H. right. now apply IH.
Qed.

(* ---- FilterOp tables *)
Definition op_entry_ok (consts : list (string * N)) (e : N * string) : bool :=
  match assoc (String.append "Filter" (String.append (snd e) "Op")) consts with
  | Some m => N.eqb m (fst e)
  | None => false
  end.

Lemma ops_consistent_of_check names consts :
  forallb (op_entry_ok consts) names = true ->
  forall n nm, op_const_name names n = Some nm -> assoc nm consts = Some n.
Proof.
  intros Hall n nm H. unfold op_const_name in H.
  destruct (nassoc n names) as [s|] eqn:E; [|discriminate]. inversion H; subst nm. clear H.
  apply nassoc_In in E. rewrite forallb_forall in Hall. specialize (Hall _ E).
  unfold op_entry_ok in Hall. cbn [fst snd] in Hall.
  destruct (assoc _ consts) as [m|]; [|discriminate]. apply N.eqb_eq in Hall. now subst.
Qed.

(* ---- field names *)
Fixpoint nodup_s (l : list string) : bool :=
  match l with
  | [] => true
  | x :: r => negb (mem_s x r) && nodup_s r
  end.

Lemma mem_s_In x l : mem_s x l = true <-> In x l.
Proof.
  induction l as [|y l IH]; cbn [mem_s]; [split; [discriminate|contradiction]|].
  rewrite orb_true_iff, IH. split.
  - intros [H|H]; [apply String.eqb_eq in H; now left|now right].
  - intros [H|H]; [left; subst; apply String.eqb_refl|now right].
Qed.

Lemma nodup_s_NoDup l : nodup_s l = true -> NoDup l.
Proof.
  induction l as [|x l IH]; cbn [nodup_s]; [constructor|].
  intros H. apply andb_prop in H as [H1 H2]. constructor; [|now apply IH].
  intros Hin. apply mem_s_In in Hin. now rewrite Hin in H1.
Qed.

Lemma fields_nodup_of_check (env : tenv) :
  forallb (fun e => nodup_s (map fst (snd e))) env = true ->
  forall n fts, assoc n env = Some fts -> NoDup (map fst fts).
Proof.
  intros Hall n fts H. apply assoc_In in H. rewrite forallb_forall in Hall.
  specialize (Hall _ H). now apply nodup_s_NoDup.
Qed.

(* ---- zero values *)
Lemma zero_stable_of_forall (env : tenv) zfuel :
  Forall (fun e => zero env zfuel (TNamed (fst e)) = VStruct (fst e) (map (fun kt => zero env zfuel (snd kt)) (snd e))) env ->
  forall n fts, assoc n env = Some fts ->
                zero env zfuel (TNamed n) = VStruct n (map (fun kt => zero env zfuel (snd kt)) fts).
Proof.
  intros Hall n fts H. apply assoc_In in H. rewrite Forall_forall in Hall. exact (Hall _ H).
Qed.
