(* C05: the environment of custom functions (Filter(fn) / Do(fn)).
   The loader compiles the CustomDecls of an IR file as ONE Go file whose package clause it writes itself, registers every
   function of it in the engine-wide environment under (that package, name), and resolves the function names its rules use
   under (File.PkgPath, name). File.PkgPath is whatever package the converter type-checked the rules file as. So an IR value
   loads like its source only if the producer of the IR (convertAST inside Load, the precompiler) checks the rules file under
   the name the loader registers under -- whatever package clause the author wrote. This file models the environment and
   proves the two directions; the instance (the three names, regenerated from the source) is in coq/tmpl/C05. *)
From Coq Require Import List String Bool.
Import ListNotations.
Local Open Scope string_scope.

Section Env.
Variable fn : Type.

Definition key := (string * string)%type.
Definition key_eqb (a b : key) : bool := String.eqb (fst a) (fst b) && String.eqb (snd a) (snd b).

Lemma key_eqb_eq a b : key_eqb a b = true <-> a = b.
Proof.
  destruct a as [a1 a2], b as [b1 b2]. unfold key_eqb. cbn [fst snd]. rewrite andb_true_iff, !String.eqb_eq.
  split; [intros [-> ->]; reflexivity|intros H; inversion H; auto].
Qed.

Lemma key_eqb_refl a : key_eqb a a = true.
Proof. now apply key_eqb_eq. Qed.

Definition env := list (key * fn).

Fixpoint get (k : key) (e : env) : option fn :=
  match e with
  | [] => None
  | (k', f) :: r => if key_eqb k k' then Some f else get k r
  end.

(* quasigo.Env.RemoveFunc / AddFunc *)
Definition remove (k : key) (e : env) : env := filter (fun kv => negb (key_eqb k (fst kv))) e.
Definition add (k : key) (f : fn) (e : env) : env := (k, f) :: remove k e.

(* compileFilterFuncs: unbind every declared name, then compile and bind the declarations in order *)
Definition register (pkg : string) (decls : list (string * fn)) (e : env) : env :=
  fold_left (fun e d => add (pkg, fst d) (snd d) e) decls
            (fold_left (fun e d => remove (pkg, fst d) e) decls e).

(* loadRule / newFilter: every function name the rules of the file use, looked up under the file's PkgPath;
   a missing one is the load error "can't find a compiled version of ..." *)
Fixpoint resolve (file_pkg : string) (uses : list string) (e : env) : option (list fn) :=
  match uses with
  | [] => Some []
  | n :: r => match get (file_pkg, n) e, resolve file_pkg r e with
              | Some f, Some fs => Some (f :: fs)
              | _, _ => None
              end
  end.

Lemma get_remove_other k k' e : key_eqb k k' = false -> get k (remove k' e) = get k e.
Proof.
  intros H. induction e as [|[k0 f] r IH]; [reflexivity|]. cbn [remove filter fst].
  destruct (key_eqb k' k0) eqn:E; cbn [negb].
  - apply key_eqb_eq in E. subst k0. cbn [get]. rewrite H. exact IH.
  - cbn [get]. destruct (key_eqb k k0); [reflexivity|exact IH].
Qed.

Lemma get_add_same k f e : get k (add k f e) = Some f.
Proof. unfold add. cbn [get]. now rewrite key_eqb_refl. Qed.

Lemma get_add_other k k' f e : key_eqb k k' = false -> get k (add k' f e) = get k e.
Proof. intros H. unfold add. cbn [get]. rewrite H. now apply get_remove_other. Qed.

Lemma bound_stays_bound pkg k ds e :
  get k e <> None -> get k (fold_left (fun e d => add (pkg, fst d) (snd d) e) ds e) <> None.
Proof.
  revert e; induction ds as [|d ds IH]; intros e H; [exact H|]. cbn [fold_left]. apply IH.
  destruct (key_eqb k (pkg, fst d)) eqn:E.
  - apply key_eqb_eq in E. subst k. rewrite get_add_same. discriminate.
  - now rewrite get_add_other.
Qed.

(* every function the file declares is found under the package the loader registers under *)
Theorem registered_found pkg decls e n :
  In n (map fst decls) -> get (pkg, n) (register pkg decls e) <> None.
Proof.
  unfold register. generalize (fold_left (fun e d => remove (pkg, fst d) e) decls e) as e0.
  induction decls as [|d ds IH]; intros e0 H; [destruct H|]. cbn [fold_left].
  destruct H as [H|H].
  - apply bound_stays_bound. cbn [map fst] in H. rewrite <- H. rewrite get_add_same. discriminate.
  - now apply IH.
Qed.

(* registering under one package does not touch what another package name resolves to *)
Theorem other_package_untouched pkg pkg' decls e n :
  pkg' <> pkg -> get (pkg', n) (register pkg decls e) = get (pkg', n) e.
Proof.
  intros Hne. unfold register.
  assert (K : forall m, key_eqb (pkg', n) (pkg, m) = false).
  { intros m. unfold key_eqb. cbn [fst snd]. destruct (String.eqb pkg' pkg) eqn:E; [apply String.eqb_eq in E; contradiction|reflexivity]. }
  assert (A : forall (ds : list (string * fn)) e1, get (pkg', n) (fold_left (fun e d => add (pkg, fst d) (snd d) e) ds e1) = get (pkg', n) e1).
  { induction ds as [|d ds IH]; intros e1; [reflexivity|]. cbn [fold_left]. rewrite IH. now apply get_add_other. }
  assert (B : forall (ds : list (string * fn)) e1, get (pkg', n) (fold_left (fun e d => remove (pkg, fst d) e) ds e1) = get (pkg', n) e1).
  { induction ds as [|d ds IH]; intros e1; [reflexivity|]. cbn [fold_left]. rewrite IH. now apply get_remove_other. }
  now rewrite A, B.
Qed.

(* an IR file whose PkgPath is the registration package resolves every declared function it uses ... *)
Theorem resolves_under_registration_package pkg file_pkg decls uses e :
  file_pkg = pkg -> (forall n, In n uses -> In n (map fst decls)) ->
  resolve file_pkg uses (register pkg decls e) <> None.
Proof.
  intros -> H. induction uses as [|n r IH]; [discriminate|]. cbn [resolve].
  pose proof (registered_found pkg decls e n (H n (or_introl eq_refl))) as F.
  destruct (get (pkg, n) (register pkg decls e)); [|contradiction].
  destruct (resolve pkg r (register pkg decls e)) eqn:E; [discriminate|].
  exfalso. apply IH; [|reflexivity]. intros m Hm. apply H. now right.
Qed.

(* ... and an IR file that carries any other PkgPath does not, in an engine that has loaded nothing else *)
Theorem unresolved_under_other_package pkg file_pkg decls uses :
  file_pkg <> pkg -> uses <> [] -> resolve file_pkg uses (register pkg decls []) = None.
Proof.
  intros Hne Hu. destruct uses as [|n r]; [contradiction|]. cbn [resolve].
  now rewrite (other_package_untouched pkg file_pkg decls [] n Hne).
Qed.

(* two producers of the IR (source conversion inside Load, the precompiler): the loads resolve alike for EVERY rules
   file as soon as both check it under the registration package *)
Corollary producers_resolve_alike pkg pkg_a pkg_b decls uses e :
  pkg_a = pkg -> pkg_b = pkg ->
  resolve pkg_a uses (register pkg decls e) = resolve pkg_b uses (register pkg decls e).
Proof. intros -> ->. reflexivity. Qed.
End Env.

Example func_env_ex :
  resolve nat "gorules" ["isPtr"; "describe"] (register nat "gorules" [("isPtr", 1); ("describe", 2)] []) = Some [1; 2]
  /\ resolve nat "lintrules" ["isPtr"] (register nat "gorules" [("isPtr", 1); ("describe", 2)] []) = None.
Proof. split; vm_compute; reflexivity. Qed.

(* ------------------------------------------------------------------ the rules package under LoadFromIR
   A file loaded from IR has no type-checked rules package (Load hands the loader one: config.pkg); compileFilterFuncs
   installs the package of the compiled declarations in its place. What matters is WHERE in the function that happens:
   every way out of it that is a success, for a file that has declarations, must lie behind the installation --
   whether or not there was any function to compile. The statements of the function (top level, in order) are
   regenerated as cff_steps; cff_exits enumerates the ways out. *)
Inductive cff_step :=
| CGuardNoDecls     (* if len(irfile.CustomDecls) == 0 { return nil } *)
| CLoad             (* f, err := goutil.LoadGoFile(...) of the synthesized file *)
| CErrExit          (* a statement whose only way out of the function is an error *)
| CFallback         (* if l.pkg == nil { l.pkg = f.Pkg } *)
| CMayReturnOk      (* a statement that may leave the function with `return nil` *)
| CMayFail          (* a statement that may leave the function with an error, or go on *)
| COther            (* no return inside *)
| CReturnOk         (* return nil *)
| CReturnErr.       (* return <error> *)

(* (success?, stand-in installed?) for every way out; `decls`: the file has custom declarations; `pkg`: l.pkg is set *)
Fixpoint cff_exits (decls pkg : bool) (ss : list cff_step) : list (bool * bool) :=
  match ss with
  | [] => [(true, pkg)]
  | CGuardNoDecls :: r => if decls then cff_exits decls pkg r else [(true, pkg)]
  | CLoad :: r | COther :: r => cff_exits decls pkg r
  | CErrExit :: r | CMayFail :: r => (false, pkg) :: cff_exits decls pkg r
  | CFallback :: r => cff_exits decls true r
  | CMayReturnOk :: r => (true, pkg) :: cff_exits decls pkg r
  | CReturnOk :: _ => [(true, pkg)]
  | CReturnErr :: _ => [(false, pkg)]
  end.

Definition cff_ok (ss : list cff_step) : bool :=
  forallb (fun e : bool * bool => negb (fst e) || snd e) (cff_exits true false ss)
  && existsb (fun e : bool * bool => fst e) (cff_exits true false ss).

(* with declarations and no rules package given: every success leaves the stand-in installed, and success is possible *)
Theorem stand_in_on_every_success ss :
  cff_ok ss = true ->
  (forall e, In e (cff_exits true false ss) -> fst e = true -> snd e = true)
  /\ (exists e, In e (cff_exits true false ss) /\ fst e = true).
Proof.
  unfold cff_ok. intros H. apply andb_prop in H as [A B]. split.
  - intros e Hin Hs. rewrite forallb_forall in A. specialize (A e Hin). rewrite Hs in A. exact A.
  - apply existsb_exists in B. destruct B as (e & Hin & Hs). exists e. split; assumption.
Qed.

(* a rules package that was given (Load) is never replaced *)
Lemma given_package_kept ss : forall decls e, In e (cff_exits decls true ss) -> snd e = true.
Proof.
  induction ss as [|s r IH]; intros decls e Hin; cbn [cff_exits] in Hin.
  - destruct Hin as [<-|[]]. reflexivity.
  - destruct s; cbn in Hin;
      try (destruct decls; [apply (IH _ _ Hin)|destruct Hin as [<-|[]]; reflexivity]);
      try (apply (IH _ _ Hin));
      try (destruct Hin as [<-|Hin]; [reflexivity|apply (IH _ _ Hin)]);
      try (destruct Hin as [<-|[]]; reflexivity).
Qed.

(* the function as it stands today, and the same with an early success in front of the installation *)
Example cff_ex :
  cff_ok [CGuardNoDecls; COther; CLoad; CErrExit; CFallback; COther; CMayFail; CReturnOk] = true
  /\ cff_ok [CGuardNoDecls; COther; CLoad; CErrExit; COther; CMayReturnOk; CFallback; CMayFail; CReturnOk] = false.
Proof. split; reflexivity. Qed.
