(* C05: decidable equality on values and literal trees, for the correspondence check only. *)
From Coq Require Import List ZArith Bool String.
From RG.Base Require Import Outcome GoSlice.
From RG.IR Require Import Val Print.
Import ListNotations.
Local Open Scope Z_scope.

Fixpoint list_eqb {A} (eqb : A -> A -> bool) (a b : list A) : bool :=
  match a, b with
  | [], [] => true
  | x :: a', y :: b' => eqb x y && list_eqb eqb a' b'
  | _, _ => false
  end.

Fixpoint val_eqb (a b : val) {struct a} : bool :=
  match a, b with
  | VInt x, VInt y => x =? y
  | VStr x, VStr y => bytes_eqb x y
  | VOp x, VOp y => N.eqb x y
  | VNil, VNil => true
  | VIStr x, VIStr y => bytes_eqb x y
  | VI64 x, VI64 y => x =? y
  | VStruct n fs, VStruct n' fs' =>
      String.eqb n n' &&
      (fix go (l l' : list val) : bool :=
         match l, l' with
         | [], [] => true
         | x :: r, y :: r' => val_eqb x y && go r r'
         | _, _ => false
         end) fs fs'
  | VSlice None, VSlice None => true
  | VSlice (Some l), VSlice (Some l') =>
      (fix go (l l' : list val) : bool :=
         match l, l' with
         | [], [] => true
         | x :: r, y :: r' => val_eqb x y && go r r'
         | _, _ => false
         end) l l'
  | _, _ => false
  end.

Definition opt_eqb {A} (eqb : A -> A -> bool) (a b : option A) : bool :=
  match a, b with
  | Some x, Some y => eqb x y
  | None, None => true
  | _, _ => false
  end.

Fixpoint lit_eqb (a b : lit) {struct a} : bool :=
  match a, b with
  | LStr x, LStr y => bytes_eqb x y
  | LInt x, LInt y => x =? y
  | LConv64 x, LConv64 y => x =? y
  | LOpName x, LOpName y => String.eqb x y
  | LBad, LBad => true
  | LComp t es, LComp t' es' =>
      opt_eqb String.eqb t t' &&
      (fix go (l l' : list (option string * lit)) : bool :=
         match l, l' with
         | [], [] => true
         | (k, x) :: r, (k', y) :: r' => opt_eqb String.eqb k k' && lit_eqb x y && go r r'
         | _, _ => false
         end) es es'
  | _, _ => false
  end.
