(* C05: IR values as the reflective printer sees them -- a small type universe (int, string, FilterOp,
   interface{}, named structs, slices) with a type environment that go2coq regenerates from ruleguard/ir/ir.go,
   and the literal trees that irprint writes / the Go compiler evaluates. *)
From Coq Require Import List ZArith Bool String Lia.
From RG.Base Require Import Outcome GoSlice.
Import ListNotations.
Local Open Scope Z_scope.

(* ------------------------------------------------------------------ types and values *)
Inductive ty :=
| TInt                      (* int *)
| TString                   (* string *)
| TOp                       (* ir.FilterOp *)
| TIface                    (* interface{}: nil, a string or an int64 *)
| TNamed (name : string)    (* struct type ir.<name> *)
| TSlice (elem : ty).

Inductive val :=
| VInt (z : Z)
| VStr (s : bytes)
| VOp (n : N)
| VNil                      (* nil interface *)
| VIStr (s : bytes)         (* interface holding a string *)
| VI64 (z : Z)              (* interface holding an int64 *)
| VStruct (name : string) (fields : list val)
| VSlice (elems : option (list val)).   (* None = nil slice, Some [] = empty non-nil slice *)

(* struct name -> fields in declaration order *)
Definition tenv := list (string * list (string * ty)).

Fixpoint assoc {A} (k : string) (l : list (string * A)) : option A :=
  match l with
  | [] => None
  | (k', v) :: r => if String.eqb k k' then Some v else assoc k r
  end.

Fixpoint ty_eqb (a b : ty) : bool :=
  match a, b with
  | TInt, TInt | TString, TString | TOp, TOp | TIface, TIface => true
  | TNamed x, TNamed y => String.eqb x y
  | TSlice x, TSlice y => ty_eqb x y
  | _, _ => false
  end.

(* the Go spelling of a type as reflect's Type.String() prints it *)
Fixpoint ty_name (t : ty) : string :=
  match t with
  | TInt => "int"
  | TString => "string"
  | TOp => "ir.FilterOp"
  | TIface => "interface {}"
  | TNamed n => "ir." ++ n
  | TSlice e => "[]" ++ ty_name e
  end.

Section WithEnv.
Variable env : tenv.

(* custom induction principle for the nested inductive *)
Section ValInd.
Variable P : val -> Prop.
Hypothesis Hint : forall z, P (VInt z).
Hypothesis Hstr : forall s, P (VStr s).
Hypothesis Hop : forall n, P (VOp n).
Hypothesis Hnil : P VNil.
Hypothesis Histr : forall s, P (VIStr s).
Hypothesis Hi64 : forall z, P (VI64 z).
Hypothesis Hstruct : forall name fs, Forall P fs -> P (VStruct name fs).
Hypothesis Hsnil : P (VSlice None).
Hypothesis Hslice : forall l, Forall P l -> P (VSlice (Some l)).

Fixpoint val_ind' (v : val) : P v :=
  match v with
  | VInt z => Hint z
  | VStr s => Hstr s
  | VOp n => Hop n
  | VNil => Hnil
  | VIStr s => Histr s
  | VI64 z => Hi64 z
  | VStruct name fs =>
      Hstruct name fs ((fix go (l : list val) : Forall P l :=
                          match l with [] => Forall_nil P | x :: r => Forall_cons x (val_ind' x) (go r) end) fs)
  | VSlice None => Hsnil
  | VSlice (Some l) =>
      Hslice l ((fix go (l : list val) : Forall P l :=
                   match l with [] => Forall_nil P | x :: r => Forall_cons x (val_ind' x) (go r) end) l)
  end.
End ValInd.

(* reflect.Value.IsZero *)
Fixpoint is_zero (v : val) : bool :=
  match v with
  | VInt z => z =? 0
  | VStr s => match s with [] => true | _ => false end
  | VOp n => N.eqb n 0
  | VNil => true
  | VIStr _ | VI64 _ => false
  | VStruct _ fs => forallb is_zero fs
  | VSlice None => true
  | VSlice (Some _) => false
  end.

(* v is a value of type t *)
Fixpoint has_ty (v : val) (t : ty) {struct v} : bool :=
  match v, t with
  | VInt _, TInt => true
  | VStr _, TString => true
  | VOp _, TOp => true
  | (VNil | VIStr _ | VI64 _), TIface => true
  | VStruct n fs, TNamed n' =>
      String.eqb n n' &&
      match assoc n env with
      | None => false
      | Some fts =>
          (fix go (fs : list val) (fts : list (string * ty)) : bool :=
             match fs, fts with
             | [], [] => true
             | v :: fs', (_, t) :: fts' => has_ty v t && go fs' fts'
             | _, _ => false
             end) fs fts
      end
  | VSlice None, TSlice _ => true
  | VSlice (Some l), TSlice e => forallb (fun x => has_ty x e) l
  | _, _ => false
  end.

Fixpoint fields_have_ty (fs : list val) (fts : list (string * ty)) : bool :=
  match fs, fts with
  | [], [] => true
  | v :: fs', (_, t) :: fts' => has_ty v t && fields_have_ty fs' fts'
  | _, _ => false
  end.

Lemma has_ty_struct n fs n' :
  has_ty (VStruct n fs) (TNamed n') =
  String.eqb n n' && match assoc n env with None => false | Some fts => fields_have_ty fs fts end.
Proof.
  cbn [has_ty]. destruct (String.eqb n n'); [|reflexivity]. cbn [andb].
  destruct (assoc n env) as [fts|]; [|reflexivity].
  revert fts; induction fs as [|v fs IH]; intros [|[k t] fts]; cbn [fields_have_ty]; try reflexivity.
  all: try now rewrite IH.
Qed.

(* zero value of a type; fuel bounds the nesting of struct types (structs cannot contain themselves by value) *)
Fixpoint zero (fuel : nat) (t : ty) : val :=
  match t with
  | TInt => VInt 0
  | TString => VStr []
  | TOp => VOp 0
  | TIface => VNil
  | TSlice _ => VSlice None
  | TNamed n =>
      match fuel with
      | O => VStruct n []
      | S f => match assoc n env with
               | Some fts => VStruct n (map (fun kt => zero f (snd kt)) fts)
               | None => VStruct n []
               end
      end
  end.

End WithEnv.

(* ------------------------------------------------------------------ literal trees *)
Inductive lit :=
| LStr (s : bytes)                 (* string literal (decoded) *)
| LInt (z : Z)                     (* integer literal, possibly negated *)
| LConv64 (z : Z)                  (* int64(z) *)
| LOpName (name : string)          (* ir.<name>: a FilterOp constant *)
| LComp (tyname : option string) (elts : list (option string * lit))  (* composite literal; element keys are field names *)
| LBad.                            (* anything else *)
