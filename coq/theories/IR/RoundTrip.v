(* C05: print_eval_roundtrip -- evaluating the literal that the reflective printer writes gives the value back,
   for ALL well-formed IR values of ALL types of the environment (structural induction over values). *)
From Coq Require Import List ZArith Bool String Lia.
From RG.Base Require Import Outcome GoSlice.
From RG.IR Require Import Val Print.
Import ListNotations.
Local Open Scope Z_scope.

Section RoundTrip.
Variable env : tenv.
Variable op_names : list (N * string).
Variable op_consts : list (string * N).
Variable compact_ops : list N.
Variable pattern_fields compact_fields : list string.
Variable zfuel : nat.

Notation pr := (pr env op_names compact_ops pattern_fields compact_fields).
Notation ev := (ev env op_consts zfuel).
Notation pr_fields := (pr_fields env op_names compact_ops pattern_fields compact_fields).
Notation pr_elems := (pr_elems env op_names compact_ops pattern_fields compact_fields).
Notation ev_fields := (ev_fields env op_consts zfuel).
Notation ev_elems := (ev_elems env op_consts zfuel).
Notation fixed_fields := (fixed_fields compact_ops pattern_fields compact_fields).
Notation compact_value_ok := (compact_value_ok compact_ops pattern_fields compact_fields).
Notation op_const_name := (op_const_name op_names).

(* ---- side conditions on the regenerated tables (all decidable; discharged by computation in coq/tmpl/C05) *)
(* every op that has a name has a constant of that name with that value *)
Hypothesis ops_consistent :
  forall n nm, op_const_name n = Some nm -> assoc nm op_consts = Some n.
(* field names of every struct are pairwise distinct *)
Hypothesis fields_nodup :
  forall n fts, assoc n env = Some fts -> NoDup (map fst fts).
(* the zero value of a struct type is the struct of the zero values of its fields (zfuel is large enough) *)
Hypothesis zero_stable :
  forall n fts, assoc n env = Some fts ->
                zero env zfuel (TNamed n) = VStruct n (map (fun kt => zero env zfuel (snd kt)) fts).

(* ---- well-formedness: what the printer silently assumes about the value *)
Definition printable (v : val) : bool :=
  match v with VNil | VSlice None => false | _ => true end.

Fixpoint policy_cover (pol : option (list string)) (fs : list val) (fts : list (string * ty)) : bool :=
  match pol with
  | None => true
  | Some ks =>
      match fs, fts with
      | v :: fs', (k, _) :: fts' =>
          (if mem_s k ks then printable v else is_zero v) && policy_cover pol fs' fts'
      | _, _ => true
      end
  end.

Fixpoint wf (v : val) : bool :=
  match v with
  | VOp n => match op_const_name n with Some _ => true | None => false end
  | VStruct name fs =>
      match assoc name env with
      | None => false
      | Some fts => compact_value_ok name fs fts && policy_cover (fixed_fields name fs fts) fs fts && forallb wf fs
      end
  | VSlice (Some l) => forallb (fun x => negb (is_zero x) && wf x) l
  | _ => true
  end.

(* ---- zero values are unique *)
Lemma zero_unique v : forall t, has_ty env v t = true -> is_zero v = true -> v = zero env zfuel t.
Proof.
  induction v using val_ind'; intros t Hty Hz; destruct t; try discriminate Hty; cbn in Hz; try discriminate Hz.
  - apply Z.eqb_eq in Hz. subst. destruct zfuel; reflexivity.
  - destruct s; [destruct zfuel; reflexivity|discriminate].
  - apply N.eqb_eq in Hz. subst. destruct zfuel; reflexivity.
  - destruct zfuel; reflexivity.
  - rewrite has_ty_struct in Hty. apply andb_prop in Hty as [Hn Hf]. apply String.eqb_eq in Hn. subst name0.
    destruct (assoc name env) as [fts|] eqn:E; [|discriminate].
    rewrite (zero_stable _ _ E). f_equal.
    clear E. revert fts Hf. induction fs as [|v fs IHfs]; intros [|[k t] fts] Hf; cbn in Hf; try discriminate; [reflexivity|].
    apply andb_prop in Hf as [Hv Hf]. cbn in Hz. apply andb_prop in Hz as [Hzv Hzf].
    inversion H as [|? ? Hv' Hfs']; subst. cbn [map snd]. f_equal.
    + now apply Hv'.
    + now apply IHfs.
  - destruct zfuel; reflexivity.
Qed.

(* ---- helper lemmas on association lists *)
Lemma assoc_in_nodup {A} (l : list (string * A)) k v :
  NoDup (map fst l) -> In (k, v) l -> assoc k l = Some v.
Proof.
  induction l as [|[k' v'] l IH]; intros Hnd Hin; [contradiction|].
  cbn [assoc]. inversion Hnd as [|? ? Hnotin Hnd']; subst. destruct Hin as [E|Hin].
  - inversion E; subst. now rewrite String.eqb_refl.
  - destruct (String.eqb k k') eqn:Ek.
    + apply String.eqb_eq in Ek. subst. exfalso. apply Hnotin. change k' with (fst (k', v)). now apply in_map.
    + now apply IH.
Qed.

Lemma assoc_not_in {A} (l : list (string * A)) k : ~ In k (map fst l) -> assoc k l = None.
Proof.
  induction l as [|[k' v'] l IH]; intros Hn; [reflexivity|]. cbn [assoc].
  destruct (String.eqb k k') eqn:Ek.
  - apply String.eqb_eq in Ek. subst. exfalso. apply Hn. now left.
  - apply IH. intros H. apply Hn. now right.
Qed.

(* the (key, value) pairs the printer keeps *)
Fixpoint kept (pol : option (list string)) (fs : list val) (fts : list (string * ty)) : list (string * val) :=
  match fs, fts with
  | v :: fs', (k, _) :: fts' => (if included pol k v then [(k, v)] else []) ++ kept pol fs' fts'
  | _, _ => []
  end.

Lemma kept_keys_subset pol fs fts k : In k (map fst (kept pol fs fts)) -> In k (map fst fts).
Proof.
  revert fts; induction fs as [|v fs IH]; intros [|[k' t] fts]; cbn [kept]; try contradiction.
  rewrite map_app, in_app_iff. intros [H|H].
  - destruct (included pol k' v); [|contradiction]. cbn in H. destruct H as [<-|[]]. now left.
  - right. now apply IH.
Qed.

Lemma kept_nodup pol fs fts : NoDup (map fst fts) -> keys_nodup (kept pol fs fts) = true.
Proof.
  revert fts; induction fs as [|v fs IH]; intros [|[k t] fts] Hnd; cbn [kept]; try reflexivity.
  inversion Hnd as [|? ? Hnotin Hnd']; subst.
  destruct (included pol k v); cbn [app keys_nodup].
  - rewrite assoc_not_in; [now apply IH|]. intros H. apply Hnotin. now apply kept_keys_subset in H.
  - now apply IH.
Qed.

Lemma assoc_kept_notin pol fs fts k : ~ In k (map fst fts) -> assoc k (kept pol fs fts) = None.
Proof. intros H. apply assoc_not_in. intros H'. apply H. now apply kept_keys_subset in H'. Qed.

(* ---- the main induction *)
Definition RT (v : val) : Prop :=
  forall t inside, has_ty env v t = true -> wf v = true -> printable v = true ->
                   ev t inside (pr t inside v) = Some v.

Lemma nonzero_printable v : is_zero v = false -> printable v = true.
Proof. destruct v as [| | | | | | |[l|]]; cbn; try reflexivity; discriminate. Qed.

Lemma ev_fields_kept pol fts_all :
  forall fs fts,
    Forall RT fs ->
    fields_have_ty env fs fts = true ->
    forallb wf fs = true ->
    (forall k ft, In (k, ft) fts -> assoc k fts_all = Some ft) ->
    (* every kept field is printable *)
    (forall k v, In (k, v) (kept pol fs fts) -> printable v = true) ->
    ev_fields fts_all (pr_fields pol fs fts) = Some (kept pol fs fts).
Proof.
  induction fs as [|v fs IH]; intros [|[k ft] fts] HRT Hty Hwf Hlook Hpr; cbn in Hty; try discriminate; [reflexivity|].
  apply andb_prop in Hty as [Hv Hty]. cbn in Hwf. apply andb_prop in Hwf as [Hwv Hwf].
  inversion HRT as [|? ? HRTv HRTfs]; subst.
  cbn [Print.pr_fields kept].
  assert (IH' : ev_fields fts_all (pr_fields pol fs fts) = Some (kept pol fs fts)).
  { apply IH; try assumption.
    - intros k' ft' Hin. apply Hlook. now right.
    - intros k' v' Hin. apply (Hpr k' v'). cbn [kept]. apply in_or_app. now right. }
  destruct (included pol k v) eqn:Inc; cbn [app].
  - cbn [Print.ev_fields]. rewrite (Hlook k ft (or_introl eq_refl)).
    rewrite (HRTv ft false Hv Hwv).
    + rewrite IH'. reflexivity.
    + apply (Hpr k v). cbn [kept]. rewrite Inc. now left.
  - exact IH'.
Qed.

(* the evaluated struct: every declared field gets its printed value, or the zero value when it was omitted *)
Lemma assemble_kept pol :
  forall fs fts,
    NoDup (map fst fts) ->
    fields_have_ty env fs fts = true ->
    (* omitted fields are zero *)
    (forall v k, In (k, v) (combine (map fst fts) fs) -> included pol k v = false -> is_zero v = true) ->
    map (fun kt => match assoc (fst kt) (kept pol fs fts) with Some v => v | None => zero env zfuel (snd kt) end) fts = fs.
Proof.
  intros fs. induction fs as [|v fs IH]; intros [|[k ft] fts] Hnd Hty Hom; cbn in Hty; try discriminate; [reflexivity|].
  apply andb_prop in Hty as [Hv Hty]. inversion Hnd as [|? ? Hnotin Hnd']; subst.
  cbn [map fst snd kept].
  assert (Htail : map (fun kt => match assoc (fst kt) ((if included pol k v then [(k, v)] else []) ++ kept pol fs fts) with
                                 | Some v0 => v0 | None => zero env zfuel (snd kt) end) fts = fs).
  { transitivity (map (fun kt => match assoc (fst kt) (kept pol fs fts) with
                                   | Some v0 => v0 | None => zero env zfuel (snd kt) end) fts).
    - apply map_ext_in. intros [k' ft'] Hin. cbn [fst snd].
      destruct (included pol k v); cbn [app assoc]; [|reflexivity].
      destruct (String.eqb k' k) eqn:Ek; [|reflexivity].
      apply String.eqb_eq in Ek. subst k'. exfalso. apply Hnotin. change k with (fst (k, ft')). now apply in_map.
    - apply IH; try assumption.
      intros v' k' Hin Hinc. apply (Hom v' k'); [|assumption]. cbn [map fst combine]. now right. }
  rewrite Htail. f_equal.
  destruct (included pol k v) eqn:Inc; cbn [app assoc].
  - now rewrite String.eqb_refl.
  - rewrite assoc_kept_notin by assumption.
    symmetry. apply zero_unique; [assumption|]. apply (Hom v k); [|assumption]. cbn [map fst combine]. now left.
Qed.

Lemma policy_cover_kept_printable ks :
  forall fs fts, policy_cover (Some ks) fs fts = true ->
                 forall k v, In (k, v) (kept (Some ks) fs fts) -> printable v = true.
Proof.
  induction fs as [|v fs IH]; intros [|[k ft] fts] Hc k' v' Hin; cbn [kept] in Hin; try contradiction.
  cbn [policy_cover] in Hc. apply andb_prop in Hc as [Hc1 Hc2].
  apply in_app_or in Hin as [Hin|Hin].
  - cbn [included] in Hin. destruct (mem_s k ks); [|contradiction]. destruct Hin as [E|[]]. inversion E; subst. exact Hc1.
  - now apply (IH fts Hc2 k' v').
Qed.

Lemma policy_cover_omitted_zero ks :
  forall fs fts, policy_cover (Some ks) fs fts = true ->
                 forall v k, In (k, v) (combine (map fst fts) fs) -> included (Some ks) k v = false -> is_zero v = true.
Proof.
  induction fs as [|v fs IH]; intros [|[k ft] fts] Hc v' k' Hin Hinc; cbn in Hin; try contradiction.
  cbn [policy_cover] in Hc. apply andb_prop in Hc as [Hc1 Hc2].
  destruct Hin as [E|Hin].
  - inversion E; subst. cbn [included] in Hinc. now rewrite Hinc in Hc1.
  - now apply (IH fts Hc2 v' k').
Qed.

Lemma generic_kept_printable :
  forall fs fts k v, In (k, v) (kept None fs fts) -> printable v = true.
Proof.
  induction fs as [|v fs IH]; intros [|[k ft] fts] k' v' Hin; cbn [kept] in Hin; try contradiction.
  apply in_app_or in Hin as [Hin|Hin].
  - cbn [included] in Hin. destruct (is_zero v) eqn:Z; cbn in Hin; [contradiction|].
    destruct Hin as [E|[]]. inversion E; subst. now apply nonzero_printable.
  - now apply (IH fts k' v').
Qed.

Lemma generic_omitted_zero :
  forall (v : val) (k : string), included None k v = false -> is_zero v = true.
Proof. intros v k H. cbn [included] in H. now destruct (is_zero v). Qed.

Lemma rt_elems e :
  forall l, Forall RT l -> forallb (fun x => has_ty env x e) l = true ->
            forallb (fun x => negb (is_zero x) && wf x) l = true ->
            ev_elems e (pr_elems e l) = Some l.
Proof.
  induction l as [|v l IH]; intros HRT Hty Hwf; [reflexivity|].
  cbn in Hty, Hwf. apply andb_prop in Hty as [Hv Hty]. apply andb_prop in Hwf as [Hwv Hwf].
  apply andb_prop in Hwv as [Hnz Hwv]. apply negb_true_iff in Hnz.
  inversion HRT as [|? ? HRTv HRTl]; subst.
  cbn [Print.pr_elems]. rewrite Hnz. cbn [app Print.ev_elems].
  rewrite (HRTv e true Hv Hwv (nonzero_printable _ Hnz)). rewrite (IH HRTl Hty Hwf). reflexivity.
Qed.

Theorem print_eval_roundtrip_val : forall v, RT v.
Proof.
  induction v using val_ind'; intros t inside Hty Hwf Hpr; destruct t; try discriminate Hty; try discriminate Hpr.
  - reflexivity.
  - reflexivity.
  - (* FilterOp *)
    cbn [Print.pr]. cbn [wf] in Hwf. destruct (op_const_name n) as [nm|] eqn:E; [|discriminate].
    cbn [Print.ev]. now rewrite (ops_consistent _ _ E).
  - reflexivity.
  - reflexivity.
  - (* struct *)
    rewrite has_ty_struct in Hty. apply andb_prop in Hty as [Hn Hf]. apply String.eqb_eq in Hn. subst name0.
    rewrite pr_struct. cbn [wf] in Hwf.
    destruct (assoc name env) as [fts|] eqn:E; [|discriminate].
    apply andb_prop in Hwf as [Hwf Hwfs]. apply andb_prop in Hwf as [Hcv Hcover].
    rewrite Hcv. rewrite ev_struct. rewrite E.
    assert (Htag : tag_ok (if inside then None else Some (String.append "ir." name)) (String.append "ir." name) inside = true).
    { destruct inside; cbn [tag_ok]; [reflexivity|apply String.eqb_refl]. }
    rewrite Htag.
    pose proof (fields_nodup _ _ E) as Hnd.
    set (pol := fixed_fields name fs fts) in *.
    assert (Hkp : forall k v, In (k, v) (kept pol fs fts) -> printable v = true).
    { destruct pol as [ks|]; [now apply policy_cover_kept_printable|apply generic_kept_printable]. }
    rewrite (ev_fields_kept pol fts fs fts H Hf Hwfs).
    + rewrite (kept_nodup pol fs fts Hnd). unfold assemble. f_equal. f_equal.
      apply assemble_kept; try assumption.
      destruct pol as [ks|]; [now apply policy_cover_omitted_zero|intros v k _; apply generic_omitted_zero].
    + intros k ft Hin. now apply assoc_in_nodup.
    + exact Hkp.
  - (* slice *)
    rewrite pr_slice, ev_slice. cbn [tag_ok]. rewrite String.eqb_refl.
    cbn [has_ty] in Hty. cbn [wf] in Hwf.
    rewrite (rt_elems t l H Hty Hwf). reflexivity.
Qed.

(* printReflectElem as a whole: a zero value writes nothing and its absence evaluates to it; anything else round-trips *)
Corollary print_eval_roundtrip_elem v t inside :
  has_ty env v t = true -> wf v = true ->
  match pr_elem env op_names compact_ops pattern_fields compact_fields t inside v with
  | None => v = zero env zfuel t
  | Some l => ev t inside l = Some v
  end.
Proof.
  intros Hty Hwf. unfold pr_elem. destruct (is_zero v) eqn:Z.
  - now apply zero_unique.
  - apply print_eval_roundtrip_val; try assumption. now apply nonzero_printable.
Qed.

End RoundTrip.
