(* C05: Go's interpreted string literals (dq ...dq ), as the compiler decodes them, and the class of quoters they invert.
   irprint writes every string with %q / %#v (strconv.Quote); the literal trees of the model carry DECODED strings, so the
   decoding is part of the model: unquote_go is the Go specification's reading of an interpreted string literal
   (simple escapes, \ooo, \xHH, \uXXXX, \UXXXXXXXX with UTF-8 encoding of the code point, every other byte as it is),
   unquote_pieces shows that it inverts EVERY quoter that writes a string piece by piece in one of these forms
   (whichever form it chooses for which piece -- strconv.Quote's choice depends on unicode.IsPrint tables), and the check
   runs unquote_go on every distinct token of the real output. *)
From Coq Require Import List ZArith Lia Bool.
From RG.Base Require Import Outcome GoSlice.
Import ListNotations.
Local Open Scope Z_scope.

Definition hexval (c : Z) : option Z :=
  if (48 <=? c) && (c <=? 57) then Some (c - 48)
  else if (97 <=? c) && (c <=? 102) then Some (c - 87)
  else if (65 <=? c) && (c <=? 70) then Some (c - 55)
  else None.

Definition octval (c : Z) : option Z := if (48 <=? c) && (c <=? 55) then Some (c - 48) else None.

(* exactly n hex digits: value and the rest *)
Fixpoint hexnum (n : nat) (acc : Z) (s : bytes) : option (Z * bytes) :=
  match n with
  | O => Some (acc, s)
  | S n' => match s with
            | c :: r => match hexval c with Some v => hexnum n' (acc * 16 + v) r | None => None end
            | [] => None
            end
  end.

Definition valid_runeb (r : Z) : bool := (0 <=? r) && (r <=? 1114111) && negb ((55296 <=? r) && (r <=? 57343)).

Definition encode_rune (r : Z) : bytes :=
  if r <? 128 then [r]
  else if r <? 2048 then [192 + r / 64; 128 + r mod 64]
  else if r <? 65536 then [224 + r / 4096; 128 + (r / 64) mod 64; 128 + r mod 64]
  else [240 + r / 262144; 128 + (r / 4096) mod 64; 128 + (r / 64) mod 64; 128 + r mod 64].

Definition simple_escape (e : Z) : option Z :=
  if e =? 97 then Some 7 else if e =? 98 then Some 8 else if e =? 102 then Some 12 else if e =? 110 then Some 10
  else if e =? 114 then Some 13 else if e =? 116 then Some 9 else if e =? 118 then Some 11
  else if e =? 92 then Some 92 else if e =? 34 then Some 34 else None.

(* one escape after the backslash: decoded bytes and the rest *)
Definition escape (s : bytes) : option (bytes * bytes) :=
  match s with
  | [] => None
  | e :: r =>
      match simple_escape e with
      | Some c => Some ([c], r)
      | None =>
          if e =? 120 then match hexnum 2 0 r with Some (v, r') => Some ([v], r') | None => None end
          else if e =? 117 then match hexnum 4 0 r with Some (v, r') => if valid_runeb v then Some (encode_rune v, r') else None | None => None end
          else if e =? 85 then match hexnum 8 0 r with Some (v, r') => if valid_runeb v then Some (encode_rune v, r') else None | None => None end
          else match octval e, r with
               | Some a, b :: c :: r' =>
                   match octval b, octval c with
                   | Some b', Some c' => let v := a * 64 + b' * 8 + c' in if v <=? 255 then Some ([v], r') else None
                   | _, _ => None
                   end
               | _, _ => None
               end
      end
  end.

(* the body of the literal up to the closing quote, which must be the last byte *)
Fixpoint unq (fuel : nat) (s : bytes) : option bytes :=
  match fuel with
  | O => None
  | S f =>
      match s with
      | [] => None
      | c :: r =>
          if c =? 34 then match r with [] => Some [] | _ => None end
          else if c =? 10 then None
          else if c =? 92 then match escape r with
                               | Some (d, r') => option_map (app d) (unq f r')
                               | None => None
                               end
          else option_map (cons c) (unq f r)
      end
  end.

Definition unquote_go (tok : bytes) : option bytes :=
  match tok with
  | 34 :: r => unq (S (length r)) r
  | _ => None
  end.

(* ---- the class of quoters *)
Definition hexdigit (v : Z) : Z := if v <? 10 then 48 + v else 87 + v.
Definition hex2 (v : Z) : bytes := [hexdigit (v / 16); hexdigit (v mod 16)].
Definition hex4 (v : Z) : bytes := [hexdigit (v / 4096); hexdigit ((v / 256) mod 16); hexdigit ((v / 16) mod 16); hexdigit (v mod 16)].
Definition hex8 (v : Z) : bytes :=
  [hexdigit (v / 268435456); hexdigit ((v / 16777216) mod 16); hexdigit ((v / 1048576) mod 16); hexdigit ((v / 65536) mod 16)] ++ hex4 (v mod 65536).

(* piece d e: the bytes d of the string are written as e *)
Inductive piece : bytes -> bytes -> Prop :=
| P_raw c : c <> 34 -> c <> 92 -> c <> 10 -> piece [c] [c]                       (* as it is: ASCII or a byte of a UTF-8 sequence *)
| P_simple c e : simple_escape e = Some c -> piece [c] [92; e]                  (* \n \t \\ \dq  ... *)
| P_hex b : 0 <= b < 256 -> piece [b] (92 :: 120 :: hex2 b)                     (* \xHH: bytes that are not valid UTF-8 *)
| P_u r : valid_runeb r = true -> r < 65536 -> piece (encode_rune r) (92 :: 117 :: hex4 r)      (* \uXXXX *)
| P_U r : valid_runeb r = true -> piece (encode_rune r) (92 :: 85 :: hex8 r).   (* \UXXXXXXXX *)

From Coq Require Import ZifyBool.

Lemma hexval_hexdigit v : 0 <= v < 16 -> hexval (hexdigit v) = Some v.
Proof.
  intros H. unfold hexval, hexdigit.
  destruct (v <? 10) eqn:E.
  - replace ((48 <=? 48 + v) && (48 + v <=? 57)) with true by lia. f_equal. lia.
  - replace ((48 <=? 87 + v) && (87 + v <=? 57)) with false by lia.
    replace ((97 <=? 87 + v) && (87 + v <=? 102)) with true by lia. f_equal. lia.
Qed.

Ltac dlia := Z.to_euclidean_division_equations; lia.

Lemma hexnum2 b r : 0 <= b < 256 -> hexnum 2 0 (hex2 b ++ r) = Some (b, r).
Proof.
  intros H. unfold hex2. cbn [app hexnum].
  rewrite !hexval_hexdigit by dlia. f_equal. f_equal. dlia.
Qed.

Lemma hexnum4 v r : 0 <= v < 65536 -> hexnum 4 0 (hex4 v ++ r) = Some (v, r).
Proof.
  intros H. unfold hex4. cbn [app hexnum].
  rewrite !hexval_hexdigit by dlia. f_equal. f_equal. dlia.
Qed.

Lemma hexnum8 v r : 0 <= v < 4294967296 -> hexnum 8 0 (hex8 v ++ r) = Some (v, r).
Proof.
  intros H. unfold hex8, hex4. cbn [app hexnum].
  rewrite !hexval_hexdigit by dlia. f_equal. f_equal. dlia.
Qed.

Lemma valid_rune_range r : valid_runeb r = true -> 0 <= r <= 1114111.
Proof. unfold valid_runeb. lia. Qed.

Lemma simple_escape_not_hex e c : simple_escape e = Some c -> True.
Proof. trivial. Qed.

(* one piece is decoded and the rest is decoded with one unit of fuel less *)
Lemma unq_piece d e : piece d e -> forall f rest, unq (S f) (e ++ rest) = option_map (app d) (unq f rest).
Proof.
  intros Hp f rest. destruct Hp as [c H1 H2 H3|c e He|b Hb|r Hr Hlt|r Hr].
  - cbn [app unq]. replace (c =? 34) with false by lia. replace (c =? 10) with false by lia. replace (c =? 92) with false by lia.
    destruct (unq f rest); reflexivity.
  - cbn [app unq Z.eqb Pos.eqb]. unfold escape. rewrite He. reflexivity.
  - change ((92 :: 120 :: hex2 b) ++ rest) with (92 :: 120 :: (hex2 b ++ rest)).
    cbn [unq Z.eqb Pos.eqb]. unfold escape. cbn [simple_escape Z.eqb Pos.eqb]. rewrite hexnum2 by assumption. reflexivity.
  - change ((92 :: 117 :: hex4 r) ++ rest) with (92 :: 117 :: (hex4 r ++ rest)).
    cbn [unq Z.eqb Pos.eqb]. unfold escape. cbn [simple_escape Z.eqb Pos.eqb].
    pose proof (valid_rune_range _ Hr). rewrite hexnum4 by lia. rewrite Hr. reflexivity.
  - change ((92 :: 85 :: hex8 r) ++ rest) with (92 :: 85 :: (hex8 r ++ rest)).
    cbn [unq Z.eqb Pos.eqb]. unfold escape. cbn [simple_escape Z.eqb Pos.eqb].
    pose proof (valid_rune_range _ Hr). rewrite hexnum8 by lia. rewrite Hr. reflexivity.
Qed.

Lemma unq_pieces ds es : Forall2 piece ds es ->
  forall f, (length es < f)%nat -> unq f (concat es ++ [34]) = Some (concat ds).
Proof.
  induction 1 as [|d e ds es Hp _ IH]; intros f Hf.
  - destruct f; [lia|]. reflexivity.
  - destruct f; [cbn in Hf; lia|]. cbn [concat]. rewrite <- app_assoc, (unq_piece d e Hp).
    rewrite IH by (cbn in Hf; lia). reflexivity.
Qed.

Lemma piece_nonempty d e : piece d e -> (1 <= length e)%nat.
Proof. destruct 1; cbn; lia. Qed.

Lemma pieces_length ds es : Forall2 piece ds es -> (length es <= length (concat es))%nat.
Proof.
  induction 1 as [|d e ds es Hp _ IH]; [cbn; lia|]. cbn [concat length]. rewrite app_length.
  pose proof (piece_nonempty _ _ Hp). lia.
Qed.

(* The compiler's reading of dq <pieces>dq  is the string, for EVERY way of choosing a form for every piece. *)
Theorem unquote_pieces ds es :
  Forall2 piece ds es -> unquote_go (34 :: concat es ++ [34]) = Some (concat ds).
Proof.
  intros H. unfold unquote_go. apply unq_pieces; [exact H|].
  pose proof (pieces_length _ _ H). rewrite app_length. cbn. lia.
Qed.

(* a conservative quoter of the class: printable ASCII as it is, the rest as \xHH; it writes every byte string *)
Definition quote_byte (c : Z) : bytes :=
  if (c =? 34) || (c =? 92) then [92; c]
  else if (32 <=? c) && (c <=? 126) then [c] else 92 :: 120 :: hex2 c.

Lemma quote_byte_piece c : 0 <= c < 256 -> piece [c] (quote_byte c).
Proof.
  intros H. unfold quote_byte.
  destruct ((c =? 34) || (c =? 92)) eqn:E.
  - apply P_simple. unfold simple_escape.
    destruct (c =? 34) eqn:E1; [replace c with 34 by lia; reflexivity|].
    replace c with 92 by lia. reflexivity.
  - destruct ((32 <=? c) && (c <=? 126)) eqn:E2.
    + apply P_raw; lia.
    + now apply P_hex.
Qed.

Theorem every_string_can_be_written s :
  Forall (fun c => 0 <= c < 256) s ->
  unquote_go (34 :: concat (map quote_byte s) ++ [34]) = Some s.
Proof.
  intros H. assert (E : concat (map (fun c : Z => [c]) s) = s) by (clear H; induction s as [|c s IH]; cbn; [reflexivity|now rewrite IH]).
  rewrite <- E at 2. apply unquote_pieces. clear E. induction H as [|c s Hc _ IH]; cbn [map]; constructor.
  - now apply quote_byte_piece.
  - exact IH.
Qed.

(* dq a\dq \n\xffé\U0001f600édq  *)
Example unquote_ex :
  unquote_go [34; 97; 92;34; 92;110; 92;120;102;102; 92;117;48;48;101;57; 92;85;48;48;48;49;102;54;48;48; 195;169; 34]
  = Some [97; 34; 10; 255; 195;169; 240;159;152;128; 195;169]
  /\ unquote_go [34; 97] = None /\ unquote_go [34; 92; 39; 34] = None /\ unquote_go [34; 92;117;100;56;48;48; 34] = None
  /\ unquote_go [34; 92;52;48;48; 34] = None /\ unquote_go [34; 92;49;48;49; 34] = Some [65] /\ unquote_go [34; 34; 34] = None.
Proof. repeat split; vm_compute; reflexivity. Qed.
