(* C05: irprint's reflective printer (printReflectElemNoNewline) at the level of the literal tree it writes,
   and Go's evaluation of such composite literals. Both are generic over the type environment, the FilterOp
   name tables and the set of "compact" FilterExpr ops -- all regenerated from /repo by go2coq. *)
From Coq Require Import List ZArith Bool String Lia.
From RG.Base Require Import Outcome GoSlice.
From RG.IR Require Import Val.
Import ListNotations.
Local Open Scope Z_scope.

Section Printer.
Variable env : tenv.
Variable op_names : list (N * string).     (* filterOpNames: op -> "And" *)
Variable op_consts : list (string * N).    (* constants: "FilterAndOp" -> 2 *)
Variable compact_ops : list N.             (* FilterExpr ops printed by the one-line special case *)
Variable pattern_fields : list string.     (* fields the PatternString special case writes *)
Variable compact_fields : list string.     (* fields the FilterExpr special case writes *)

Fixpoint nassoc {A} (k : N) (l : list (N * A)) : option A :=
  match l with
  | [] => None
  | (k', v) :: r => if N.eqb k k' then Some v else nassoc k r
  end.

Definition op_const_name (n : N) : option string :=
  match nassoc n op_names with Some nm => Some (String.append "Filter"%string (String.append nm "Op"%string)) | None => None end.

Fixpoint mem_s (k : string) (l : list string) : bool :=
  match l with [] => false | x :: r => String.eqb k x || mem_s k r end.
Definition mem_n (k : N) (l : list N) : bool := existsb (N.eqb k) l.

(* field k of a struct value, by position in the declared field list *)
Fixpoint getf (fs : list val) (fts : list (string * ty)) (k : string) : option val :=
  match fs, fts with
  | v :: fs', (k', _) :: fts' => if String.eqb k k' then Some v else getf fs' fts' k
  | _, _ => None
  end.

(* Special cases of the printer that write a fixed set of fields (zero or not) and nothing else:
   PatternString {Line, Value}; FilterExpr with a compact op {Line, Op, Src, Value}. None = generic struct. *)
Definition fixed_fields (name : string) (fs : list val) (fts : list (string * ty)) : option (list string) :=
  if String.eqb name "PatternString"%string then Some pattern_fields
  else if String.eqb name "FilterExpr"%string then
    match getf fs fts "Op"%string with
    | Some (VOp n) => if mem_n n compact_ops then Some compact_fields else None
    | _ => None
    end
  else None.

(* the compact FilterExpr case does v.Value.(string): anything else panics *)
Definition compact_value_ok (name : string) (fs : list val) (fts : list (string * ty)) : bool :=
  match fixed_fields name fs fts with
  | Some _ => if String.eqb name "FilterExpr"%string then
                match getf fs fts "Value"%string with Some (VIStr _) => true | _ => false end
              else true
  | None => true
  end.

Definition included (pol : option (list string)) (k : string) (v : val) : bool :=
  match pol with Some ks => mem_s k ks | None => negb (is_zero v) end.

(* what is written for a non-zero value v of static type t; `inside` = element of a slice literal (type elided) *)
Fixpoint pr (t : ty) (inside : bool) (v : val) {struct v} : lit :=
  match v with
  | VInt z => LInt z
  | VStr s => LStr s
  | VOp n => match op_const_name n with Some nm => LOpName nm | None => LBad end
  | VNil => LBad
  | VIStr s => LStr s
  | VI64 z => LConv64 z
  | VStruct name fs =>
      match assoc name env with
      | None => LBad
      | Some fts =>
          if compact_value_ok name fs fts then
            let pol := fixed_fields name fs fts in
            LComp (if inside then None else Some (String.append "ir."%string name))
                  ((fix go (fs : list val) (fts : list (string * ty)) : list (option string * lit) :=
                      match fs, fts with
                      | v :: fs', (k, ft) :: fts' =>
                          (if included pol k v then [(Some k, pr ft false v)] else []) ++ go fs' fts'
                      | _, _ => []
                      end) fs fts)
          else LBad
      end
  | VSlice None => LBad
  | VSlice (Some l) =>
      match t with
      | TSlice e =>
          LComp (Some (ty_name t))
                ((fix go (l : list val) : list (option string * lit) :=
                    match l with
                    | [] => []
                    | v :: l' => (if is_zero v then [] else [(None, pr e true v)]) ++ go l'
                    end) l)
      | _ => LBad
      end
  end.

Fixpoint pr_fields (pol : option (list string)) (fs : list val) (fts : list (string * ty)) : list (option string * lit) :=
  match fs, fts with
  | v :: fs', (k, ft) :: fts' => (if included pol k v then [(Some k, pr ft false v)] else []) ++ pr_fields pol fs' fts'
  | _, _ => []
  end.

Fixpoint pr_elems (e : ty) (l : list val) : list (option string * lit) :=
  match l with
  | [] => []
  | v :: l' => (if is_zero v then [] else [(None, pr e true v)]) ++ pr_elems e l'
  end.

Lemma pr_struct t inside name fs :
  pr t inside (VStruct name fs) =
  match assoc name env with
  | None => LBad
  | Some fts => if compact_value_ok name fs fts
                then LComp (if inside then None else Some (String.append "ir."%string name)) (pr_fields (fixed_fields name fs fts) fs fts)
                else LBad
  end.
Proof.
  cbn [pr]. destruct (assoc name env) as [fts|]; [|reflexivity].
  destruct (compact_value_ok name fs fts); [|reflexivity]. f_equal.
  generalize (fixed_fields name fs fts) as pol. intros pol.
  revert fts; induction fs as [|v fs IH]; intros [|[k ft] fts]; cbn [pr_fields]; try reflexivity.
  now rewrite IH.
Qed.

Lemma pr_slice e inside l :
  pr (TSlice e) inside (VSlice (Some l)) = LComp (Some (ty_name (TSlice e))) (pr_elems e l).
Proof.
  cbn [pr]. f_equal. induction l as [|v l IH]; cbn [pr_elems]; [reflexivity|]. now rewrite IH.
Qed.

(* printReflectElem: nothing at all is written for a zero value *)
Definition pr_elem (t : ty) (inside : bool) (v : val) : option lit :=
  if is_zero v then None else Some (pr t inside v).

(* ------------------------------------------------------------------ Go's evaluation of the literal *)
Definition tag_ok (tyo : option string) (want : string) (elide_ok : bool) : bool :=
  match tyo with
  | Some s => String.eqb s want
  | None => elide_ok
  end.

Fixpoint keys_nodup (kvs : list (string * val)) : bool :=
  match kvs with
  | [] => true
  | (k, _) :: r => match assoc k r with Some _ => false | None => keys_nodup r end
  end.

Variable zfuel : nat.

(* None: the literal does not compile at type t (unknown / duplicate field, wrong element form, bad tag ...) *)
Fixpoint ev (t : ty) (elide_ok : bool) (l : lit) {struct l} : option val :=
  match l with
  | LInt z => match t with TInt => Some (VInt z) | _ => None end
  | LStr s => match t with TString => Some (VStr s) | TIface => Some (VIStr s) | _ => None end
  | LConv64 z => match t with TIface => Some (VI64 z) | _ => None end
  | LOpName nm => match t with TOp => option_map VOp (assoc nm op_consts) | _ => None end
  | LBad => None
  | LComp tyo elts =>
      match t with
      | TNamed n =>
          match assoc n env with
          | None => None
          | Some fts =>
              if tag_ok tyo (String.append "ir."%string n) elide_ok then
                match (fix go (elts : list (option string * lit)) : option (list (string * val)) :=
                         match elts with
                         | [] => Some []
                         | (Some k, l') :: rest =>
                             match assoc k fts with
                             | Some ft => match ev ft false l' with
                                          | Some v => option_map (cons (k, v)) (go rest)
                                          | None => None
                                          end
                             | None => None
                             end
                         | (None, _) :: _ => None
                         end) elts with
                | Some kvs =>
                    if keys_nodup kvs
                    then Some (VStruct n (map (fun kt => match assoc (fst kt) kvs with Some v => v | None => zero env zfuel (snd kt) end) fts))
                    else None
                | None => None
                end
              else None
          end
      | TSlice e =>
          if tag_ok tyo (ty_name t) false then
            option_map (fun vs => VSlice (Some vs))
              ((fix go (elts : list (option string * lit)) : option (list val) :=
                  match elts with
                  | [] => Some []
                  | (None, l') :: rest =>
                      match ev e true l' with
                      | Some v => option_map (cons v) (go rest)
                      | None => None
                      end
                  | (Some _, _) :: _ => None
                  end) elts)
          else None
      | _ => None
      end
  end.

Fixpoint ev_fields (fts : list (string * ty)) (elts : list (option string * lit)) : option (list (string * val)) :=
  match elts with
  | [] => Some []
  | (Some k, l') :: rest =>
      match assoc k fts with
      | Some ft => match ev ft false l' with
                   | Some v => option_map (cons (k, v)) (ev_fields fts rest)
                   | None => None
                   end
      | None => None
      end
  | (None, _) :: _ => None
  end.

Fixpoint ev_elems (e : ty) (elts : list (option string * lit)) : option (list val) :=
  match elts with
  | [] => Some []
  | (None, l') :: rest =>
      match ev e true l' with
      | Some v => option_map (cons v) (ev_elems e rest)
      | None => None
      end
  | (Some _, _) :: _ => None
  end.

Definition assemble (n : string) (fts : list (string * ty)) (kvs : list (string * val)) : val :=
  VStruct n (map (fun kt => match assoc (fst kt) kvs with Some v => v | None => zero env zfuel (snd kt) end) fts).

Lemma ev_struct n elide tyo elts :
  ev (TNamed n) elide (LComp tyo elts) =
  match assoc n env with
  | None => None
  | Some fts =>
      if tag_ok tyo (String.append "ir."%string n) elide then
        match ev_fields fts elts with
        | Some kvs => if keys_nodup kvs then Some (assemble n fts kvs) else None
        | None => None
        end
      else None
  end.
Proof.
  cbn [ev]. destruct (assoc n env) as [fts|]; [|reflexivity].
  destruct (tag_ok tyo (String.append "ir."%string n) elide); [|reflexivity].
  assert (E : forall elts,
             (fix go (elts : list (option string * lit)) : option (list (string * val)) :=
                match elts with
                | [] => Some []
                | (Some k, l') :: rest =>
                    match assoc k fts with
                    | Some ft => match ev ft false l' with
                                 | Some v => option_map (cons (k, v)) (go rest)
                                 | None => None
                                 end
                    | None => None
                    end
                | (None, _) :: _ => None
                end) elts = ev_fields fts elts).
  { induction elts0 as [|[[k|] l'] rest IH]; cbn [ev_fields]; try reflexivity.
    destruct (assoc k fts); [|reflexivity]. destruct (ev t false l'); [|reflexivity]. now rewrite IH. }
  rewrite E. reflexivity.
Qed.

Lemma ev_slice e elide tyo elts :
  ev (TSlice e) elide (LComp tyo elts) =
  if tag_ok tyo (ty_name (TSlice e)) false then option_map (fun vs => VSlice (Some vs)) (ev_elems e elts) else None.
Proof.
  cbn [ev]. destruct (tag_ok tyo (ty_name (TSlice e)) false); [|reflexivity]. f_equal.
  induction elts as [|[[k|] l'] rest IH]; cbn [ev_elems]; try reflexivity.
  destruct (ev e true l'); [|reflexivity]. now rewrite IH.
Qed.

End Printer.
