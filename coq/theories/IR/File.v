(* C05: helpers for the hand-written top of the printer (printFile), whose shape go2coq regenerates as a
   Gallina term over these accessors, and the model of the two load paths. *)
From Coq Require Import List ZArith Bool String Lia.
From RG.Base Require Import Outcome GoSlice.
From RG.IR Require Import Val Print.
Import ListNotations.
Local Open Scope Z_scope.

Section Accessors.
Variable env : tenv.

(* field k of a struct value (nil interface when there is no such field) *)
Definition fld (v : val) (k : string) : val :=
  match v with
  | VStruct n fs => match assoc n env with
                    | Some fts => match getf fs fts k with Some x => x | None => VNil end
                    | None => VNil
                    end
  | _ => VNil
  end.
End Accessors.

Definition str_of (v : val) : bytes := match v with VStr s => s | VIStr s => s | _ => [] end.
Definition int_of (v : val) : Z := match v with VInt z => z | VI64 z => z | _ => 0 end.
Definition elems_of (v : val) : list val := match v with VSlice (Some l) => l | _ => [] end.

(* an element that printReflectElem may or may not write *)
Definition opt_keyed (k : string) (o : option lit) : list (option string * lit) :=
  match o with Some l => [(Some k, l)] | None => [] end.

(* A nil slice printed by an explicit loop comes back as an empty, non-nil slice: the only difference the
   round trip may introduce. *)
Definition nil_to_empty (v : val) : val := match v with VSlice None => VSlice (Some []) | _ => v end.

(* ------------------------------------------------------------------ Load vs LoadFromIR *)
(* Both entry points build an importer and an irLoaderConfig, call LoadFile and merge the result into the engine;
   Load first converts the source to IR. The model keeps exactly what go2coq's loaddiff compares. *)
Section LoadPaths.
Variables (src irfile pkginfo cfg ruleset err : Type).
Variable convert : src -> irfile * pkginfo + err.                 (* convertAST *)
Variable load_file : option pkginfo -> irfile -> ruleset + err.   (* newIRLoader(config).LoadFile; config.pkg is the only
                                                                     field that differs between the two paths *)
Definition load (s : src) : ruleset + err :=
  match convert s with
  | inl (f, p) => load_file (Some p) f
  | inr e => inr e
  end.
Definition load_from_ir (f : irfile) : ruleset + err := load_file None f.

(* Assumption about go/types + the importers, validated only empirically: resolving a type name through the
   rules package's direct imports (config.pkg) or through the importer denotes the same type. *)
Hypothesis pkg_irrelevant : forall p f, load_file (Some p) f = load_file None f.

Theorem load_paths_agree s f p : convert s = inl (f, p) -> load s = load_from_ir f.
Proof. intros H. unfold load, load_from_ir. rewrite H. apply pkg_irrelevant. Qed.
End LoadPaths.

(* ------------------------------------------------------------------ the whole chain of the property *)
(* source --convert--> IR --print--> Go literal --compile--> IR' --LoadFromIR--> engine   versus   source --Load--> engine *)
Section Chain.
Variables (src irfile pkginfo ruleset err : Type).
Variable convert : src -> irfile * pkginfo + err.
Variable load_file : option pkginfo -> irfile -> ruleset + err.
Variable wf_ir : irfile -> Prop.
Variable print_eval : irfile -> option irfile.     (* evaluate the printed literal *)
Variable norm : irfile -> irfile.                  (* nil CustomDecls / BundleImports become empty *)

Hypothesis roundtrip : forall f, wf_ir f -> print_eval f = Some (norm f).
(* the loader only ranges over / takes the length of the two normalised slices (checked on the regenerated use list) *)
Hypothesis norm_irrelevant : forall pk f, load_file pk (norm f) = load_file pk f.
Hypothesis pkg_irrelevant : forall p f, load_file (Some p) f = load_file None f.

Theorem precompiled_equals_source s f p :
  convert s = inl (f, p) -> wf_ir f ->
  exists f', print_eval f = Some f' /\
             load src irfile pkginfo ruleset err convert load_file s = load_from_ir irfile pkginfo ruleset err load_file f'.
Proof.
  intros Hc Hw. exists (norm f). split; [now apply roundtrip|].
  unfold load, load_from_ir. rewrite Hc. rewrite norm_irrelevant. apply pkg_irrelevant.
Qed.
End Chain.
