(* C05: helpers for the hand-written top of the printer (printFile), whose shape go2coq regenerates as a
   Gallina term over these accessors, and the model of the two load paths. *)
From Coq Require Import List ZArith Bool String Lia.
From RG.Base Require Import Outcome GoSlice.
From RG.IR Require Import Val Print.
Import ListNotations.
Local Open Scope Z_scope.

Section Accessors.
Variable env : tenv.

(* field k of a struct value (nil interface when there is no such field) *)
Definition fld (v : val) (k : string) : val :=
  match v with
  | VStruct n fs => match assoc n env with
                    | Some fts => match getf fs fts k with Some x => x | None => VNil end
                    | None => VNil
                    end
  | _ => VNil
  end.
End Accessors.

Definition str_of (v : val) : bytes := match v with VStr s => s | VIStr s => s | _ => [] end.
Definition int_of (v : val) : Z := match v with VInt z => z | VI64 z => z | _ => 0 end.
Definition elems_of (v : val) : list val := match v with VSlice (Some l) => l | _ => [] end.

(* an element that printReflectElem may or may not write *)
Definition opt_keyed (k : string) (o : option lit) : list (option string * lit) :=
  match o with Some l => [(Some k, l)] | None => [] end.

(* A nil slice printed by an explicit loop comes back as an empty, non-nil slice: the only difference the
   round trip may introduce. *)
Definition nil_to_empty (v : val) : val := match v with VSlice None => VSlice (Some []) | _ => v end.

(* ------------------------------------------------------------------ Load vs LoadFromIR *)
(* Both entry points build an importer and an irLoaderConfig, call LoadFile and merge the result into the engine;
   Load first converts the source to IR. The model keeps exactly what go2coq's loaddiff compares. *)
Section LoadPaths.
Variables (src irfile pkginfo cfg ruleset err : Type).
Variable convert : src -> irfile * pkginfo + err.                 (* convertAST *)
Variable load_file : option pkginfo -> irfile -> ruleset + err.   (* newIRLoader(config).LoadFile; config.pkg is the only
                                                                     field that differs between the two paths *)
Definition load (s : src) : ruleset + err :=
  match convert s with
  | inl (f, p) => load_file (Some p) f
  | inr e => inr e
  end.
Definition load_from_ir (f : irfile) : ruleset + err := load_file None f.

(* Assumption about go/types + the importers, validated only empirically: resolving a type name through the
   rules package's direct imports (config.pkg) or through the importer denotes the same type. *)
Hypothesis pkg_irrelevant : forall p f, load_file (Some p) f = load_file None f.

Theorem load_paths_agree s f p : convert s = inl (f, p) -> load s = load_from_ir f.
Proof. intros H. unfold load, load_from_ir. rewrite H. apply pkg_irrelevant. Qed.
End LoadPaths.

(* ------------------------------------------------------------------ the whole chain of the property *)
(* source --convert--> IR --print--> Go literal --compile--> IR' --LoadFromIR--> engine   versus   source --Load--> engine *)
Section Chain.
Variables (src irfile pkginfo ruleset err : Type).
Variable convert : src -> irfile * pkginfo + err.
Variable load_file : option pkginfo -> irfile -> ruleset + err.
Variable wf_ir : irfile -> Prop.
Variable print_eval : irfile -> option irfile.     (* evaluate the printed literal *)
Variable norm : irfile -> irfile.                  (* nil CustomDecls / BundleImports become empty *)

Hypothesis roundtrip : forall f, wf_ir f -> print_eval f = Some (norm f).
(* the loader only ranges over / takes the length of the two normalised slices (checked on the regenerated use list) *)
Hypothesis norm_irrelevant : forall pk f, load_file pk (norm f) = load_file pk f.
Hypothesis pkg_irrelevant : forall p f, load_file (Some p) f = load_file None f.

Theorem precompiled_equals_source s f p :
  convert s = inl (f, p) -> wf_ir f ->
  exists f', print_eval f = Some f' /\
             load src irfile pkginfo ruleset err convert load_file s = load_from_ir irfile pkginfo ruleset err load_file f'.
Proof.
  intros Hc Hw. exists (norm f). split; [now apply roundtrip|].
  unfold load, load_from_ir. rewrite Hc. rewrite norm_irrelevant. apply pkg_irrelevant.
Qed.
End Chain.

(* ------------------------------------------------------------------ load histories *)
(* An engine receives several rules files, each either from source (Load) or from a precompiled IR value that lives in a
   package-level variable and is handed to every LoadFromIR of that file (possibly many times, in many engines). The model
   keeps: the engine's rule set, the store of precompiled values (LoadFromIR gets a pointer, so the loader returns what the
   value holds afterwards), and how each entry point commits the freshly loaded rule set into the engine. *)
Section Histories.
Variables (src irfile pkginfo ruleset err : Type).
Variable convert : src -> irfile * pkginfo + err.                            (* convertAST *)
Variable load_file : option pkginfo -> irfile -> (ruleset + err) * irfile.   (* LoadFile through a pointer: result, and the IR value afterwards *)
Variable merge : list ruleset -> ruleset + err.                              (* mergeRuleSets *)
(* the tail of Load / LoadFromIR: how the new rule set joins the engine's (regenerated from engine.go per entry point) *)
Variables commit_src commit_ir : (list ruleset -> ruleset + err) -> option ruleset -> ruleset -> option ruleset + err.

Inductive lstep := FromSource (s : src) | FromIR (k : nat).

Record lstate := mkLState { l_eng : option ruleset; l_store : list irfile }.

Fixpoint store_upd (k : nat) (f : irfile) (l : list irfile) : list irfile :=
  match l, k with
  | [], _ => []
  | _ :: t, O => f :: t
  | h :: t, S k' => h :: store_upd k' f t
  end.

(* a failed load leaves the engine as it was and is reported to the caller *)
Definition settle (c : option ruleset -> ruleset -> option ruleset + err) (e : option ruleset) (r : ruleset + err)
  : option ruleset * option err :=
  match r with
  | inr x => (e, Some x)
  | inl rs => match c e rs with inl e' => (e', None) | inr x => (e, Some x) end
  end.

Definition lexec (st : lstate) (x : lstep) : lstate * option err :=
  match x with
  | FromSource s =>
      match convert s with
      | inr x => (st, Some x)
      | inl (f, p) => let (e', o) := settle (commit_src merge) (l_eng st) (fst (load_file (Some p) f)) in
                      (mkLState e' (l_store st), o)          (* the converted IR is dropped after the load *)
      end
  | FromIR k =>
      match nth_error (l_store st) k with
      | None => (st, None)
      | Some f => let (e', o) := settle (commit_ir merge) (l_eng st) (fst (load_file None f)) in
                  (mkLState e' (store_upd k (snd (load_file None f)) (l_store st)), o)
      end
  end.

Fixpoint lrun (st : lstate) (h : list lstep) : lstate * list (option err) :=
  match h with
  | [] => (st, [])
  | x :: h' => let (st1, o) := lexec st x in let (st2, os) := lrun st1 h' in (st2, o :: os)
  end.

(* --- what the check establishes about the real code *)
(* frame condition: LoadFile does not write through the pointer (regenerated: no write site reaches an ir value;
   observed: reflect.DeepEqual with a fresh evaluation of the literal after every LoadFromIR) *)
Hypothesis load_file_frame : forall pk f, snd (load_file pk f) = f.
Hypothesis pkg_irrelevant : forall p f, fst (load_file (Some p) f) = fst (load_file None f).
(* both entry points commit the new rule set in the same way (regenerated tails, equal as Gallina terms) *)
Hypothesis commit_agree : forall m e r, commit_src m e r = commit_ir m e r.

(* the k-th precompiled value was obtained from source (srcs k): printed and compiled, which the loader cannot tell
   from the converted IR (file round trip + nil/empty insensitivity) *)
Variable srcs : nat -> option src.
Definition compiled_from (f' : irfile) (s : src) : Prop :=
  exists f p, convert s = inl (f, p) /\ forall pk, fst (load_file pk f') = fst (load_file pk f).
Definition store_ok (l : list irfile) : Prop :=
  forall k f', nth_error l k = Some f' -> exists s, srcs k = Some s /\ compiled_from f' s.

Definition to_source (x : lstep) : lstep :=
  match x with
  | FromSource s => x
  | FromIR k => match srcs k with Some s => FromSource s | None => x end
  end.

Lemma store_upd_same k l f : nth_error l k = Some f -> store_upd k f l = l.
Proof.
  revert k; induction l as [|h t IH]; intros [|k] H; cbn in *; try discriminate; try reflexivity.
  - now inversion H.
  - now rewrite IH.
Qed.

Lemma settle_ext c1 c2 e x : (forall e r, c1 e r = c2 e r) -> settle c1 e x = settle c2 e x.
Proof. intros H. destruct x as [rs|y]; cbn; [rewrite H|]; reflexivity. Qed.

Lemma commit_paths_agree e x : settle (commit_src merge) e x = settle (commit_ir merge) e x.
Proof. apply settle_ext. intros. apply commit_agree. Qed.

(* no load changes a precompiled value *)
Lemma lexec_store st x : l_store (fst (lexec st x)) = l_store st.
Proof.
  destruct x as [s|k]; cbn [lexec].
  - destruct (convert s) as [[f p]|y]; [|reflexivity]. destruct (settle _ _ _); reflexivity.
  - destruct (nth_error (l_store st) k) as [f|] eqn:E; [|reflexivity].
    destruct (settle _ _ _). cbn. rewrite load_file_frame. now apply store_upd_same.
Qed.

Lemma lrun_store st h : l_store (fst (lrun st h)) = l_store st.
Proof.
  revert st; induction h as [|x h IH]; intros st; [reflexivity|]. cbn [lrun].
  destruct (lexec st x) as [st1 o] eqn:E1. specialize (IH st1). destruct (lrun st1 h) as [st2 os]. cbn in *.
  rewrite IH. change st1 with (fst (st1, o)). rewrite <- E1. apply lexec_store.
Qed.

(* one lstep from the precompiled value = the same lstep from the source it was compiled from *)
Lemma lexec_to_source st x :
  store_ok (l_store st) ->
  match x with FromIR k => nth_error (l_store st) k <> None | _ => True end ->
  lexec st (to_source x) = lexec st x.
Proof.
  intros Hs Hk. destruct x as [s|k]; [reflexivity|].
  cbn [to_source]. destruct (nth_error (l_store st) k) as [f'|] eqn:E; [|contradiction].
  destruct (Hs k f' E) as (s & Hsrc & f & p & Hc & Hl). rewrite Hsrc. cbn [lexec]. rewrite Hc, E.
  rewrite pkg_irrelevant, <- (Hl None), load_file_frame, (store_upd_same _ _ _ E), commit_paths_agree.
  reflexivity.
Qed.

(* THE history theorem: any interleaving of source loads and loads of shared precompiled values (any number of times each)
   leaves the engine, and tells the caller, exactly what the all-source history does; the precompiled values are untouched. *)
Theorem mixed_history_equals_source_history st h :
  store_ok (l_store st) ->
  (forall k, In (FromIR k) h -> nth_error (l_store st) k <> None) ->
  lrun st (map to_source h) = lrun st h.
Proof.
  revert st; induction h as [|x h IH]; intros st Hs Hk; [reflexivity|].
  cbn [map lrun]. rewrite lexec_to_source; [|assumption|].
  - destruct (lexec st x) as [st1 o] eqn:E1.
    assert (Hst : l_store st1 = l_store st) by (change st1 with (fst (st1, o)); rewrite <- E1; apply lexec_store).
    rewrite IH; [reflexivity| |].
    + now rewrite Hst.
    + intros k Hin. rewrite Hst. apply Hk. now right.
  - destruct x as [s|k]; [exact I|]. apply Hk. now left.
Qed.

Corollary history_leaves_precompiled_values st h : l_store (fst (lrun st h)) = l_store st.
Proof. apply lrun_store. Qed.

End Histories.
