(* C06 -- the validation core of rule loading: does a rule (its pattern alternatives, the variables its Where filter, its
   At() location and its Report/Suggest templates refer to, the names given to kind / object / node-type / Go-version
   predicates) load, and if it does, is it well bound.  Patterns, regexps and type strings are compiled by external components
   (gogrep, regexp, typematch): the model receives their verdict and the variables they bind.                                *)
From Coq Require Import List String Ascii Bool ZArith NArith Lia.
From RG.Load Require Import Place.
Import ListNotations.
Local Open Scope string_scope.

Definition mem (v : string) (l : list string) : bool := existsb (String.eqb v) l.

Lemma mem_In v l : mem v l = true <-> In v l.
Proof.
  unfold mem. rewrite existsb_exists. split.
  - intros (x & Hx & E). apply String.eqb_eq in E. now subst.
  - intros H. exists v. split; [assumption|apply String.eqb_refl].
Qed.

Fixpoint nodupb (l : list string) : bool := match l with [] => true | x :: r => negb (mem x r) && nodupb r end.

(* ---------------------------------------------------------------- templates: which variables does interpolation substitute *)
(* the longest variable name that is a prefix of [rest] (runner.go sorts the captures by name length; ir_loader.go:templateVars) *)
Fixpoint longest_prefix (vars : list string) (rest : string) (best : option string) : option string :=
  match vars with
  | [] => best
  | v :: vars' =>
      let better := match best with None => true | Some b => Nat.ltb (String.length b) (String.length v) end in
      if String.prefix v rest && negb (String.eqb v "") && better then longest_prefix vars' rest (Some v)
      else longest_prefix vars' rest best
  end.

Definition dollar : ascii := "$"%char.

Fixpoint tvars (s : string) (skip : nat) (vars : list string) : list string :=
  match s with
  | EmptyString => []
  | String c rest =>
      match skip with
      | S k => tvars rest k vars
      | O =>
          if Ascii.eqb c dollar then
            if String.prefix "$" rest then tvars rest 1 vars            (* $$ is the whole match *)
            else match longest_prefix vars rest None with
                 | Some v => v :: tvars rest (String.length v) vars
                 | None => tvars rest 0 vars
                 end
          else tvars rest 0 vars
      end
  end.

Definition template_vars (tmpl : string) (vars : list string) : list string := tvars tmpl 0 vars.

(* ---------------------------------------------------------------- ParseGoVersion *)
Definition is_digit (c : ascii) : bool := let n := nat_of_ascii c in Nat.leb 48 n && Nat.leb n 57.

Fixpoint digits_val (s : string) (acc : Z) : option Z :=
  match s with
  | EmptyString => Some acc
  | String c rest => if is_digit c then digits_val rest (acc * 10 + Z.of_nat (nat_of_ascii c - 48))%Z else None
  end.

(* strconv.Atoi on a 64-bit platform: optional sign, at least one digit, only digits, value in the int64 range *)
Definition atoi_ok (s : string) : bool :=
  let '(neg, body) := match s with
                      | String c rest => if Ascii.eqb c "-"%char then (true, rest) else if Ascii.eqb c "+"%char then (false, rest) else (false, s)
                      | EmptyString => (false, s)
                      end in
  match body with
  | EmptyString => false
  | _ => match digits_val body 0 with
         | Some v => if neg then Z.leb v 9223372036854775808 else Z.leb v 9223372036854775807
         | None => false
         end
  end.

Fixpoint split_dot (s : string) (cur : string) : list string :=       (* strings.Split(s, "."); cur is accumulated reversed *)
  match s with
  | EmptyString => [cur]
  | String c rest => if Ascii.eqb c "."%char then cur :: split_dot rest "" else split_dot rest (cur ++ String c "")
  end.

Definition version_ok (s : string) : bool :=
  match s with
  | EmptyString => true                                   (* "any version" *)
  | _ => match split_dot s "" with
         | [a; b] => atoi_ok a && atoi_ok b
         | _ => false
         end
  end.

(* ---------------------------------------------------------------- rules *)
Record alt := mkAlt { a_ok : bool; a_tag : N; a_vars : list string }.

(* operands of a comparison in a Where expression: a constant (literal, named constant, folded constant expression) or the
   line / type size / integer value / text of a pattern variable *)
Inductive operand := OLit | OLine | OSize | OValueInt | OText.

Definition is_lit (o : operand) : bool := match o with OLit => true | _ => false end.
Definition operand_eqb (a b : operand) : bool :=
  match a, b with OLit, OLit | OLine, OLine | OSize, OSize | OValueInt, OValueInt | OText, OText => true | _, _ => false end.

Inductive check := ChkNone | ChkKind (s : string) | ChkObject (s : string) | ChkTag (s : string) | ChkVersion (s : string)
                 | ChkBinary (eqop : bool) (l r : operand).       (* l op r; eqop: the operator is == or != *)

(* ---------------------------------------------------------------- newBinaryExprFilter: comparisons *)
(* A constant on the left of == / != is moved to the right: the function swaps the operands and calls itself again, as long as
   [guard (Args[0].IsBasicLit()) (Args[1].IsBasicLit())] holds.  [None]: the recursion did not stop within the fuel (in Go: the
   goroutine stack overflows, a fatal error no recover() catches).  Afterwards the left operand must be a variable property
   and the right one a constant or the same property of a variable. *)
Section Binary.
Variable guard : bool -> bool -> bool.

Fixpoint binary_norm (fuel : nat) (eqop : bool) (l r : operand) : option (operand * operand) :=
  match fuel with
  | O => None
  | S f => if guard (is_lit l) (is_lit r) && eqop then binary_norm f eqop r l else Some (l, r)
  end.

Definition binary_ok (eqop : bool) (l r : operand) : bool :=
  match binary_norm 2 eqop l r with
  | Some (l', r') => negb (is_lit l') && (is_lit r' || operand_eqb l' r')
  | None => false
  end.

(* what makes the recursion stop: a pair that is swapped is not swapped back *)
Definition guard_flips : Prop := forall a b, guard a b = true -> guard b a = false.

(* newBinaryExprFilter calls itself at most once: two levels always suffice, more fuel changes nothing *)
Theorem binary_norm_terminates : guard_flips ->
  forall fuel eqop l r, binary_norm (2 + fuel) eqop l r = binary_norm 2 eqop l r /\ binary_norm 2 eqop l r <> None.
Proof.
  intros Hf fuel eqop l r. cbn [plus binary_norm].
  destruct (guard (is_lit l) (is_lit r)) eqn:G; cbn [andb]; [|split; [reflexivity|discriminate]].
  destruct eqop; cbn [andb]; [|split; [reflexivity|discriminate]].
  rewrite (Hf _ _ G). cbn [andb]. split; [reflexivity|discriminate].
Qed.

(* after the normalisation a comparison that is accepted has a variable property on the left *)
Theorem binary_ok_shape eqop l r : binary_ok eqop l r = true ->
  exists l' r', binary_norm 2 eqop l r = Some (l', r') /\ is_lit l' = false /\ (is_lit r' = true \/ r' = l').
Proof.
  unfold binary_ok. destruct (binary_norm 2 eqop l r) as [[l' r']|]; [|discriminate].
  intros H. apply andb_true_iff in H. destruct H as [H1 H2]. exists l', r'. split; [reflexivity|]. split.
  - now apply negb_true_iff in H1.
  - apply orb_true_iff in H2. destruct H2 as [H2|H2]; [now left|right]. destruct l', r'; try discriminate; reflexivity.
Qed.
End Binary.

(* ---------------------------------------------------------------- the filter-op table (ir/filter_op.gen.go) *)
(* One entry per op: its DSL form as the op generator documents it (`m[$Value].Object.IsVariadicParam()`), the type of its
   $Value and its three flags.  newFilter / newBinaryExprFilter record the variable of an IR node iff the node's op has the
   HasVar flag; checkBoundVars only sees recorded variables.                                                                *)
Record opinfo := mkOp {
  op_name : string; op_num : nat; op_form : string; op_value_type : string;
  op_has_var : bool; op_is_binary : bool; op_is_lit : bool; op_handled : bool }.

Fixpoint contains (pat s : string) : bool :=
  String.prefix pat s || match s with EmptyString => false | String _ rest => contains pat rest end.

(* the op's DSL form takes a pattern variable *)
Definition mentions_var (o : opinfo) : bool := contains "m[$Value]" (op_form o).

Definition find_op (tab : list opinfo) (n : string) : option opinfo := find (fun o => String.eqb (op_name o) n) tab.

(* every op whose DSL form mentions m[var] has flagHasVar: no variable a Where clause refers to escapes checkBoundVars *)
Definition flags_complete (tab : list opinfo) : bool := forallb (fun o => implb (mentions_var o) (op_has_var o)) tab.
(* flagHasVar only where $Value is a variable name: newFilter's filter.Value.(string) cannot fail, nothing else is recorded *)
Definition flags_sound (tab : list opinfo) : bool :=
  forallb (fun o => implb (op_has_var o) (mentions_var o && String.eqb (op_value_type o) "string")) tab.
(* binary ops have exactly the two operands newBinaryExprFilter indexes; literal ops carry a string or an int64 (the only types
   its type switches and assertions expect); no op is two of binary / literal / variable *)
Definition flags_shape (tab : list opinfo) : bool :=
  forallb (fun o =>
    implb (op_is_binary o) (contains "$Args[0]" (op_form o) && contains "$Args[1]" (op_form o) && negb (contains "$Value" (op_form o))) &&
    implb (op_is_lit o) (String.eqb (op_value_type o) "string" || String.eqb (op_value_type o) "int64") &&
    negb (op_is_binary o && op_is_lit o) && negb (op_is_binary o && op_has_var o) && negb (op_is_lit o && op_has_var o)) tab.

(* a leaf of a Where expression: the IR nodes whose DSL form takes a variable, as (op, variable), the variables newFilter's
   case code records by hand (the argument of Type.IdenticalTo), and the name argument that is checked against a table *)
Record atom := mkAtom { at_uses : list (string * string); at_extra : list string; at_chk : check }.

Definition use_recorded (tab : list opinfo) (u : string * string) : bool :=
  match find_op tab (fst u) with Some o => op_has_var o | None => false end.
Definition use_wf (tab : list opinfo) (u : string * string) : bool :=
  match find_op tab (fst u) with Some o => mentions_var o | None => false end.

(* what the loader records / what the source mentions *)
Definition recorded (tab : list opinfo) (a : atom) : list string := map snd (filter (use_recorded tab) (at_uses a)) ++ at_extra a.
Definition mentioned (a : atom) : list string := map snd (at_uses a) ++ at_extra a.
Definition atom_wf (tab : list opinfo) (a : atom) : bool := forallb (use_wf tab) (at_uses a).

Lemma find_op_in tab n o : find_op tab n = Some o -> In o tab.
Proof. unfold find_op. intros H. now apply find_some in H. Qed.

Lemma mentioned_recorded tab a :
  flags_complete tab = true -> atom_wf tab a = true -> forall v, In v (mentioned a) -> In v (recorded tab a).
Proof.
  unfold flags_complete, atom_wf, mentioned, recorded. rewrite !forallb_forall. intros Hc Hw v Hv.
  apply in_app_or in Hv. apply in_or_app. destruct Hv as [Hv|Hv]; [left|now right].
  apply in_map_iff in Hv. destruct Hv as (u & <- & Hu). apply in_map_iff. exists u. split; [reflexivity|].
  apply filter_In. split; [assumption|]. specialize (Hw u Hu). unfold use_wf in Hw. unfold use_recorded.
  destruct (find_op tab (fst u)) as [o|] eqn:E; [|discriminate].
  specialize (Hc o (find_op_in _ _ _ E)). rewrite Hw in Hc. exact Hc.
Qed.

Lemma recorded_mentioned tab a v : In v (recorded tab a) -> In v (mentioned a).
Proof.
  unfold mentioned, recorded. intros Hv. apply in_app_or in Hv. apply in_or_app. destruct Hv as [Hv|Hv]; [left|now right].
  apply in_map_iff in Hv. destruct Hv as (u & <- & Hu). apply filter_In in Hu. apply in_map. tauto.
Qed.

Record vrule := mkVRule {
  v_comment : bool;               (* MatchComment: the alternatives are regexps, no placement *)
  v_alts : list alt;
  v_atoms : list atom;            (* the leaves of the Where expression *)
  v_at : option string;
  v_templates : list string       (* Report and Suggest *)
}.

Section Validate.
Variable nb : N.
Variable place_cases : list (N * place).
Variable kind_names object_names tag_names : list string.
Variable swap_guard : bool -> bool -> bool.     (* regenerated from newBinaryExprFilter *)
Variable optab : list opinfo.                   (* regenerated from ir/filter_op.gen.go *)

Definition check_ok (c : check) : bool :=
  match c with
  | ChkNone => true
  | ChkKind s => mem s kind_names
  | ChkObject s => mem s object_names
  | ChkTag s => mem s tag_names
  | ChkVersion s => version_ok s
  | ChkBinary eqop l r => binary_ok swap_guard eqop l r
  end.

Definition bound (a : alt) (v : string) : bool := String.eqb v "$$" || mem v (a_vars a).

Definition where_vars (r : vrule) : list string := flat_map (recorded optab) (v_atoms r).       (* filterInfo.Vars *)
Definition where_mentions (r : vrule) : list string := flat_map mentioned (v_atoms r).         (* the source *)
Definition rule_wf (r : vrule) : bool := forallb (atom_wf optab) (v_atoms r).
Definition all_vars (r : vrule) : list string := flat_map a_vars (v_alts r).
Definition referenced (r : vrule) : list string := flat_map (fun t => template_vars t (all_vars r)) (v_templates r).

Definition placed (r : vrule) (a : alt) : bool :=
  if v_comment r then true
  else match place_of place_cases (a_tag a) with PErr => false | PTags l => place_ok nb (PTags l) end.

Definition validate_with (wvars : list string) (r : vrule) : bool :=
  forallb (fun x => check_ok (at_chk x)) (v_atoms r) &&
  forallb a_ok (v_alts r) &&
  forallb (placed r) (v_alts r) &&
  forallb (fun a => forallb (bound a) wvars &&
                    match v_at r with Some v => bound a v | None => true end &&
                    forallb (fun v => mem v (a_vars a)) (referenced r)) (v_alts r).

(* the loader: checks the variables it recorded *)
Definition validate (r : vrule) : bool := validate_with (where_vars r) r.
(* the specification: checks the variables the Where clause mentions *)
Definition validate_spec (r : vrule) : bool := validate_with (where_mentions r) r.

(* the property's "well bound": under every alternative, every variable the rule's clauses refer to is bound *)
Definition well_bound (r : vrule) : Prop :=
  forall a, In a (v_alts r) ->
    (forall v, In v (where_mentions r) -> v = "$$" \/ In v (a_vars a)) /\
    (forall v, v_at r = Some v -> v = "$$" \/ In v (a_vars a)) /\
    (forall v, In v (referenced r) -> In v (a_vars a)).

Lemma bound_spec a v : bound a v = true <-> v = "$$" \/ In v (a_vars a).
Proof. unfold bound. rewrite orb_true_iff, String.eqb_eq, mem_In. tauto. Qed.

Theorem spec_accepted_rule_bound r : validate_spec r = true -> well_bound r.
Proof.
  unfold validate_spec, validate_with. intros H. apply andb_true_iff in H. destruct H as [_ H]. rewrite forallb_forall in H.
  intros a Ha. specialize (H a Ha). apply andb_true_iff in H. destruct H as [H H3]. apply andb_true_iff in H. destruct H as [H1 H2].
  rewrite forallb_forall in H1, H3. repeat split.
  - intros v Hv. apply bound_spec. now apply H1.
  - intros v Hv. rewrite Hv in H2. now apply bound_spec.
  - intros v Hv. apply mem_In. now apply H3.
Qed.

Lemma forallb_incl {A} (f : A -> bool) l1 l2 : (forall x, In x l1 -> In x l2) -> forallb f l2 = true -> forallb f l1 = true.
Proof. rewrite !forallb_forall. auto. Qed.

Lemma forallb_ext_in' {A} (f g : A -> bool) l : (forall x, In x l -> f x = g x) -> forallb f l = forallb g l.
Proof.
  induction l as [|x l IH]; intros H; [reflexivity|]. cbn [forallb]. rewrite (H x (or_introl eq_refl)), IH; [reflexivity|].
  intros y Hy. apply H. now right.
Qed.

Lemma where_mentions_recorded r :
  flags_complete optab = true -> rule_wf r = true -> forall v, In v (where_mentions r) -> In v (where_vars r).
Proof.
  unfold rule_wf, where_mentions, where_vars. rewrite forallb_forall. intros Hc Hw v Hv.
  apply in_flat_map in Hv. destruct Hv as (a & Ha & Hv). apply in_flat_map. exists a. split; [assumption|].
  apply mentioned_recorded; auto.
Qed.

Lemma where_recorded_mentions r v : In v (where_vars r) -> In v (where_mentions r).
Proof.
  unfold where_mentions, where_vars. intros Hv. apply in_flat_map in Hv. destruct Hv as (a & Ha & Hv).
  apply in_flat_map. exists a. split; [assumption|]. now apply recorded_mentioned in Hv.
Qed.

(* with a complete flag table the loader's check IS the specification *)
Theorem validate_is_spec r : flags_complete optab = true -> rule_wf r = true -> validate r = validate_spec r.
Proof.
  intros Hc Hw. unfold validate, validate_spec, validate_with. f_equal. apply forallb_ext_in'. intros a _. f_equal. f_equal.
  destruct (forallb (bound a) (where_mentions r)) eqn:E.
  - eapply forallb_incl; [|exact E]. apply where_recorded_mentions.
  - destruct (forallb (bound a) (where_vars r)) eqn:E2; [|reflexivity].
    rewrite <- E. symmetry. eapply forallb_incl; [|exact E2]. now apply where_mentions_recorded.
Qed.

Theorem accepted_rule_bound r : flags_complete optab = true -> rule_wf r = true -> validate r = true -> well_bound r.
Proof. intros Hc Hw H. apply spec_accepted_rule_bound. now rewrite <- validate_is_spec. Qed.

(* an incomplete table lets an unbound variable through: the loader accepts what the specification rejects *)
Lemma validate_spec_implies r : validate_spec r = true -> validate r = true.
Proof.
  unfold validate, validate_spec, validate_with. intros H.
  apply andb_true_iff in H. destruct H as [H0 H]. rewrite H0. cbn [andb].
  rewrite forallb_forall in H. apply forallb_forall. intros a Ha. specialize (H a Ha).
  apply andb_true_iff in H. destruct H as [H H3]. apply andb_true_iff in H. destruct H as [H1 H2]. rewrite H2, H3, !andb_true_r.
  eapply forallb_incl; [|exact H1]. apply where_recorded_mentions.
Qed.

(* an accepted syntax rule is filed in at least one bucket and only in buckets of the array: Load does not index out of range *)
Theorem accepted_rule_placed r a :
  validate r = true -> v_comment r = false -> In a (v_alts r) ->
  exists l, place_of place_cases (a_tag a) = PTags l /\ l <> [] /\ forall t, In t l -> (t < nb)%N.
Proof.
  unfold validate, validate_with. intros H Hc Ha. apply andb_true_iff in H. destruct H as [H _]. apply andb_true_iff in H. destruct H as [_ H].
  rewrite forallb_forall in H. specialize (H a Ha). unfold placed in H. rewrite Hc in H.
  destruct (place_of place_cases (a_tag a)) as [|l]; [discriminate|]. exists l. split; [reflexivity|].
  cbn in H. apply andb_true_iff in H. destruct H as [H1 H2]. split; [destruct l; [discriminate|congruence]|].
  intros t Ht. rewrite forallb_forall in H2. apply N.ltb_lt. now apply H2.
Qed.

(* ---------------------------------------------------------------- a rule group, a file: loadRule inside the loader's state *)
(* loadRuleGroup runs loadRule on the rules of a group in order and stops at the first error; LoadFile does the same with the
   groups.  Whatever the loader keeps from one rule to the next is abstract here (S): in a state s the variables that reach
   checkBoundVars for rule r -- the filterInfo.Vars of that call of loadRule -- are [fst (info_of s r)], the state the next rule
   sees is [snd (info_of s r)].                                                                                              *)
Section Group.
Variable S : Type.
Variable info_of : S -> vrule -> list string * S.

Fixpoint load_rules (s : S) (rs : list vrule) : bool * S :=
  match rs with
  | [] => (true, s)
  | r :: rest => let (vs, s') := info_of s r in
                 if validate_with vs r then load_rules s' rest else (false, s')
  end.

Fixpoint load_groups (s : S) (gs : list (list vrule)) : bool :=
  match gs with
  | [] => true
  | g :: rest => let (ok, s') := load_rules s g in if ok then load_groups s' rest else false
  end.

(* what the regenerated loadRule establishes: the table is made anew for the rule and filled by newFilter from the rule's own
   Where expression, whatever happened before *)
Definition info_fresh : Prop := forall s r, fst (info_of s r) = where_vars r.

Lemma load_rules_forallb : info_fresh -> forall rs s, fst (load_rules s rs) = forallb validate rs.
Proof.
  intros Hf. induction rs as [|r rest IH]; intros s; [reflexivity|]. cbn [load_rules forallb].
  specialize (Hf s r). destruct (info_of s r) as [vs s']. cbn [fst] in Hf. subst vs. fold (validate r).
  destruct (validate r); [now rewrite IH|reflexivity].
Qed.

Theorem load_groups_forallb : info_fresh -> forall gs s, load_groups s gs = forallb (forallb validate) gs.
Proof.
  intros Hf. induction gs as [|g rest IH]; intros s; [reflexivity|]. cbn [load_groups forallb].
  pose proof (load_rules_forallb Hf g s) as H. destruct (load_rules s g) as [ok s']. cbn [fst] in H. subst ok.
  destruct (forallb validate g); [now rewrite IH|reflexivity].
Qed.

(* a file that is accepted -- however many groups, however many rules, in whatever state each rule found the loader -- holds
   only well-bound rules *)
Theorem accepted_file_bound :
  info_fresh -> flags_complete optab = true -> forall gs s, load_groups s gs = true ->
  forall g r, In g gs -> In r g -> rule_wf r = true -> well_bound r.
Proof.
  intros Hf Hc gs s H g r Hg Hr Hw. rewrite (load_groups_forallb Hf) in H. rewrite forallb_forall in H.
  specialize (H g Hg). rewrite forallb_forall in H. apply accepted_rule_bound; auto.
Qed.
End Group.

(* the loader as it is: nothing survives a rule *)
Definition no_state (s : unit) (r : vrule) : list string * unit := (where_vars r, s).
Lemma no_state_fresh : info_fresh unit no_state.
Proof. intros s r. reflexivity. Qed.
Definition validate_file (gs : list (list vrule)) : bool := load_groups unit no_state tt gs.

(* a loader that remembers, per group, the Where texts it has built a filter for and skips newFilter on a hit: the table of the
   later rule stays empty.  (key r = the source text of r's Where expression; the memory is emptied by hand between groups in
   the variant below, or never.) *)
Definition text_cache (key : vrule -> string) (s : list string) (r : vrule) : list string * list string :=
  if mem (key r) s then ([], s) else (where_vars r, key r :: s).
End Validate.

(* ---------------------------------------------------------------- interpolation is the same under every alternative *)
Lemma longest_prefix_in vars rest best r :
  longest_prefix vars rest best = Some r -> best = Some r \/ In r vars.
Proof.
  revert best. induction vars as [|v vars IH]; intros best H; cbn in H; [now left|].
  destruct (String.prefix v rest && negb (v =? "") && _) eqn:E.
  - apply IH in H. destruct H as [H|H]; [inversion H; subst; right; now left|right; now right].
  - apply IH in H. destruct H as [H|H]; [now left|right; now right].
Qed.

Lemma tvars_in s : forall skip vars v, In v (tvars s skip vars) -> In v vars.
Proof.
  induction s as [|c rest IH]; intros skip vars v H; cbn in H; [contradiction|].
  destruct skip as [|k]; [|now apply IH in H].
  destruct (Ascii.eqb c dollar); [|now apply IH in H].
  destruct (String.prefix "$" rest); [now apply IH in H|].
  destruct (longest_prefix vars rest None) as [w|] eqn:E; [|now apply IH in H].
  destruct H as [<-|H]; [|now apply IH in H].
  apply longest_prefix_in in E. destruct E as [E|E]; [discriminate|assumption].
Qed.

Theorem referenced_are_variables tmpl vars v : In v (template_vars tmpl vars) -> In v vars.
Proof. apply tvars_in. Qed.
