(* C18 -- local helper functions (`f := func(v dsl.Var) bool { return ... }`) are expanded by irconv.expandMacro:
   the body is copied (astcopy), every identifier in expression position whose name is a parameter is replaced by the
   call argument, and the copy is converted.  The copy has no types.Info: constants that go/types folded in the original
   are unknown for the copy except for basic literals, which expandMacro re-evaluates with strconv.
   Model: expressions with the constant annotation go/types gives each node; [strip] = what the copy knows; [subst] =
   substitution of parameters in expression position; [convert] = convertFilterExprImpl reduced to its control skeleton
   (constant first, then structure; calls/selectors rooted at the matcher are converted by a table of known paths).      *)
From Coq Require Import List String Bool ZArith Lia.
Import ListNotations.
Local Open Scope string_scope.

Inductive cval := CStr (s : string) | CInt (z : Z) | COther.        (* constant.Value: string, int64-representable int, anything else *)
Inductive lkind := LString | LInt | LFloat | LChar | LImag.

Inductive dexpr :=
| EIdent (a : option cval) (name : string)
| ELit (a : option cval) (k : lkind) (patched : option cval)       (* patched: strconv.Unquote / ParseInt / ParseFloat of the literal text *)
| EParen (a : option cval) (x : dexpr)
| EUnary (a : option cval) (op : string) (x : dexpr)
| EBinary (a : option cval) (op : string) (x y : dexpr)
| ESel (a : option cval) (x : dexpr) (field : string)              (* x.field: the field name is not an expression *)
| EIndex (a : option cval) (x i : dexpr)
| ECall (a : option cval) (f : dexpr) (args : list dexpr).

Definition annot (e : dexpr) : option cval :=
  match e with
  | EIdent a _ | ELit a _ _ | EParen a _ | EUnary a _ _ | EBinary a _ _ _ | ESel a _ _ | EIndex a _ _ | ECall a _ _ => a
  end.

(* the converted filter: constants, connectives, and matcher-rooted operations *)
Inductive fexpr :=
| FStr (s : string) | FInt (z : Z)
| FNot (f : fexpr) | FBin (op : string) (f g : fexpr)
| FOp (path : string) (var : string) (strs : list string) (args : list fexpr).

Definition is_const (c : option cval) : option fexpr :=
  match c with Some (CStr s) => Some (FStr s) | Some (CInt z) => Some (FInt z) | _ => None end.

(* ---------------------------------------------------------------- astcopy + the literal patch *)
Definition patch (k : lkind) (patched : option cval) : option cval :=
  match k with LString | LInt | LFloat => patched | _ => None end.

Fixpoint strip (e : dexpr) : dexpr :=
  match e with
  | EIdent _ n => EIdent None n
  | ELit _ k p => ELit (patch k p) k p
  | EParen _ x => EParen None (strip x)
  | EUnary _ op x => EUnary None op (strip x)
  | EBinary _ op x y => EBinary None op (strip x) (strip y)
  | ESel _ x f => ESel None (strip x) f
  | EIndex _ x i => EIndex None (strip x) (strip i)
  | ECall _ f args => ECall None (strip f) (map strip args)
  end.

(* ---------------------------------------------------------------- substitution of parameters *)
Fixpoint lookup_arg (ps : list (string * dexpr)) (n : string) : option dexpr :=
  match ps with [] => None | (p, e) :: ps' => if String.eqb p n then Some e else lookup_arg ps' n end.

(* identifiers in expression position only (after the fix of expandMacro) *)
Fixpoint subst (ps : list (string * dexpr)) (e : dexpr) : dexpr :=
  match e with
  | EIdent a n => match lookup_arg ps n with Some arg => arg | None => EIdent a n end
  | ELit a k p => ELit a k p
  | EParen a x => EParen a (subst ps x)
  | EUnary a op x => EUnary a op (subst ps x)
  | EBinary a op x y => EBinary a op (subst ps x) (subst ps y)
  | ESel a x f => ESel a (subst ps x) f
  | EIndex a x i => EIndex a (subst ps x) (subst ps i)
  | ECall a f args => ECall a (subst ps f) (map (subst ps) args)
  end.

(* expandMacro before the fix: selector field identifiers were replaced too; a field can only hold an identifier *)
Inductive expand_result := XOk (e : dexpr) | XPanic.

Definition field_after (ps : list (string * dexpr)) (f : string) : option string :=   (* None: reflect.Set panics *)
  match lookup_arg ps f with
  | None => Some f
  | Some (EIdent _ n) => Some n
  | Some _ => None
  end.

Fixpoint subst_old (ps : list (string * dexpr)) (e : dexpr) : option dexpr :=
  match e with
  | ESel a x f => match subst_old ps x, field_after ps f with
                  | Some x', Some f' => Some (ESel a x' f')
                  | _, _ => None
                  end
  | EIdent a n => Some (match lookup_arg ps n with Some arg => arg | None => EIdent a n end)
  | ELit a k p => Some (ELit a k p)
  | EParen a x => option_map (EParen a) (subst_old ps x)
  | EUnary a op x => option_map (EUnary a op) (subst_old ps x)
  | EBinary a op x y => match subst_old ps x, subst_old ps y with Some x', Some y' => Some (EBinary a op x' y') | _, _ => None end
  | EIndex a x i => match subst_old ps x, subst_old ps i with Some x', Some i' => Some (EIndex a x' i') | _, _ => None end
  | ECall a f args =>
      match subst_old ps f with
      | Some f' =>
          match (fix go (l : list dexpr) : option (list dexpr) :=
                   match l with
                   | [] => Some []
                   | x :: l' => match subst_old ps x, go l' with Some x', Some r => Some (x' :: r) | _, _ => None end
                   end) args with
          | Some r => Some (ECall a f' r)
          | None => None
          end
      | None => None
      end
  end.

(* expandMacro: the body is copied (and so loses its constants), then the parameters are replaced by the ORIGINAL argument nodes *)
Definition expand (ps : list (string * dexpr)) (body : dexpr) : dexpr := subst ps (strip body).

(* ---------------------------------------------------------------- conversion skeleton *)
Section Convert.
Variable path_ok : string -> bool.        (* the selector paths convertFilterExprImpl knows ("Type.Is", "Pure", ...) *)
Variable str_args : string -> nat.        (* how many leading call arguments the path reads with parseStringArg *)

Definition convertible_binop (op : string) : bool :=
  existsb (String.eqb op) ["&&"; "||"; "=="; "!="; "<"; ">"; "<="; ">="].

(* toStringValue: a string literal is unquoted, any other expression needs the constant go/types recorded *)
Definition strval (e : dexpr) : option string :=
  match e with
  | ELit _ LString (Some (CStr s)) => Some s
  | ELit _ _ _ => None
  | _ => match annot e with Some (CStr s) => Some s | _ => None end
  end.

(* inspectFilterSelector: the dotted path of field names and the variable name of the m["name"] at the root *)
Fixpoint sel_path (e : dexpr) : string * option dexpr :=
  match e with
  | ESel _ x f => let '(p, r) := sel_path x in ((if String.eqb p "" then f else p ++ "." ++ f), r)
  | ECall _ f _ => sel_path f
  | EParen _ x => sel_path x
  | EIndex _ _ i => ("", Some i)
  | _ => ("", None)
  end.

Definition var_name (root : option dexpr) : string :=
  match root with Some i => match strval i with Some s => s | None => "" end | None => "" end.

Fixpoint map_opt {A B} (f : A -> option B) (l : list A) : option (list B) :=
  match l with [] => Some [] | x :: l' => match f x, map_opt f l' with Some y, Some r => Some (y :: r) | _, _ => None end end.

Fixpoint convert (fuel : nat) (e : dexpr) : option fexpr :=
  match fuel with
  | O => None
  | S fuel' =>
      match is_const (annot e) with
      | Some c => Some c
      | None =>
          match e with
          | EParen _ x => convert fuel' x
          | EUnary _ op x =>
              match convert fuel' x with
              | Some f => if String.eqb op "!" then Some (FNot f) else None
              | None => None
              end
          | EBinary _ op x y =>
              match convert fuel' x, convert fuel' y with
              | Some f, Some g => if convertible_binop op then Some (FBin op f g) else None
              | _, _ => None
              end
          | ESel _ _ _ =>
              let '(p, r) := sel_path e in
              if path_ok p then Some (FOp p (var_name r) [] []) else None
          | ECall _ _ args =>
              let '(p, r) := sel_path e in
              if path_ok p then
                match map_opt strval (firstn (str_args p) args), map_opt (convert fuel') (skipn (str_args p) args) with
                | Some ss, Some fs => Some (FOp p (var_name r) ss fs)
                | _, _ => None
                end
              else None
          | _ => None
          end
      end
  end.

(* ---------------------------------------------------------------- what go/types guarantees about folded constants *)
(* A node that go/types folds to a string / int constant is a literal (whose strconv value is that constant), a parenthesised
   constant, or has a shape the structural conversion rejects: an identifier, an arithmetic / concatenation operator, a
   conversion or builtin call, a selector that is not a matcher path.  The variable of a matcher-rooted operation is named by
   a string literal (m["x"]).  [consistent] states exactly this, node by node.                                             *)
Definition allP {A} (P : A -> Prop) : list A -> Prop :=
  fix go (l : list A) : Prop := match l with [] => True | x :: l' => P x /\ go l' end.

Lemma allP_skipn {A} (P : A -> Prop) n l : allP P l -> allP P (skipn n l).
Proof. revert l. induction n as [|n IH]; intros l H; [exact H|]. destruct l as [|x l]; [exact I|]. cbn. apply IH. apply H. Qed.

(* the variable of a matcher-rooted operation is named by a string literal: m["x"] *)
Definition root_lit (e : dexpr) : Prop :=
  match snd (sel_path e) with
  | Some (ELit _ LString (Some (CStr _))) => True
  | Some _ => False
  | None => True
  end.

Fixpoint consistent (e : dexpr) : Prop :=
  match e with
  | EIdent _ _ => True
  | ELit a k p => is_const (patch k p) = None \/ is_const (patch k p) = is_const a
  | EParen a x => consistent x /\ (forall c, is_const a = Some c -> is_const (annot x) = Some c)
  | EUnary a op x => consistent x /\ (is_const a <> None -> op <> "!")
  | EBinary a op x y => consistent x /\ consistent y /\ (is_const a <> None -> convertible_binop op = false)
  | ESel a x f => root_lit e /\ (is_const a <> None -> path_ok (fst (sel_path e)) = false)
  | EIndex _ _ _ => True
  | ECall a f args => root_lit e /\ (is_const a <> None -> path_ok (fst (sel_path e)) = false) /\ allP consistent args
  end.

(* [below e' e]: e' is e in which some subtrees are copies (annotations dropped, literals re-evaluated) *)
Inductive below : dexpr -> dexpr -> Prop :=
| B_refl e : below e e
| B_ident a n : below (EIdent None n) (EIdent a n)
| B_lit a k p : below (ELit (patch k p) k p) (ELit a k p)
| B_paren a x' x : below x' x -> below (EParen None x') (EParen a x)
| B_unary a op x' x : below x' x -> below (EUnary None op x') (EUnary a op x)
| B_binary a op x' x y' y : below x' x -> below y' y -> below (EBinary None op x' y') (EBinary a op x y)
| B_sel a x' x f : below x' x -> below (ESel None x' f) (ESel a x f)
| B_index a x' x i' i : below x' x -> below i' i -> below (EIndex None x' i') (EIndex a x i)
| B_call a f' f args' args : below f' f -> Forall2 below args' args -> below (ECall None f' args') (ECall a f args).

Definition root_rel (r' r : option dexpr) : Prop :=
  match r', r with Some i', Some i => below i' i | None, None => True | _, _ => False end.

Lemma sel_path_below e' e : below e' e -> fst (sel_path e') = fst (sel_path e) /\ root_rel (snd (sel_path e')) (snd (sel_path e)).
Proof.
  induction 1; cbn [sel_path]; try (split; [reflexivity|exact I]).
  - (* refl *) split; [reflexivity|]. destruct (snd (sel_path e)); [apply B_refl|exact I].
  - assumption.
  - destruct IHbelow as [Hp Hr]. destruct (sel_path x') as [p' r']. destruct (sel_path x) as [p r]. cbn [fst snd] in *. subst. split; [reflexivity|exact Hr].
  - split; [reflexivity|]. cbn. assumption.
  - assumption.
Qed.

Lemma strval_lit_below i' a s : below i' (ELit a LString (Some (CStr s))) -> strval i' = Some s.
Proof. intros H. inversion H; subst; reflexivity. Qed.

Lemma var_name_below r' r :
  root_rel r' r -> match r with Some (ELit _ LString (Some (CStr _))) => True | Some _ => False | None => True end -> var_name r' = var_name r.
Proof.
  destruct r' as [i'|], r as [i|]; cbn; try contradiction; [|reflexivity].
  intros Hb Hl. destruct i as [| a k p | | | | | |]; try contradiction. destruct k; try contradiction.
  destruct p as [[s|z|]|]; try contradiction. now rewrite (strval_lit_below _ _ _ Hb).
Qed.

Lemma strval_below x' x : below x' x -> strval x' = None \/ strval x' = strval x.
Proof.
  intros H. inversion H; subst; cbn; try (now left); try (now right).
Qed.

Lemma map_opt_strval_below l' l : Forall2 below l' l -> map_opt strval l' = None \/ map_opt strval l' = map_opt strval l.
Proof.
  induction 1 as [|x' x l' l Hx Hl IH]; cbn; [now right|].
  destruct (strval_below _ _ Hx) as [E|E]; rewrite E; [now left|].
  destruct (strval x); [|now left]. destruct IH as [IH|IH]; rewrite IH; [now left|now right].
Qed.

Lemma Forall2_firstn {A B} (R : A -> B -> Prop) n l l' : Forall2 R l l' -> Forall2 R (firstn n l) (firstn n l').
Proof. intros H. revert n. induction H; intros [|n]; cbn; constructor; auto. Qed.
Lemma Forall2_skipn {A B} (R : A -> B -> Prop) n l l' : Forall2 R l l' -> Forall2 R (skipn n l) (skipn n l').
Proof. intros H. revert n. induction H; intros [|n]; cbn; try constructor; auto. Qed.

Lemma convert_sel fuel a x f :
  convert (S fuel) (ESel a x f) =
  match is_const a with
  | Some c => Some c
  | None => if path_ok (fst (sel_path (ESel a x f))) then Some (FOp (fst (sel_path (ESel a x f))) (var_name (snd (sel_path (ESel a x f)))) [] []) else None
  end.
Proof. cbn [convert annot]. destruct (is_const a); [reflexivity|]. destruct (sel_path (ESel a x f)). reflexivity. Qed.

Lemma convert_call fuel a f args :
  convert (S fuel) (ECall a f args) =
  match is_const a with
  | Some c => Some c
  | None =>
      let p := fst (sel_path (ECall a f args)) in
      if path_ok p then
        match map_opt strval (firstn (str_args p) args), map_opt (convert fuel) (skipn (str_args p) args) with
        | Some ss, Some fs => Some (FOp p (var_name (snd (sel_path (ECall a f args)))) ss fs)
        | _, _ => None
        end
      else None
  end.
Proof. cbn [convert annot]. destruct (is_const a); [reflexivity|]. destruct (sel_path (ECall a f args)). reflexivity. Qed.

(* C18, core: converting an expression some of whose subtrees are copies either fails (Load error) or gives what converting
   the fully annotated expression gives *)
Theorem below_rejected_or_equal fuel : forall e' e, below e' e -> consistent e ->
  convert fuel e' = None \/ convert fuel e' = convert fuel e.
Proof.
  induction fuel as [|fuel IH]; intros e' e Hb Hc; [now left|].
  inversion Hb as [e0|a n|a k p|a x' x Hx|a op x' x Hx|a op x' x y' y Hx Hy|a x' x f Hx|a x' x i' i Hx Hi|a f' f args' args Hf Hargs]; subst.
  - now right.
  - now left.
  - (* literal *) cbn [convert annot]. cbn [consistent] in Hc. destruct Hc as [Hc|Hc]; rewrite Hc.
    + now left.
    + destruct (is_const a); [now right|now left].
  - (* parentheses *) cbn [convert annot is_const]. cbn [consistent] in Hc. destruct Hc as [Hcx Ha].
    destruct (is_const a) as [c|] eqn:Ec.
    + specialize (Ha c eq_refl). destruct (IH _ _ Hx Hcx) as [E|E]; [now left|]. rewrite E.
      destruct fuel as [|fuel']; [now left|]. cbn [convert]. rewrite Ha. now right.
    + exact (IH _ _ Hx Hcx).
  - (* unary *) cbn [convert annot is_const]. cbn [consistent] in Hc. destruct Hc as [Hcx Ha].
    destruct (IH _ _ Hx Hcx) as [E|E]; rewrite E; [now left|].
    destruct (is_const a) as [c|] eqn:Ec; [|now right].
    destruct (convert fuel x); [|now left]. assert (Hop : op <> "!") by (apply Ha; discriminate).
    apply String.eqb_neq in Hop. rewrite Hop. now left.
  - (* binary *) cbn [convert annot is_const]. cbn [consistent] in Hc. destruct Hc as (Hcx & Hcy & Ha).
    destruct (IH _ _ Hx Hcx) as [Ex|Ex]; rewrite Ex; [now left|].
    destruct (IH _ _ Hy Hcy) as [Ey|Ey]; rewrite Ey; [destruct (convert fuel x); now left|].
    destruct (is_const a) as [c|] eqn:Ec; [|now right].
    rewrite (Ha ltac:(discriminate)). destruct (convert fuel x); [destruct (convert fuel y)|]; now left.
  - (* selector *)
    destruct (sel_path_below _ _ Hb) as [Hp Hr]. cbn [consistent] in Hc. destruct Hc as [Hl Ha]. unfold root_lit in Hl.
    rewrite !convert_sel. cbn [is_const]. rewrite Hp, (var_name_below _ _ Hr Hl).
    destruct (is_const a) as [c|] eqn:Ec; [|now right]. rewrite (Ha ltac:(discriminate)). now left.
  - (* index *) cbn [convert annot is_const]. now left.
  - (* call *)
    destruct (sel_path_below _ _ Hb) as [Hp Hr]. cbn [consistent] in Hc. destruct Hc as (Hl & Ha & Hcargs). unfold root_lit in Hl.
    rewrite !convert_call. cbn [is_const]. rewrite Hp, (var_name_below _ _ Hr Hl). set (p := fst (sel_path (ECall a f args))) in *.
    destruct (is_const a) as [c|] eqn:Ec.
    { rewrite (Ha ltac:(discriminate)). now left. }
    destruct (path_ok p); [|now left].
    assert (Hall : forall l' l, Forall2 below l' l -> allP consistent l ->
                   map_opt (convert fuel) l' = None \/ map_opt (convert fuel) l' = map_opt (convert fuel) l).
    { induction 1 as [|y' y l' l Hy Hl' IHl]; [now right|]. intros [Hcy Hcl]. cbn [map_opt].
      destruct (IH _ _ Hy Hcy) as [E|E]; rewrite E; [now left|]. destruct (convert fuel y); [|now left].
      destruct (IHl Hcl) as [E'|E']; rewrite E'; [now left|now right]. }
    destruct (map_opt_strval_below _ _ (Forall2_firstn _ (str_args p) _ _ Hargs)) as [E|E]; rewrite E; [now left|].
    destruct (map_opt strval (firstn (str_args p) args)); [|now left].
    destruct (Hall _ _ (Forall2_skipn _ (str_args p) _ _ Hargs) (allP_skipn _ _ _ Hcargs)) as [E'|E']; rewrite E'; [now left|now right].
Qed.

(* an induction principle for expressions with argument lists *)
Section DexprInd.
Variable P : dexpr -> Prop.
Hypothesis Hident : forall a n, P (EIdent a n).
Hypothesis Hlit : forall a k p, P (ELit a k p).
Hypothesis Hparen : forall a x, P x -> P (EParen a x).
Hypothesis Hunary : forall a op x, P x -> P (EUnary a op x).
Hypothesis Hbinary : forall a op x y, P x -> P y -> P (EBinary a op x y).
Hypothesis Hsel : forall a x f, P x -> P (ESel a x f).
Hypothesis Hindex : forall a x i, P x -> P i -> P (EIndex a x i).
Hypothesis Hcall : forall a f args, P f -> Forall P args -> P (ECall a f args).
Fixpoint dexpr_ind' (e : dexpr) : P e :=
  match e with
  | EIdent a n => Hident a n
  | ELit a k p => Hlit a k p
  | EParen a x => Hparen a x (dexpr_ind' x)
  | EUnary a op x => Hunary a op x (dexpr_ind' x)
  | EBinary a op x y => Hbinary a op x y (dexpr_ind' x) (dexpr_ind' y)
  | ESel a x f => Hsel a x f (dexpr_ind' x)
  | EIndex a x i => Hindex a x i (dexpr_ind' x) (dexpr_ind' i)
  | ECall a f args => Hcall a f args (dexpr_ind' f)
      ((fix go (l : list dexpr) : Forall P l := match l with [] => Forall_nil P | x :: l' => Forall_cons x (dexpr_ind' x) (go l') end) args)
  end.
End DexprInd.

Lemma expand_below ps body : below (subst ps (strip body)) (subst ps body).
Proof.
  induction body using dexpr_ind'; cbn [strip subst].
  - destruct (lookup_arg ps n); [apply B_refl|apply B_ident].
  - apply B_lit.
  - now apply B_paren.
  - now apply B_unary.
  - now apply B_binary.
  - now apply B_sel.
  - now apply B_index.
  - apply B_call; [assumption|]. rewrite map_map. induction H as [|x l Hx Hl IHl]; cbn; constructor; assumption.
Qed.

Lemma strip_below e : below (strip e) e.
Proof.
  induction e using dexpr_ind'; cbn [strip]; try (constructor; assumption).
  apply B_call; [assumption|]. induction H as [|x l Hx Hl IHl]; cbn; constructor; assumption.
Qed.

Theorem strip_rejected_or_equal fuel e : consistent e -> convert fuel (strip e) = None \/ convert fuel (strip e) = convert fuel e.
Proof. apply below_rejected_or_equal, strip_below. Qed.

(* C18: a helper call either makes Load fail or converts to exactly what the manually inlined expression converts to *)
Theorem expand_rejected_or_inline fuel ps body :
  consistent (subst ps body) ->
  convert fuel (expand ps body) = None \/ convert fuel (expand ps body) = convert fuel (subst ps body).
Proof. intros H. unfold expand. apply below_rejected_or_equal; [apply expand_below|assumption]. Qed.

(* constant spellings: whatever the expression looks like, only the constant go/types computed for it matters *)
Theorem const_expr_transparent fuel e1 e2 c :
  is_const (annot e1) = Some c -> is_const (annot e2) = Some c -> convert (S fuel) e1 = convert (S fuel) e2.
Proof. intros H1 H2. cbn [convert]. now rewrite H1, H2. Qed.

Theorem const_string_arg_transparent e1 e2 s :
  (forall a k p, e1 <> ELit a k p) -> (forall a k p, e2 <> ELit a k p) ->
  annot e1 = Some (CStr s) -> annot e2 = Some (CStr s) -> strval e1 = strval e2.
Proof.
  intros N1 N2 H1 H2. destruct e1; try (exfalso; eapply N1; reflexivity); destruct e2; try (exfalso; eapply N2; reflexivity);
    cbn in *; subst; reflexivity.
Qed.
End Convert.

(* ---------------------------------------------------------------- the old expansion *)
(* when no parameter is named like a selected field the old substitution is the new one ... *)
Fixpoint fields (e : dexpr) : list string :=
  match e with
  | ESel _ x f => f :: fields x
  | EParen _ x | EUnary _ _ x => fields x
  | EBinary _ _ x y | EIndex _ x y => fields x ++ fields y
  | ECall _ f args => fields f ++ flat_map fields args
  | _ => []
  end.

(* ... and when one is, and the argument is not a plain identifier, it panicked inside Load (reflect.Set) *)
Example old_expansion_panics :
  let body := EBinary None "==" (ESel None (EIdent None "Text") "Text") (ELit (Some (CStr "a")) LString (Some (CStr "a"))) in
  let arg := EIndex None (EIdent None "m") (ELit (Some (CStr "x")) LString (Some (CStr "x"))) in
  subst_old [("Text", arg)] body = None /\
  subst [("Text", arg)] body = EBinary None "==" (ESel None arg "Text") (ELit (Some (CStr "a")) LString (Some (CStr "a"))).
Proof. cbn. split; reflexivity. Qed.

(* boolean equality of converted filters (used by the correspondence run) *)
Fixpoint fexpr_eqb (a b : fexpr) : bool :=
  match a, b with
  | FStr s, FStr t => String.eqb s t
  | FInt x, FInt y => Z.eqb x y
  | FNot f, FNot g => fexpr_eqb f g
  | FBin o f g, FBin o' f' g' => String.eqb o o' && fexpr_eqb f f' && fexpr_eqb g g'
  | FOp p v ss fs, FOp p' v' ss' fs' =>
      String.eqb p p' && String.eqb v v' &&
      (fix eqs (l l' : list string) : bool :=
         match l, l' with [], [] => true | x :: r, y :: r' => String.eqb x y && eqs r r' | _, _ => false end) ss ss' &&
      (fix eqf (l l' : list fexpr) : bool :=
         match l, l' with [], [] => true | x :: r, y :: r' => fexpr_eqb x y && eqf r r' | _, _ => false end) fs fs'
  | _, _ => false
  end.
