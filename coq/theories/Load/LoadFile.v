(* C13 -- irLoader.LoadFile for one rules file (bundle imports, custom functions, GroupFilter, rule groups) and the
   complete engine (rule set + function table).  A rule alternative is abstracted to: its id, where it goes (buckets of a
   syntax rule / the comment-rule list / a load error of any kind) and the custom function it names, if any.               *)
From Coq Require Import List ZArith Lia Bool.
From RG.Load Require Import LoadModel FuncEnv.
Import ListNotations.
Local Open Scope Z_scope.

Inductive rkind := RSyntax (tags : list N) | RComment | RBad.
Record grule := mkGR { gr_id : N; gr_kind : rkind; gr_fn : option N }.
Record fgroup := mkFG { fg_name : N; fg_rules : list grule }.
Record sfile := mkSF { sf_id : N; sf_decls : list fdecl; sf_groups : list fgroup }.
(* bundles: (prefix, files of the imported package) in import order *)
Record rfile := mkRF { rf_bundles : list (option N * list sfile); rf_main : sfile }.

Record lrule := mkLR { lr_id : N; lr_sem : option sem }.   (* a loaded rule: what it is + what its custom function means *)
Definition grp := (N * N)%type.                             (* final group name, id of the defining file *)
Definition gname (g : grp) : N := fst g.

Section LoadFile.
Variable NB : nat.
Variable mangle : N -> N -> N.                              (* prefix + "/" + name *)
Hypothesis mangle_inj : forall p a b, mangle p a = mangle p b -> a = b.

Notation scoped := (LoadModel.scoped lrule).
Notation ruleset := (LoadModel.ruleset lrule grp).
Notation file_result := (LoadModel.file_result lrule grp).
Notation merge := (LoadModel.merge lrule grp gname NB).
Notation wf_rs := (LoadModel.wf_rs lrule grp gname NB).
Notation total := (LoadModel.total lrule NB).

Definition final_name (prefix : option N) (g : fgroup) : N :=
  match prefix with Some p => mangle p (fg_name g) | None => fg_name g end.

(* loadRuleGroup: the filter sees the final name; a rejected group is skipped before anything is registered or loaded *)
Definition kept (flt : N -> bool) (prefix : option N) (sf : sfile) : list fgroup :=
  filter (fun g => flt (final_name prefix g)) (sf_groups sf).

Definition resolve (env : fenv) (r : grule) : option (lrule * rkind) :=
  match gr_kind r with
  | RBad => None
  | k => match gr_fn r with
         | None => Some (mkLR (gr_id r) None, k)
         | Some f => match lookup env f with
                     | Some s => Some (mkLR (gr_id r) (Some s), k)
                     | None => None
                     end
         end
  end.

Fixpoint resolve_all (env : fenv) (rs : list grule) : option (list (lrule * rkind)) :=
  match rs with
  | [] => Some []
  | r :: rs' => match resolve env r, resolve_all env rs' with
                | Some x, Some l => Some (x :: l)
                | _, _ => None
                end
  end.

Definition has_tag (t : N) (x : lrule * rkind) : bool :=
  match snd x with RSyntax ts => existsb (N.eqb t) ts | _ => false end.
Definition is_syntax (x : lrule * rkind) : bool := match snd x with RSyntax _ => true | _ => false end.
Definition is_comment (x : lrule * rkind) : bool := match snd x with RComment => true | _ => false end.

(* loadSyntaxRule / loadCommentRule: append to every destination bucket, count one categorized rule *)
Definition build (rules : list (lrule * rkind)) : scoped :=
  mkScoped lrule (lenZ (filter is_syntax rules)) (fun t => map fst (filter (has_tag t) rules)) (map fst (filter is_comment rules)).

Definition load_sfile (flt : N -> bool) (prefix : option N) (env : fenv) (sf : sfile) : fenv * option ruleset :=
  let '(env', c) := compile_file true env (sf_decls sf) in
  match c with
  | None => (env', None)
  | Some _ =>
      let gs := kept flt prefix sf in
      match resolve_all env' (flat_map fg_rules gs) with
      | None => (env', None)
      | Some rules => (env', Some (mkRS lrule grp (build rules) (map (fun g => (final_name prefix g, sf_id sf)) gs)))
      end
  end.

Fixpoint load_seq (flt : N -> bool) (env : fenv) (l : list (option N * sfile)) : fenv * option (list ruleset) :=
  match l with
  | [] => (env, Some [])
  | (p, sf) :: l' =>
      let '(env', r) := load_sfile flt p env sf in
      match r with
      | None => (env', None)
      | Some rs => let '(env'', rr) := load_seq flt env' l' in (env'', option_map (cons rs) rr)
      end
  end.

Definition bundle_files (rf : rfile) : list (option N * sfile) :=
  flat_map (fun b => map (pair (fst b)) (snd b)) (rf_bundles rf).

(* LoadFile: bundles first, then the file's own functions and groups; result = own rule set, or merge(own :: imported) *)
Definition load_rfile (flt : N -> bool) (env : fenv) (rf : rfile) : fenv * file_result :=
  let '(env1, rb) := load_seq flt env (bundle_files rf) in
  match rb with
  | None => (env1, FErr lrule grp)
  | Some imported =>
      let '(env2, rm) := load_sfile flt None env1 (rf_main rf) in
      match rm with
      | None => (env2, FErr lrule grp)
      | Some main =>
          match imported with
          | [] => (env2, FOk lrule grp main)
          | _ => match merge (main :: imported) with
                 | None => (env2, FErr lrule grp)
                 | Some m => (env2, FOk lrule grp m)
                 end
          end
      end
  end.

(* ---------------------------------------------------------------- what go/types and the placement (C06) guarantee *)
Definition tags_ok (k : rkind) : Prop :=
  match k with RSyntax ts => ts <> [] /\ (forall t, In t ts -> In t (LoadModel.tags NB)) | _ => True end.

Definition sfile_ok (sf : sfile) : Prop :=
  NoDup (map fg_name (sf_groups sf)) /\
  closed (sf_decls sf) /\
  (forall g r f, In g (sf_groups sf) -> In r (fg_rules g) -> gr_fn r = Some f -> In f (map f_name (sf_decls sf))) /\
  (forall g r, In g (sf_groups sf) -> In r (fg_rules g) -> tags_ok (gr_kind r)).

Definition rfile_ok (rf : rfile) : Prop :=
  sfile_ok (rf_main rf) /\ forall p sf, In (p, sf) (bundle_files rf) -> sfile_ok sf.

(* ---------------------------------------------------------------- decidable well-formedness (used for concrete examples) *)
Fixpoint nodupb (l : list N) : bool :=
  match l with [] => true | x :: l' => negb (existsb (N.eqb x) l') && nodupb l' end.

Lemma nodupb_sound l : nodupb l = true -> NoDup l.
Proof.
  induction l as [|x l IH]; cbn; intros H; [constructor|]. apply andb_true_iff in H. destruct H as [H1 H2].
  constructor; [|now apply IH]. intros Hin. apply negb_true_iff in H1.
  assert (existsb (N.eqb x) l = true); [|congruence]. apply existsb_exists. exists x. split; [assumption|apply N.eqb_refl].
Qed.

Definition memb (x : N) (l : list N) : bool := existsb (N.eqb x) l.
Lemma memb_sound x l : memb x l = true -> In x l.
Proof. unfold memb. intros H. apply existsb_exists in H. destruct H as (y & Hy & E). apply N.eqb_eq in E. now subst. Qed.

Definition tags_okb (k : rkind) : bool :=
  match k with RSyntax ts => negb (match ts with [] => true | _ => false end) && forallb (fun t => memb t (LoadModel.tags NB)) ts | _ => true end.

Definition sfile_okb (sf : sfile) : bool :=
  nodupb (map fg_name (sf_groups sf)) &&
  forallb (fun d => forallb (fun c => memb c (map f_name (sf_decls sf))) (f_calls d)) (sf_decls sf) &&
  forallb (fun g => forallb (fun r => match gr_fn r with Some f => memb f (map f_name (sf_decls sf)) | None => true end) (fg_rules g)) (sf_groups sf) &&
  forallb (fun g => forallb (fun r => tags_okb (gr_kind r)) (fg_rules g)) (sf_groups sf).

Lemma sfile_okb_sound sf : sfile_okb sf = true -> sfile_ok sf.
Proof.
  unfold sfile_okb. intros H. apply andb_true_iff in H. destruct H as [H H4]. apply andb_true_iff in H. destruct H as [H H3].
  apply andb_true_iff in H. destruct H as [H1 H2]. split; [now apply nodupb_sound|]. split; [|split].
  - intros d c Hd Hc. rewrite forallb_forall in H2. specialize (H2 d Hd). rewrite forallb_forall in H2. apply memb_sound. now apply H2.
  - intros g r f Hg Hr Hf. rewrite forallb_forall in H3. specialize (H3 g Hg). rewrite forallb_forall in H3. specialize (H3 r Hr).
    rewrite Hf in H3. now apply memb_sound.
  - intros g r Hg Hr. rewrite forallb_forall in H4. specialize (H4 g Hg). rewrite forallb_forall in H4. specialize (H4 r Hr).
    unfold tags_okb in H4. unfold tags_ok. destruct (gr_kind r) as [ts| |]; try exact I.
    apply andb_true_iff in H4. destruct H4 as [Ha Hb]. split; [destruct ts; [discriminate|congruence]|].
    intros t Ht. rewrite forallb_forall in Hb. apply memb_sound. now apply Hb.
Qed.

Definition rfile_okb (rf : rfile) : bool := sfile_okb (rf_main rf) && forallb (fun ps => sfile_okb (snd ps)) (bundle_files rf).

Lemma rfile_okb_sound rf : rfile_okb rf = true -> rfile_ok rf.
Proof.
  unfold rfile_okb. intros H. apply andb_true_iff in H. destruct H as [H1 H2]. split; [now apply sfile_okb_sound|].
  intros p sf Hin. rewrite forallb_forall in H2. apply sfile_okb_sound. exact (H2 (p, sf) Hin).
Qed.

(* ---------------------------------------------------------------- a single file *)
Lemma resolve_all_spec env rs l : resolve_all env rs = Some l ->
  map (fun x => lr_id (fst x)) l = map gr_id rs /\ map snd l = map gr_kind rs.
Proof.
  revert l. induction rs as [|r rs IH]; intros l H; cbn in H.
  - inversion H. split; reflexivity.
  - destruct (resolve env r) as [x|] eqn:E; [|discriminate]. destruct (resolve_all env rs) as [l'|]; [|discriminate].
    inversion H; subst. destruct (IH l' eq_refl) as [H1 H2]. cbn. rewrite H1, H2.
    unfold resolve in E. destruct (gr_kind r) eqn:K; try discriminate;
      (destruct (gr_fn r); [destruct (lookup env n); [|discriminate]|]; inversion E; subst; cbn; rewrite ?K; split; reflexivity).
Qed.

Lemma resolve_all_ext env1 env2 rs :
  (forall r f, In r rs -> gr_fn r = Some f -> lookup env1 f = lookup env2 f) -> resolve_all env1 rs = resolve_all env2 rs.
Proof.
  induction rs as [|r rs IH]; intros H; cbn; [reflexivity|].
  rewrite IH by (intros r' f Hr; apply H; now right).
  assert (E : resolve env1 r = resolve env2 r).
  { unfold resolve. destruct (gr_kind r); try reflexivity; (destruct (gr_fn r) as [f|] eqn:F; [|reflexivity]);
      rewrite (H r f) by (try (now left); assumption); reflexivity. }
  now rewrite E.
Qed.

Lemma load_sfile_groups flt p env sf env' rs :
  load_sfile flt p env sf = (env', Some rs) ->
  groups lrule grp rs = map (fun g => (final_name p g, sf_id sf)) (kept flt p sf) /\
  (forall t, map lr_id (by_tag lrule (universal lrule grp rs) t) =
             map gr_id (filter (fun r => match gr_kind r with RSyntax ts => existsb (N.eqb t) ts | _ => false end)
                               (flat_map fg_rules (kept flt p sf)))).
Proof.
  unfold load_sfile. destruct (compile_file true env (sf_decls sf)) as [e c]. destruct c; [|discriminate].
  destruct (resolve_all e (flat_map fg_rules (kept flt p sf))) as [rules|] eqn:E; [|discriminate].
  intros H; inversion H; subst; clear H. cbn. split; [reflexivity|]. intros t.
  apply resolve_all_spec in E. destruct E as [E1 E2]. revert E1 E2. generalize (flat_map fg_rules (kept flt p sf)) as rs.
  induction rules as [|x rules IH]; intros [|r rs] E1 E2; cbn in *; try discriminate; [reflexivity|].
  inversion E1; inversion E2; subst. unfold has_tag at 1. rewrite H2.
  destruct (gr_kind r) as [ts| |]; cbn; try (apply IH; assumption).
  destruct (existsb (N.eqb t) ts); cbn; [f_equal; [assumption|]|]; apply IH; assumption.
Qed.

Lemma kept_names_nodup flt p sf :
  NoDup (map fg_name (sf_groups sf)) -> NoDup (map (fun g => final_name p g) (kept flt p sf)).
Proof.
  unfold kept. generalize (fun g => flt (final_name p g)) as f. intros f. induction (sf_groups sf) as [|g gs IH]; cbn; intros H; [constructor|].
  inversion H; subst. destruct (f g); cbn; [|apply IH; assumption]. constructor; [|apply IH; assumption].
  intros Hin. apply in_map_iff in Hin. destruct Hin as (g' & He & Hg'). apply filter_In in Hg'. destruct Hg' as [Hg' _].
  apply H2. apply in_map_iff. exists g'. split; [|assumption].
  unfold final_name in He. destruct p; [now apply mangle_inj in He|assumption].
Qed.

Lemma build_cat_ok rules : (forall x, In x rules -> tags_ok (snd x)) -> cat_ok lrule NB (build rules).
Proof.
  intros Hok. unfold cat_ok. cbn [cat_num build]. split; [unfold lenZ; lia|].
  rewrite total_zero_iff. cbn [by_tag build]. split.
  - intros H t _. unfold lenZ in H. destruct (filter is_syntax rules) as [|x l] eqn:E; [|cbn in H; lia].
    assert (F : filter (has_tag t) rules = []); [|now rewrite F].
    clear H. induction rules as [|y rules IH]; [reflexivity|]. cbn in *. unfold has_tag, is_syntax in *.
    destruct (snd y); try discriminate; apply IH; try assumption; intros z Hz; apply Hok; now right.
  - intros H. destruct (filter is_syntax rules) as [|x l] eqn:E; [reflexivity|exfalso].
    assert (Hx : In x (filter is_syntax rules)) by (rewrite E; now left). apply filter_In in Hx. destruct Hx as [Hx Hs].
    pose proof (Hok x Hx) as Ht. unfold is_syntax in Hs. destruct (snd x) as [ts| |] eqn:K; try discriminate.
    destruct Ht as [Hne Hin]. destruct ts as [|t ts]; [congruence|].
    specialize (H t (Hin t (or_introl eq_refl))).
    assert (Hf : In x (filter (has_tag t) rules)).
    { apply filter_In. split; [assumption|]. unfold has_tag. rewrite K. cbn. now rewrite N.eqb_refl. }
    destruct (filter (has_tag t) rules); [contradiction|discriminate].
Qed.

Lemma load_sfile_wf flt p env sf env' rs :
  sfile_ok sf -> load_sfile flt p env sf = (env', Some rs) -> wf_rs rs.
Proof.
  intros (Hnd & _ & _ & Htags) H. pose proof (load_sfile_groups _ _ _ _ _ _ H) as [Hg _].
  unfold load_sfile in H. destruct (compile_file true env (sf_decls sf)) as [e c]. destruct c; [|discriminate].
  destruct (resolve_all e (flat_map fg_rules (kept flt p sf))) as [rules|] eqn:E; [|discriminate].
  inversion H; subst; clear H. split.
  - cbn [groups]. unfold names. rewrite map_map. cbn [gname fst]. now apply kept_names_nodup.
  - cbn [universal]. apply build_cat_ok. intros x Hx. apply resolve_all_spec in E. destruct E as [_ E2].
    assert (Hk : In (snd x) (map gr_kind (flat_map fg_rules (kept flt p sf)))) by (rewrite <- E2; now apply in_map).
    apply in_map_iff in Hk. destruct Hk as (r & <- & Hr). apply in_flat_map in Hr. destruct Hr as (g & Hg' & Hr).
    apply filter_In in Hg'. destruct Hg' as [Hg' _]. exact (Htags g r Hg' Hr).
Qed.

(* a file's result does not depend on the function table it is loaded into *)
Lemma load_sfile_env_irrelevant flt p env1 env2 sf :
  sfile_ok sf -> snd (load_sfile flt p env1 sf) = snd (load_sfile flt p env2 sf).
Proof.
  intros (_ & Hcl & Hfn & _). unfold load_sfile.
  pose proof (compile_env_irrelevant env1 _ Hcl) as C1. pose proof (compile_env_irrelevant env2 _ Hcl) as C2.
  destruct (compile_file true env1 (sf_decls sf)) as [e1 c1] eqn:E1. destruct (compile_file true env2 (sf_decls sf)) as [e2 c2] eqn:E2.
  cbn [snd] in C1, C2. rewrite <- C1 in C2. subst c2. clear C1. destruct c1 as [r|]; [|reflexivity].
  assert (Hr : map fst r = rev (map f_name (sf_decls sf))).
  { apply compile_file_names in E1. assumption. }
  rewrite (resolve_all_ext e1 e2).
  - destruct (resolve_all e2 _); reflexivity.
  - intros ru f Hru Hf. apply in_flat_map in Hru. destruct Hru as (g & Hg & Hru). apply filter_In in Hg. destruct Hg as [Hg _].
    pose proof (Hfn g ru f Hg Hru Hf) as Hin.
    assert (Hin' : In f (map fst r)) by (rewrite Hr; now apply -> in_rev).
    rewrite (own_functions_visible _ _ _ _ _ _ E1 Hin'), (own_functions_visible _ _ _ _ _ _ E2 Hin'). reflexivity.
Qed.

Lemma load_seq_env_irrelevant flt l : forall env1 env2,
  (forall p sf, In (p, sf) l -> sfile_ok sf) -> snd (load_seq flt env1 l) = snd (load_seq flt env2 l).
Proof.
  induction l as [|[p sf] l IH]; intros env1 env2 Hok; cbn; [reflexivity|].
  pose proof (load_sfile_env_irrelevant flt p env1 env2 sf (Hok p sf (or_introl eq_refl))) as E.
  destruct (load_sfile flt p env1 sf) as [e1 r1]. destruct (load_sfile flt p env2 sf) as [e2 r2]. cbn [snd] in E. subst r2.
  destruct r1 as [rs|]; [|reflexivity].
  specialize (IH e1 e2 (fun p' sf' H => Hok p' sf' (or_intror H))).
  destruct (load_seq flt e1 l) as [e1' rr1]. destruct (load_seq flt e2 l) as [e2' rr2]. cbn [snd] in *. now subst.
Qed.

Theorem load_rfile_env_irrelevant flt env1 env2 rf :
  rfile_ok rf -> snd (load_rfile flt env1 rf) = snd (load_rfile flt env2 rf).
Proof.
  intros [Hm Hb]. unfold load_rfile.
  pose proof (load_seq_env_irrelevant flt (bundle_files rf) env1 env2 Hb) as E.
  destruct (load_seq flt env1 (bundle_files rf)) as [e1 r1]. destruct (load_seq flt env2 (bundle_files rf)) as [e2 r2].
  cbn [snd] in E. subst r2. destruct r1 as [imp|]; [|reflexivity].
  pose proof (load_sfile_env_irrelevant flt None e1 e2 _ Hm) as E.
  destruct (load_sfile flt None e1 (rf_main rf)) as [e1' m1]. destruct (load_sfile flt None e2 (rf_main rf)) as [e2' m2].
  cbn [snd] in E. subst m2. destruct m1 as [main|]; [|reflexivity].
  destruct imp; [reflexivity|]. destruct (merge _); reflexivity.
Qed.

(* ---------------------------------------------------------------- groups of a loaded file: exactly the accepted ones *)
Definition all_sfiles (rf : rfile) : list (option N * sfile) := (None, rf_main rf) :: bundle_files rf.
Definition spec_groups (flt : N -> bool) (rf : rfile) : list grp :=
  flat_map (fun ps => map (fun g => (final_name (fst ps) g, sf_id (snd ps))) (kept flt (fst ps) (snd ps))) (all_sfiles rf).

Lemma load_seq_groups flt l : forall env env' rs,
  load_seq flt env l = (env', Some rs) ->
  concat_groups lrule grp rs = flat_map (fun ps => map (fun g => (final_name (fst ps) g, sf_id (snd ps))) (kept flt (fst ps) (snd ps))) l /\
  ((forall p sf, In (p, sf) l -> sfile_ok sf) -> Forall wf_rs rs).
Proof.
  induction l as [|[p sf] l IH]; intros env env' rs H; cbn in H.
  - inversion H; subst. split; [reflexivity|constructor].
  - destruct (load_sfile flt p env sf) as [e1 r1] eqn:E1. destruct r1 as [r|]; [|inversion H].
    destruct (load_seq flt e1 l) as [e2 rr] eqn:E2. destruct rr as [rr|]; cbn in H; [|inversion H].
    inversion H; subst; clear H. destruct (IH _ _ _ E2) as [IH1 IH2]. split.
    + unfold concat_groups in *. cbn. rewrite IH1. f_equal. apply (load_sfile_groups _ _ _ _ _ _ E1).
    + intros Hok. constructor; [apply (load_sfile_wf _ _ _ _ _ _ (Hok p sf (or_introl eq_refl)) E1)|].
      apply IH2. intros p' sf' Hin. apply (Hok p' sf'). now right.
Qed.

Theorem loaded_file_groups flt env rf env' rs :
  load_rfile flt env rf = (env', FOk lrule grp rs) -> groups lrule grp rs = spec_groups flt rf.
Proof.
  unfold load_rfile, spec_groups, all_sfiles. destruct (load_seq flt env (bundle_files rf)) as [e1 rb] eqn:E1.
  destruct rb as [imp|]; [|discriminate]. destruct (load_sfile flt None e1 (rf_main rf)) as [e2 rm] eqn:E2.
  destruct rm as [main|]; [|discriminate]. pose proof (load_sfile_groups _ _ _ _ _ _ E2) as [Hg _].
  pose proof (load_seq_groups _ _ _ _ _ E1) as [Hb _]. cbn [flat_map fst snd].
  destruct imp as [|i imp].
  - intros H; inversion H; subst. rewrite Hg, <- Hb. cbn. now rewrite app_nil_r.
  - destruct (merge (main :: i :: imp)) as [m|] eqn:Em; [|discriminate]. intros H; inversion H; subst.
    apply merge_some in Em. destruct Em as (Hgm & _). rewrite Hgm. unfold concat_groups in *. cbn [map concat]. rewrite Hg, <- Hb. reflexivity.
Qed.

(* C13: groups rejected by GroupFilter do not occupy their name (and contribute nothing: load_sfile never looks at them) *)
Corollary filtered_group_frees_name flt env rf env' rs n :
  load_rfile flt env rf = (env', FOk lrule grp rs) -> flt n = false -> ~ In n (names grp gname (groups lrule grp rs)).
Proof.
  intros H Hf Hin. rewrite (loaded_file_groups _ _ _ _ _ H) in Hin. unfold names, spec_groups in Hin.
  apply in_map_iff in Hin. destruct Hin as (g & <- & Hg). apply in_flat_map in Hg. destruct Hg as (ps & _ & Hg).
  apply in_map_iff in Hg. destruct Hg as (fg & <- & Hfg). apply filter_In in Hfg. destruct Hfg as [_ Hfg].
  cbn in Hf. congruence.
Qed.

Theorem load_rfile_wf flt env rf : rfile_ok rf -> wf_result lrule grp gname NB (snd (load_rfile flt env rf)).
Proof.
  intros [Hm Hb]. unfold load_rfile. destruct (load_seq flt env (bundle_files rf)) as [e1 rb] eqn:E1.
  destruct rb as [imp|]; [|exact I]. destruct (load_sfile flt None e1 (rf_main rf)) as [e2 rm] eqn:E2.
  destruct rm as [main|]; [|exact I]. destruct imp as [|i imp]; cbn [snd wf_result].
  - exact (load_sfile_wf _ _ _ _ _ _ Hm E2).
  - destruct (merge (main :: i :: imp)) as [m|] eqn:Em; [|exact I]. cbn. apply merge_some in Em. apply Em.
Qed.

(* ---------------------------------------------------------------- the complete engine *)
Record engine := mkE { e_rules : eng lrule grp; e_env : fenv }.
Definition call := ((N -> bool) * rfile)%type.           (* LoadContext.GroupFilter, the file *)

Definition load (e : engine) (c : call) : engine * bool :=
  let '(env', fr) := load_rfile (fst c) (e_env e) (snd c) in
  let '(r', ok) := load_step lrule grp gname NB (e_rules e) fr in
  (mkE r' env', ok).

Fixpoint run_calls (e : engine) (h : list call) : engine * list bool :=
  match h with
  | [] => (e, [])
  | c :: h' => let '(e1, ok) := load e c in let '(e2, oks) := run_calls e1 h' in (e2, ok :: oks)
  end.

Lemma run_calls_env_irrelevant h : forall r env1 env2,
  Forall (fun c => rfile_ok (snd c)) h ->
  e_rules (fst (run_calls (mkE r env1) h)) = e_rules (fst (run_calls (mkE r env2) h)) /\
  snd (run_calls (mkE r env1) h) = snd (run_calls (mkE r env2) h).
Proof.
  induction h as [|c h IH]; intros r env1 env2 Hok; cbn [run_calls]; [split; reflexivity|].
  inversion Hok as [|? ? Hc Hh]; subst. unfold load. cbn [e_rules e_env].
  pose proof (load_rfile_env_irrelevant (fst c) env1 env2 (snd c) Hc) as E.
  destruct (load_rfile (fst c) env1 (snd c)) as [e1 fr1]. destruct (load_rfile (fst c) env2 (snd c)) as [e2 fr2].
  cbn [snd] in E. subst fr2. destruct (load_step lrule grp gname NB r fr1) as [r' ok].
  specialize (IH r' e1 e2 Hh). destruct (run_calls (mkE r' e1) h) as [a oa]. destruct (run_calls (mkE r' e2) h) as [b ob].
  cbn [fst snd] in *. destruct IH as [-> ->]. split; reflexivity.
Qed.

(* C13, full atomicity: a call that returns an error leaves the rule set untouched, and although it may leave functions behind
   in the engine-wide table, every later call returns what it would have returned, and builds the rule set it would have built,
   had the failing call never happened. *)
Theorem failed_load_atomic_full e c h :
  Forall (fun c => rfile_ok (snd c)) h ->
  snd (load e c) = false ->
  e_rules (fst (load e c)) = e_rules e /\
  e_rules (fst (run_calls e (c :: h))) = e_rules (fst (run_calls e h)) /\
  snd (run_calls e (c :: h)) = false :: snd (run_calls e h).
Proof.
  intros Hh Hf. cbn [run_calls]. unfold load in *.
  destruct (load_rfile (fst c) (e_env e) (snd c)) as [env' fr].
  pose proof (step_failed_atomic lrule grp gname NB (e_rules e) fr) as Hat.
  destruct (load_step lrule grp gname NB (e_rules e) fr) as [r' ok]. cbn [fst snd e_rules] in *. subst ok.
  rewrite (Hat eq_refl). split; [reflexivity|].
  destruct e as [r env]. cbn [e_rules e_env] in *.
  destruct (run_calls_env_irrelevant h r env' env Hh) as [E1 E2].
  destruct (run_calls (mkE r env') h) as [a oa]. destruct (run_calls (mkE r env) h) as [b ob]. cbn [fst snd] in *.
  split; [exact E1|now rewrite E2].
Qed.

(* the rule-set component of the complete engine is the state machine of LoadModel run on the files' own results *)
Fixpoint results (env : fenv) (h : list call) : list file_result :=
  match h with [] => [] | c :: h' => let '(env', fr) := load_rfile (fst c) env (snd c) in fr :: results env' h' end.

Theorem run_calls_is_exec h : forall r env,
  e_rules (fst (run_calls (mkE r env) h)) = exec lrule grp gname NB r (results env h) /\
  snd (run_calls (mkE r env) h) = returns lrule grp gname NB r (results env h).
Proof.
  induction h as [|c h IH]; intros r env; cbn [run_calls results]; [split; reflexivity|].
  unfold load. cbn [e_rules e_env]. destruct (load_rfile (fst c) env (snd c)) as [env' fr].
  cbn [exec returns]. destruct (load_step lrule grp gname NB r fr) as [r' ok]. cbn [fst snd].
  specialize (IH r' env'). destruct (run_calls (mkE r' env') h) as [a oa]. cbn [fst snd] in *. destruct IH as [-> ->]. split; reflexivity.
Qed.

Lemma results_wf h : forall env, Forall (fun c => rfile_ok (snd c)) h -> Forall (wf_result lrule grp gname NB) (results env h).
Proof.
  induction h as [|c h IH]; intros env Hok; cbn [results]; [constructor|]. inversion Hok; subst.
  pose proof (load_rfile_wf (fst c) env (snd c) H1) as Hw. destruct (load_rfile (fst c) env (snd c)) as [env' fr]. cbn [snd] in Hw.
  constructor; [assumption|apply IH; assumption].
Qed.
End LoadFile.
