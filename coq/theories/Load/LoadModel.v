(* C13 -- the engine's rule-set bookkeeping as a state machine.
   R = a loaded rule (goRule: compiled pattern, filter closure, bound functions), G = a group descriptor.
   A rule set is what irLoader.LoadFile returns and what engine.ruleSet holds:
     universal.rulesByTag (array indexed by node tag), universal.commentRules, universal.categorizedNum, groups (map by name).
   The groups map is modelled as a list without duplicate names in insertion order; Go iterates maps in random order, so only
   order-insensitive facts about [groups] are meaningful (LoadedGroups sorts by name).                                       *)
From Coq Require Import List ZArith Lia Bool Permutation.
Import ListNotations.
Local Open Scope Z_scope.

Lemma NoDup_app_intro {A} (a b : list A) :
  NoDup a -> NoDup b -> (forall x, In x a -> In x b -> False) -> NoDup (a ++ b).
Proof.
  induction a as [|x a IH]; intros Ha Hb Hd; cbn; [assumption|].
  inversion Ha; subst. constructor.
  - intros Hin. apply in_app_or in Hin. destruct Hin as [Hin|Hin]; [contradiction|]. apply (Hd x); [now left|assumption].
  - apply IH; try assumption. intros y Hy. apply Hd. now right.
Qed.

Lemma NoDup_app_inv {A} (a b : list A) :
  NoDup (a ++ b) -> NoDup a /\ NoDup b /\ (forall x, In x a -> In x b -> False).
Proof.
  induction a as [|x a IH]; cbn; intros H.
  - repeat split; [constructor|assumption|intros ? []].
  - inversion H; subst. destruct (IH H3) as (Ha & Hb & Hd). repeat split.
    + constructor; [|assumption]. intros Hin. apply H2. apply in_or_app. now left.
    + assumption.
    + intros y [<-|Hy] Hyb; [apply H2; apply in_or_app; now right|exact (Hd y Hy Hyb)].
Qed.

Section Load.
Variable R : Type.
Variable G : Type.
Variable gname : G -> N.
Variable NB : nat.                       (* nodetag.NumBuckets: tags 0 .. NB-1 index rulesByTag *)

Record scoped := mkScoped { cat_num : Z; by_tag : N -> list R; comments : list R }.
Record ruleset := mkRS { universal : scoped; groups : list G }.

Definition empty_scoped : scoped := mkScoped 0 (fun _ => []) [].
Definition empty_rs : ruleset := mkRS empty_scoped [].

Definition tags : list N := map N.of_nat (seq 0 NB).
Definition lenZ {A} (l : list A) : Z := Z.of_nat (length l).
Definition total (s : scoped) : Z := fold_right Z.add 0 (map (fun t => lenZ (by_tag s t)) tags).

(* appendScopedRuleSet(dst, src) *)
Definition append_scoped (dst src : scoped) : scoped :=
  mkScoped (cat_num dst + total src) (fun t => by_tag dst t ++ by_tag src t) (comments dst ++ comments src).

Definition has_name (gs : list G) (n : N) : bool := existsb (fun g => N.eqb (gname g) n) gs.

(* the inner loop of mergeRuleSets: None = "redefinition of ..." error *)
Fixpoint add_groups (out gs : list G) : option (list G) :=
  match gs with
  | [] => Some out
  | g :: gs' => if has_name out (gname g) then None else add_groups (out ++ [g]) gs'
  end.

Fixpoint merge_from (out : ruleset) (l : list ruleset) : option ruleset :=
  match l with
  | [] => Some out
  | x :: l' =>
      match add_groups (groups out) (groups x) with
      | None => None
      | Some gs => merge_from (mkRS (append_scoped (universal out) (universal x)) gs) l'
      end
  end.

(* mergeRuleSets(toMerge) *)
Definition merge (l : list ruleset) : option ruleset := merge_from empty_rs l.

(* ---------------------------------------------------------------- the engine *)
Inductive file_result := FErr | FOk (rs : ruleset).   (* what LoadFile (after conversion) returned *)
Definition eng := option ruleset.                     (* engine.ruleSet; None = nil *)

(* tail of engine.Load / engine.LoadFromIR: returns the new engine and whether the call returned a nil error *)
Definition load_step (e : eng) (fr : file_result) : eng * bool :=
  match fr with
  | FErr => (e, false)
  | FOk rs =>
      match e with
      | None => (Some rs, true)
      | Some cur => match merge [cur; rs] with
                    | None => (e, false)
                    | Some m => (Some m, true)
                    end
      end
  end.

Fixpoint exec (e : eng) (h : list file_result) : eng :=
  match h with [] => e | fr :: h' => exec (fst (load_step e fr)) h' end.

(* the rule sets of the calls that returned nil, in call order *)
Fixpoint accepted (e : eng) (h : list file_result) : list ruleset :=
  match h with
  | [] => []
  | fr :: h' =>
      let '(e', ok) := load_step e fr in
      match fr with
      | FOk rs => if ok then rs :: accepted e' h' else accepted e' h'
      | FErr => accepted e' h'
      end
  end.

(* ---------------------------------------------------------------- observations *)
Definition names (gs : list G) : list N := map gname gs.
Definition eng_groups (e : eng) : list G := match e with None => [] | Some rs => groups rs end.
Definition eng_bucket (e : eng) (t : N) : list R := match e with None => [] | Some rs => by_tag (universal rs) t end.
Definition eng_comments (e : eng) : list R := match e with None => [] | Some rs => comments (universal rs) end.
Definition eng_cat (e : eng) : Z := match e with None => 0 | Some rs => cat_num (universal rs) end.

Definition disjoint_names (a b : list G) : Prop := forall n, In n (names a) -> In n (names b) -> False.

(* a rule set as LoadFile produces it *)
Definition cat_ok (s : scoped) : Prop := 0 <= cat_num s /\ (cat_num s = 0 <-> total s = 0).
Definition wf_rs (rs : ruleset) : Prop := NoDup (names (groups rs)) /\ cat_ok (universal rs).
Definition wf_result (fr : file_result) : Prop := match fr with FErr => True | FOk rs => wf_rs rs end.
Definition wf_eng (e : eng) : Prop := match e with None => True | Some rs => wf_rs rs end.

(* ---------------------------------------------------------------- lemmas: add_groups *)
Lemma has_name_In gs n : has_name gs n = true <-> In n (names gs).
Proof.
  unfold has_name, names. rewrite existsb_exists, in_map_iff. split.
  - intros (g & Hg & He). apply N.eqb_eq in He. eauto.
  - intros (g & He & Hg). exists g. split; [assumption|]. now apply N.eqb_eq.
Qed.

Lemma has_name_false gs n : has_name gs n = false <-> ~ In n (names gs).
Proof. rewrite <- has_name_In. destruct (has_name gs n); split; congruence. Qed.

Lemma names_app a b : names (a ++ b) = names a ++ names b.
Proof. unfold names. apply map_app. Qed.

Lemma add_groups_some out gs r :
  add_groups out gs = Some r -> r = out ++ gs /\ NoDup (names gs) /\ disjoint_names out gs.
Proof.
  revert out r. induction gs as [|g gs IH]; intros out r H; cbn in H.
  - inversion H; subst. rewrite app_nil_r. repeat split; [constructor|]. intros n _ [].
  - destruct (has_name out (gname g)) eqn:E; [discriminate|].
    apply IH in H. destruct H as (-> & Hnd & Hdj). apply has_name_false in E.
    rewrite <- app_assoc. cbn. repeat split.
    + cbn. constructor; [|assumption]. intros Hin. apply (Hdj (gname g)); [|assumption].
      rewrite names_app. apply in_or_app. right. cbn. now left.
    + intros n Ho [Hn|Hn]; cbn in *.
      * subst. contradiction.
      * apply (Hdj n); [|assumption]. rewrite names_app. apply in_or_app. now left.
Qed.

Lemma add_groups_ok out gs :
  NoDup (names gs) -> disjoint_names out gs -> add_groups out gs = Some (out ++ gs).
Proof.
  revert out. induction gs as [|g gs IH]; intros out Hnd Hdj; cbn.
  - now rewrite app_nil_r.
  - inversion Hnd as [|? ? Hnot Hnd']; subst.
    assert (E : has_name out (gname g) = false).
    { apply has_name_false. intros Hin. apply (Hdj (gname g)); [assumption|]. cbn. now left. }
    rewrite E. rewrite IH; [now rewrite <- app_assoc|assumption|].
    intros n Ho Hg. rewrite names_app in Ho. apply in_app_or in Ho. destruct Ho as [Ho|Ho].
    + apply (Hdj n); [assumption|]. cbn. now right.
    + cbn in Ho. destruct Ho as [<-|[]]. contradiction.
Qed.

Lemma add_groups_none out gs :
  add_groups out gs = None -> ~ (NoDup (names gs) /\ disjoint_names out gs).
Proof. intros H [Hnd Hdj]. rewrite add_groups_ok in H by assumption. discriminate. Qed.

(* ---------------------------------------------------------------- lemmas: scoped *)
Lemma fold_add_app (f : N -> Z) l1 l2 :
  fold_right Z.add 0 (map f (l1 ++ l2)) = fold_right Z.add 0 (map f l1) + fold_right Z.add 0 (map f l2).
Proof. induction l1 as [|x l1 IH]; cbn [map fold_right app]; [lia|rewrite IH; lia]. Qed.

Lemma total_nonneg s : 0 <= total s.
Proof. unfold total. induction tags as [|t l IH]; cbn [map fold_right]; [lia|]. unfold lenZ at 1. lia. Qed.

Lemma total_append a b : total (append_scoped a b) = total a + total b.
Proof.
  unfold total. cbn [by_tag append_scoped]. induction tags as [|t l IH]; cbn [map fold_right]; [lia|].
  rewrite IH. unfold lenZ. rewrite app_length. lia.
Qed.

Lemma total_zero_iff s : total s = 0 <-> forall t, In t tags -> by_tag s t = [].
Proof.
  unfold total. induction tags as [|t l IH]; cbn [map fold_right].
  - split; [intros _ ? []|reflexivity].
  - assert (Hl : 0 <= fold_right Z.add 0 (map (fun t0 => lenZ (by_tag s t0)) l)).
    { clear. induction l as [|x l IH]; cbn [map fold_right]; [lia|]. unfold lenZ at 1. lia. }
    split.
    + intros H u [<-|Hu].
      * assert (Hz : lenZ (by_tag s t) = 0) by (unfold lenZ in *; lia).
        unfold lenZ in Hz. destruct (by_tag s t); [reflexivity|cbn in Hz; lia].
      * apply IH; [|assumption]. unfold lenZ in *. lia.
    + intros H. rewrite (H t) by now left. unfold lenZ at 1. cbn [length Z.of_nat].
      rewrite (proj2 IH); [lia|]. intros u Hu. apply H. now right.
Qed.

Lemma cat_ok_append a b : cat_ok a -> cat_ok b -> cat_ok (append_scoped a b).
Proof.
  intros [Ha1 Ha2] [Hb1 Hb2]. unfold cat_ok. rewrite total_append. cbn [cat_num append_scoped].
  pose proof (total_nonneg a). pose proof (total_nonneg b). split; [lia|].
  split; intros H'; [assert (cat_num a = 0) by lia; assert (total b = 0) by lia; apply Ha2 in H1; lia|].
  assert (total a = 0) by lia. apply Ha2 in H1. lia.
Qed.

Lemma cat_ok_empty : cat_ok empty_scoped.
Proof.
  unfold cat_ok. cbn [cat_num empty_scoped]. split; [lia|]. split; [|reflexivity]. intros _.
  apply total_zero_iff. reflexivity.
Qed.

(* ---------------------------------------------------------------- merge of two *)
Lemma append_empty_l s : by_tag (append_scoped empty_scoped s) = by_tag s /\ comments (append_scoped empty_scoped s) = comments s
  /\ cat_num (append_scoped empty_scoped s) = total s.
Proof. cbn. repeat split. Qed.

Lemma merge_two cur rs m :
  merge [cur; rs] = Some m ->
  groups m = groups cur ++ groups rs /\
  (forall t, by_tag (universal m) t = by_tag (universal cur) t ++ by_tag (universal rs) t) /\
  comments (universal m) = comments (universal cur) ++ comments (universal rs) /\
  cat_num (universal m) = total (universal cur) + total (universal rs) /\
  NoDup (names (groups cur)) /\ NoDup (names (groups rs)) /\ disjoint_names (groups cur) (groups rs).
Proof.
  unfold merge. cbn [merge_from groups empty_rs universal].
  destruct (add_groups [] (groups cur)) as [g1|] eqn:E1; [|discriminate].
  apply add_groups_some in E1. destruct E1 as (-> & Hnd1 & _). cbn [app groups universal].
  destruct (add_groups (groups cur) (groups rs)) as [g2|] eqn:E2; [|discriminate].
  apply add_groups_some in E2. destruct E2 as (-> & Hnd2 & Hdj).
  intros H; inversion H; subst; clear H. cbn. repeat split; try assumption; try lia.
Qed.

Lemma merge_two_ok cur rs :
  NoDup (names (groups cur)) -> NoDup (names (groups rs)) -> disjoint_names (groups cur) (groups rs) ->
  exists m, merge [cur; rs] = Some m.
Proof.
  intros H1 H2 H3. unfold merge. cbn [merge_from groups empty_rs universal].
  rewrite add_groups_ok; [|assumption|intros n []]. cbn [app groups universal].
  rewrite add_groups_ok by assumption. eauto.
Qed.

Lemma merge_two_none cur rs :
  NoDup (names (groups cur)) -> NoDup (names (groups rs)) ->
  merge [cur; rs] = None -> exists n, In n (names (groups cur)) /\ In n (names (groups rs)).
Proof.
  intros H1 H2 Hm.
  destruct (existsb (fun n => existsb (N.eqb n) (names (groups rs))) (names (groups cur))) eqn:E.
  - apply existsb_exists in E. destruct E as (n & Hn & E). apply existsb_exists in E. destruct E as (n' & Hn' & E).
    apply N.eqb_eq in E. subst. eauto.
  - exfalso. destruct (merge_two_ok cur rs H1 H2) as [m Hm']; [|congruence].
    intros n Ha Hb. assert (existsb (fun n => existsb (N.eqb n) (names (groups rs))) (names (groups cur)) = true); [|congruence].
    apply existsb_exists. exists n. split; [assumption|]. apply existsb_exists. exists n. split; [assumption|apply N.eqb_refl].
Qed.

(* ---------------------------------------------------------------- one step *)
Theorem step_failed_atomic e fr : snd (load_step e fr) = false -> fst (load_step e fr) = e.
Proof.
  unfold load_step. destruct fr as [|rs]; [reflexivity|]. destruct e as [cur|]; [|discriminate].
  destruct (merge [cur; rs]); [discriminate|reflexivity].
Qed.

Theorem step_ok_iff e fr :
  wf_eng e -> wf_result fr ->
  (snd (load_step e fr) = true <-> exists rs, fr = FOk rs /\ disjoint_names (eng_groups e) (groups rs)).
Proof.
  intros He Hfr. unfold load_step. destruct fr as [|rs].
  - split; [discriminate|]. intros (rs & H & _). discriminate.
  - destruct e as [cur|].
    + destruct He as [Hc _]. destruct Hfr as [Hr _]. destruct (merge [cur; rs]) as [m|] eqn:E.
      * apply merge_two in E. split; [|reflexivity]. intros _. exists rs. split; [reflexivity|]. apply E.
      * split; [discriminate|]. intros (rs' & Heq & Hdj). inversion Heq; subst rs'.
        destruct (merge_two_none _ _ Hc Hr E) as (n & Ha & Hb). exfalso. exact (Hdj n Ha Hb).
    + split; [|reflexivity]. intros _. exists rs. split; [reflexivity|]. intros n [].
Qed.

Lemma step_wf e fr : wf_eng e -> wf_result fr -> wf_eng (fst (load_step e fr)).
Proof.
  intros He Hfr. unfold load_step. destruct fr as [|rs]; [assumption|]. destruct e as [cur|]; [|assumption].
  destruct (merge [cur; rs]) as [m|] eqn:E; [|assumption]. cbn [fst wf_eng].
  pose proof (merge_two _ _ _ E) as (Hg & Hb & Hc & Hn & Hnd1 & Hnd2 & Hdj).
  destruct He as [_ Hc1]. destruct Hfr as [_ Hc2]. split.
  - rewrite Hg, names_app. apply NoDup_app_intro; assumption.
  - destruct Hc1 as [Hc1a Hc1b], Hc2 as [Hc2a Hc2b]. unfold cat_ok. rewrite Hn.
    assert (Ht : total (universal m) = total (universal cur) + total (universal rs)).
    { unfold total. induction tags as [|t l IH]; cbn [map fold_right]; [lia|]. rewrite IH, Hb. unfold lenZ. rewrite app_length. lia. }
    rewrite Ht. pose proof (total_nonneg (universal cur)). pose proof (total_nonneg (universal rs)). split; [lia|reflexivity].
Qed.
(* ---------------------------------------------------------------- histories *)
Definition concat_groups (l : list ruleset) : list G := concat (map groups l).
Definition concat_bucket (l : list ruleset) (t : N) : list R := concat (map (fun rs => by_tag (universal rs) t) l).
Definition concat_comments (l : list ruleset) : list R := concat (map (fun rs => comments (universal rs)) l).

(* ---------------------------------------------------------------- n-ary merge (LoadFile merges a file with its bundles) *)
Definition sum_total (l : list ruleset) : Z := fold_right Z.add 0 (map (fun rs => total (universal rs)) l).

Lemma merge_from_some l : forall out m,
  merge_from out l = Some m ->
  groups m = groups out ++ concat_groups l /\
  (forall t, by_tag (universal m) t = by_tag (universal out) t ++ concat_bucket l t) /\
  comments (universal m) = comments (universal out) ++ concat_comments l /\
  cat_num (universal m) = cat_num (universal out) + sum_total l /\
  total (universal m) = total (universal out) + sum_total l /\
  (NoDup (names (groups out)) -> NoDup (names (groups m))).
Proof.
  unfold concat_groups, concat_bucket, concat_comments, sum_total.
  induction l as [|x l IH]; intros out m H; cbn [merge_from] in H.
  - inversion H; subst. cbn. rewrite !app_nil_r. repeat split; try lia; try tauto. intros t. now rewrite app_nil_r.
  - destruct (add_groups (groups out) (groups x)) as [gs|] eqn:E; [|discriminate].
    apply add_groups_some in E. destruct E as (-> & Hnd & Hdj).
    apply IH in H. cbn [groups universal] in H. destruct H as (Hg & Hb & Hc & Hn & Ht & Hd).
    rewrite total_append in Ht. cbn [cat_num comments by_tag append_scoped] in *.
    cbn [map concat fold_right].
    split; [rewrite Hg; now rewrite <- app_assoc|].
    split; [intros t; rewrite Hb; now rewrite <- app_assoc|].
    split; [rewrite Hc; now rewrite <- app_assoc|].
    split; [lia|]. split; [lia|].
    intros Ho. apply Hd. rewrite names_app. apply NoDup_app_intro; assumption.
Qed.

Lemma merge_some l m :
  merge l = Some m ->
  groups m = concat_groups l /\
  (forall t, by_tag (universal m) t = concat_bucket l t) /\
  comments (universal m) = concat_comments l /\
  wf_rs m.
Proof.
  intros H. apply merge_from_some in H. cbn in H. destruct H as (Hg & Hb & Hc & Hn & Ht & Hd).
  repeat split; try assumption.
  - apply Hd. constructor.
  - rewrite Hn. unfold sum_total. clear. induction l as [|x l IH]; cbn [map fold_right]; [lia|]. pose proof (total_nonneg (universal x)). lia.
  - rewrite Hn, Ht. assert (E : total empty_scoped = 0) by (apply total_zero_iff; reflexivity). rewrite E. lia.
  - rewrite Hn, Ht. assert (E : total empty_scoped = 0) by (apply total_zero_iff; reflexivity). rewrite E. lia.
Qed.

Fixpoint returns (e : eng) (h : list file_result) : list bool :=
  match h with [] => [] | fr :: h' => snd (load_step e fr) :: returns (fst (load_step e fr)) h' end.

Lemma exec_app e h1 h2 : exec e (h1 ++ h2) = exec (exec e h1) h2.
Proof. revert e. induction h1 as [|fr h1 IH]; intros e; cbn; [reflexivity|apply IH]. Qed.

Lemma exec_wf e h : wf_eng e -> Forall wf_result h -> wf_eng (exec e h).
Proof.
  revert e. induction h as [|fr h IH]; intros e He Hh; cbn; [assumption|].
  inversion Hh; subst. apply IH; [apply step_wf|]; assumption.
Qed.

Lemma accepted_cons e fr h :
  accepted e (fr :: h) =
  match fr with
  | FOk rs => if snd (load_step e fr) then rs :: accepted (fst (load_step e fr)) h else accepted (fst (load_step e fr)) h
  | FErr => accepted (fst (load_step e fr)) h
  end.
Proof. cbn [accepted]. destruct (load_step e fr) as [e' ok]. destruct fr; reflexivity. Qed.

Theorem history_inv h : forall e,
  eng_groups (exec e h) = eng_groups e ++ concat_groups (accepted e h) /\
  (forall t, eng_bucket (exec e h) t = eng_bucket e t ++ concat_bucket (accepted e h) t) /\
  eng_comments (exec e h) = eng_comments e ++ concat_comments (accepted e h) /\
  (exec e h = None <-> e = None /\ accepted e h = []).
Proof.
  induction h as [|fr h IH]; intros e.
  - cbn. rewrite !app_nil_r. split; [reflexivity|]. split; [intros t; now rewrite app_nil_r|]. split; [reflexivity|tauto].
  - rewrite accepted_cons. cbn [exec]. specialize (IH (fst (load_step e fr))).
    destruct IH as (IHg & IHb & IHc & IHn).
    unfold load_step in *. destruct fr as [|rs].
    + cbn [fst snd] in *. exact (conj IHg (conj IHb (conj IHc IHn))).
    + destruct e as [cur|].
      * destruct (merge [cur; rs]) as [m|] eqn:E; cbn [fst snd] in *.
        -- pose proof (merge_two _ _ _ E) as (Hg & Hb & Hc & _).
           unfold concat_groups, concat_bucket, concat_comments in *. cbn [map concat eng_groups eng_bucket eng_comments] in *.
           rewrite IHg, Hg, IHc, Hc, <- !app_assoc. split; [reflexivity|]. split; [|split; [reflexivity|]].
           ++ intros t. rewrite IHb, Hb, <- app_assoc. reflexivity.
           ++ split; [intros H; apply IHn in H; destruct H; discriminate|intros [H _]; discriminate].
        -- exact (conj IHg (conj IHb (conj IHc IHn))).
      * cbn [fst snd] in *. unfold concat_groups, concat_bucket, concat_comments in *.
        cbn [map concat eng_groups eng_bucket eng_comments app] in *. split; [assumption|]. split; [assumption|]. split; [assumption|].
        split; [intros H; apply IHn in H; destruct H; discriminate|intros [_ H]; discriminate].
Qed.

(* C13: after any history the engine's groups are the concatenation, in call order, of the groups of the calls that returned nil *)
Theorem loaded_groups_history h :
  eng_groups (exec None h) = concat_groups (accepted None h).
Proof. destruct (history_inv h None) as (H & _). exact H. Qed.

(* ... and every bucket (and the comment-rule list) is the concatenation in call order *)
Theorem rules_history h t :
  eng_bucket (exec None h) t = concat_bucket (accepted None h) t /\
  eng_comments (exec None h) = concat_comments (accepted None h).
Proof. destruct (history_inv h None) as (_ & Hb & Hc & _). split; [apply Hb|exact Hc]. Qed.

Theorem empty_iff_nothing_accepted h : exec None h = None <-> accepted None h = [].
Proof. destruct (history_inv h None) as (_ & _ & _ & Hn). rewrite Hn. tauto. Qed.

Theorem loaded_names_unique h : Forall wf_result h -> NoDup (names (eng_groups (exec None h))).
Proof.
  intros Hh. pose proof (exec_wf None h I Hh) as Hw. destruct (exec None h) as [rs|]; cbn; [apply Hw|constructor].
Qed.

(* which calls return nil: exactly those whose file loads and whose group names are unused by the earlier accepted calls *)
Definition fresh_names (seen : list N) (rs : ruleset) : bool :=
  forallb (fun n => negb (existsb (N.eqb n) seen)) (names (groups rs)).

Fixpoint spec_accepted (seen : list N) (h : list file_result) : list ruleset :=
  match h with
  | [] => []
  | FErr :: h' => spec_accepted seen h'
  | FOk rs :: h' => if fresh_names seen rs then rs :: spec_accepted (seen ++ names (groups rs)) h' else spec_accepted seen h'
  end.

Lemma fresh_names_disjoint gs rs : fresh_names (names gs) rs = true <-> disjoint_names gs (groups rs).
Proof.
  unfold fresh_names, disjoint_names. rewrite forallb_forall. split.
  - intros H n Ha Hb. specialize (H n Hb). apply negb_true_iff in H.
    assert (existsb (N.eqb n) (names gs) = true); [|congruence]. apply existsb_exists. exists n. split; [assumption|apply N.eqb_refl].
  - intros H n Hn. apply negb_true_iff. destruct (existsb (N.eqb n) (names gs)) eqn:E; [|reflexivity].
    apply existsb_exists in E. destruct E as (n' & Hn' & E). apply N.eqb_eq in E. subst. exfalso. exact (H _ Hn' Hn).
Qed.

Theorem accepted_is_spec h : forall e, wf_eng e -> Forall wf_result h ->
  accepted e h = spec_accepted (names (eng_groups e)) h.
Proof.
  induction h as [|fr h IH]; intros e He Hh; [reflexivity|].
  inversion Hh as [|? ? Hfr Hh']; subst. rewrite accepted_cons. cbn [spec_accepted].
  pose proof (step_ok_iff e fr He Hfr) as Hok. pose proof (step_wf e fr He Hfr) as Hwf.
  pose proof (step_failed_atomic e fr) as Hat.
  destruct fr as [|rs].
  - rewrite Hat by reflexivity. now apply IH.
  - destruct (snd (load_step e (FOk rs))) eqn:E.
    + destruct (proj1 Hok eq_refl) as (rs' & Heq & Hdj). inversion Heq; subst rs'.
      rewrite (proj2 (fresh_names_disjoint _ _) Hdj). f_equal. rewrite IH by assumption. f_equal.
      unfold load_step in *. destruct e as [cur|].
      * destruct (merge [cur; rs]) as [m|] eqn:Em; [|discriminate]. cbn [fst eng_groups].
        pose proof (merge_two _ _ _ Em) as (Hg & _). now rewrite Hg, names_app.
      * reflexivity.
    + rewrite Hat by reflexivity.
      destruct (fresh_names (names (eng_groups e)) rs) eqn:F.
      * apply fresh_names_disjoint in F. assert (false = true) by (apply Hok; eauto). discriminate.
      * now apply IH.
Qed.

(* a failing call is invisible: the state, and therefore every later return value and state, is as if it had not happened *)
Theorem failed_load_atomic e h1 fr h2 :
  snd (load_step (exec e h1) fr) = false ->
  exec e (h1 ++ fr :: h2) = exec e (h1 ++ h2) /\
  returns (exec e h1) (fr :: h2) = false :: returns (exec e h1) h2 /\
  fst (load_step (exec e h1) fr) = exec e h1.
Proof.
  intros H. pose proof (step_failed_atomic _ _ H) as Hat. rewrite !exec_app. cbn [exec returns]. rewrite Hat, H. repeat split.
Qed.

(* ---------------------------------------------------------------- Run *)
Variable node : Type.
Variable accepts : R -> node -> bool.     (* pattern matches and the filter accepts: a function of the loaded rule and the node *)
Variable multi : N -> bool.               (* runner.go:multiMatchTags *)

Definition run_bucket (t : N) (rules : list R) (n : node) : list R :=
  if multi t then filter (fun r => accepts r n) rules
  else match find (fun r => accepts r n) rules with Some r => [r] | None => [] end.

Definition run_node (e : eng) (t : N) (n : node) : list R := run_bucket t (eng_bucket e t) n.

Lemma find_app {A} (f : A -> bool) a b : find f (a ++ b) = match find f a with Some x => Some x | None => find f b end.
Proof. induction a as [|x a IH]; cbn; [reflexivity|]. destruct (f x); [reflexivity|apply IH]. Qed.

Theorem run_bucket_app t a b n :
  run_bucket t (a ++ b) n =
  if multi t then run_bucket t a n ++ run_bucket t b n
  else match run_bucket t a n with [] => run_bucket t b n | r => r end.
Proof.
  unfold run_bucket. destruct (multi t).
  - apply filter_app.
  - rewrite find_app. destruct (find _ a); reflexivity.
Qed.

Theorem run_history h t n :
  run_node (exec None h) t n = run_bucket t (concat_bucket (accepted None h) t) n.
Proof. unfold run_node. now rewrite (proj1 (rules_history h t)). Qed.

Theorem failed_load_run_unchanged e fr t n :
  snd (load_step e fr) = false -> run_node (fst (load_step e fr)) t n = run_node e t n.
Proof. intros H. now rewrite step_failed_atomic. Qed.

(* the walker is entered iff some bucket is non-empty (runner.go: categorizedNum != 0) *)
Theorem walk_enabled_iff h :
  Forall wf_result h -> (eng_cat (exec None h) = 0 <-> forall t, In t tags -> eng_bucket (exec None h) t = []).
Proof.
  intros Hh. pose proof (exec_wf None h I Hh) as Hw. destruct (exec None h) as [rs|]; cbn.
  - destruct Hw as [_ [_ Hc]]. rewrite Hc. apply total_zero_iff.
  - split; reflexivity.
Qed.
End Load.
