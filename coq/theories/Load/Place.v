(* C06 / C13 -- where loadSyntaxRule puts a rule, as a function of the root tag of its compiled pattern.
   The case table and the tag numbering are regenerated from the source (go2coq placetable). *)
From Coq Require Import List NArith Bool Arith Lia.
Import ListNotations.
Local Open Scope N_scope.

Inductive place := PErr | PTags (l : list N).      (* a located load error | the buckets rulesByTag[t] the rule is appended to *)

(* the switch of loadSyntaxRule: listed cases, default = the tag itself *)
Definition place_of (cases : list (N * place)) (tag : N) : place :=
  match find (fun c => N.eqb (fst c) tag) cases with
  | Some c => snd c
  | None => PTags [tag]
  end.

(* the placement neither indexes rulesByTag out of range (a run-time panic inside Load) nor files the rule nowhere *)
Definition place_ok (nb : N) (p : place) : bool :=
  match p with
  | PErr => true
  | PTags l => negb (match l with [] => true | _ => false end) && forallb (fun t => N.ltb t nb) l
  end.

Definition all_tags (ntags : nat) : list N := map N.of_nat (seq 0 ntags).

Definition place_table_ok (nb : N) (cases : list (N * place)) (ntags : nat) : bool :=
  forallb (fun t => place_ok nb (place_of cases t)) (all_tags ntags).

Lemma place_table_ok_spec nb cases ntags :
  place_table_ok nb cases ntags = true ->
  forall tag, (tag < N.of_nat ntags) ->
    match place_of cases tag with
    | PErr => True
    | PTags l => l <> [] /\ forall t, In t l -> t < nb
    end.
Proof.
  intros H tag Ht. unfold place_table_ok in H. rewrite forallb_forall in H.
  assert (Hin : In tag (all_tags ntags)).
  { unfold all_tags. apply in_map_iff. exists (N.to_nat tag). split; [apply N2Nat.id|].
    apply in_seq. lia. }
  specialize (H tag Hin). destruct (place_of cases tag) as [|l]; [exact I|].
  cbn in H. apply andb_true_iff in H. destruct H as [H1 H2]. split.
  - destruct l; [discriminate|congruence].
  - intros t Hti. rewrite forallb_forall in H2. apply N.ltb_lt. now apply H2.
Qed.

(* the same over an explicit set of tags (the tags gogrep's operation table can give to a compiled pattern) *)
Definition place_tags_ok (nb : N) (cases : list (N * place)) (tags : list N) : bool :=
  forallb (fun t => place_ok nb (place_of cases t)) tags.

Lemma place_tags_ok_spec nb cases tags :
  place_tags_ok nb cases tags = true ->
  forall tag, In tag tags ->
    match place_of cases tag with
    | PErr => True
    | PTags l => l <> [] /\ forall t, In t l -> t < nb
    end.
Proof.
  intros H tag Hin. unfold place_tags_ok in H. rewrite forallb_forall in H. specialize (H tag Hin).
  destruct (place_of cases tag) as [|l]; [exact I|].
  cbn in H. apply andb_true_iff in H. destruct H as [H1 H2]. split.
  - destruct l; [discriminate|congruence].
  - intros t Hti. rewrite forallb_forall in H2. apply N.ltb_lt. now apply H2.
Qed.
