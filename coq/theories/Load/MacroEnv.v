(* C18 -- helper functions in their scope.  Macro.v models one expansion; here the converter carries the table of the local
   helpers of the rule group it is working on (conv.groupFuncs): helper calls are looked up by name (first entry wins), the
   arguments are checked (isSafe), the copied body is substituted and converted -- which may meet further helper calls.
   [inline] is the specification: the same expression with every helper call replaced, by hand, by the helper's body with the
   arguments substituted (bodies keep the constants go/types computed for them).  The theorem: converting with helpers fails
   (Load error) or gives what converting the inlined expression gives.  A rules file is a list of groups, a group a list of
   statements (helper definitions and rules); the table is emptied at the start of every group, so what a group means does
   not depend on the groups before it.                                                                                      *)
From Coq Require Import List String Bool ZArith Lia.
From RG.Load Require Import Macro.
Import ListNotations.
Local Open Scope string_scope.

Record macro := mkMacro { m_name : string; m_params : list string; m_body : dexpr }.
Definition env := list macro.

(* findLocalMacro: the first entry with the name *)
Fixpoint find_macro (en : env) (n : string) : option macro :=
  match en with [] => None | m :: en' => if String.eqb (m_name m) n then Some m else find_macro en' n end.

Fixpoint unparen (e : dexpr) : dexpr := match e with EParen _ x => unparen x | _ => e end.

(* isSafe: a literal, an identifier, or matcher["literal"] (parentheses anywhere) *)
Definition safe_arg (mname : string) (e : dexpr) : bool :=
  match unparen e with
  | ELit _ _ _ | EIdent _ _ => true
  | EIndex _ x i =>
      match unparen x, unparen i with
      | EIdent _ n, ELit _ LString _ => String.eqb n mname
      | _, _ => false
      end
  | _ => false
  end.

(* args[paramName] = Unparen(arg): a map, a later parameter of the same name overrides an earlier one *)
Definition bind (params : list string) (args : list dexpr) : list (string * dexpr) := rev (combine params (map unparen args)).

(* a call whose function is a plain identifier naming a helper *)
Definition callee (en : env) (f : dexpr) : option macro :=
  match f with EIdent _ n => find_macro en n | _ => None end.

Section ConvertEnv.
Variable path_ok : string -> bool.
Variable str_args : string -> nat.
Variable path_early : string -> bool.      (* the paths convertFilterExprImpl handles before it looks for a helper *)
Variable mname : string.                   (* conv.group.MatcherName *)
Variable en : env.

Definition call_ok (m : macro) (args : list dexpr) : bool :=
  Nat.eqb (List.length args) (List.length (m_params m)) && forallb (safe_arg mname) args.

Definition conv_path (cv : dexpr -> option fexpr) (e : dexpr) (args : list dexpr) : option fexpr :=
  let '(p, r) := sel_path e in
  if path_ok p then
    match map_opt strval (firstn (str_args p) args), map_opt cv (skipn (str_args p) args) with
    | Some ss, Some fs => Some (FOp p (var_name r) ss fs)
    | _, _ => None
    end
  else None.

(* convertFilterExprImpl with the helper table *)
Fixpoint convertE (fuel : nat) (e : dexpr) : option fexpr :=
  match fuel with
  | O => None
  | S fuel' =>
      match is_const (annot e) with
      | Some c => Some c
      | None =>
          match e with
          | EParen _ x => convertE fuel' x
          | EUnary _ op x =>
              match convertE fuel' x with
              | Some f => if String.eqb op "!" then Some (FNot f) else None
              | None => None
              end
          | EBinary _ op x y =>
              match convertE fuel' x, convertE fuel' y with
              | Some f, Some g => if convertible_binop op then Some (FBin op f g) else None
              | _, _ => None
              end
          | ESel _ _ _ =>
              let '(p, r) := sel_path e in
              if path_ok p then Some (FOp p (var_name r) [] []) else None
          | ECall _ f args =>
              if path_ok (fst (sel_path e)) && path_early (fst (sel_path e)) then conv_path (convertE fuel') e args
              else match callee en f with
                   | Some m => if call_ok m args then convertE fuel' (subst (bind (m_params m) args) (strip (m_body m))) else None
                   | None => conv_path (convertE fuel') e args
                   end
          | _ => None
          end
      end
  end.

(* the specification: helper calls replaced by hand; [sb] is what happens to a body when it is taken ([id] here) *)
Fixpoint inline (fuel : nat) (e : dexpr) : option dexpr :=
  match fuel with
  | O => None
  | S fuel' =>
      match is_const (annot e) with
      | Some _ => Some e
      | None =>
          match e with
          | EParen a x => option_map (EParen a) (inline fuel' x)
          | EUnary a op x => option_map (EUnary a op) (inline fuel' x)
          | EBinary a op x y =>
              match inline fuel' x, inline fuel' y with Some x', Some y' => Some (EBinary a op x' y') | _, _ => None end
          | ECall a f args =>
              if path_ok (fst (sel_path e)) && path_early (fst (sel_path e)) then
                option_map (fun l => ECall a f (firstn (str_args (fst (sel_path e))) args ++ l))
                           (map_opt (inline fuel') (skipn (str_args (fst (sel_path e))) args))
              else match callee en f with
                   | Some m => if call_ok m args then inline fuel' (subst (bind (m_params m) args) (m_body m)) else None
                   | None =>
                       option_map (fun l => ECall a f (firstn (str_args (fst (sel_path e))) args ++ l))
                                  (map_opt (inline fuel') (skipn (str_args (fst (sel_path e))) args))
                   end
          | _ => Some e
          end
      end
  end.

(* ---------------------------------------------------------------- monotonicity of the plain conversion in the fuel *)
Lemma map_opt_ext_some {A B} (f g : A -> option B) l r :
  (forall x y, In x l -> f x = Some y -> g x = Some y) -> map_opt f l = Some r -> map_opt g l = Some r.
Proof.
  revert r. induction l as [|x l IH]; intros r H E; cbn in *; [assumption|].
  destruct (f x) as [y|] eqn:Ex; [|discriminate]. destruct (map_opt f l) as [r'|] eqn:El; [|discriminate].
  rewrite (H x y (or_introl eq_refl) Ex). rewrite (IH r' (fun x0 y0 Hin => H x0 y0 (or_intror Hin)) eq_refl). assumption.
Qed.

Lemma convert_mono fuel : forall e r, convert path_ok str_args fuel e = Some r -> convert path_ok str_args (S fuel) e = Some r.
Proof.
  induction fuel as [|fuel IH]; intros e r H; [discriminate|].
  cbn [convert] in H. change (convert path_ok str_args (S (S fuel)) e) with
    (match is_const (annot e) with
     | Some c => Some c
     | None =>
         match e with
         | EParen _ x => convert path_ok str_args (S fuel) x
         | EUnary _ op x => match convert path_ok str_args (S fuel) x with Some f => if String.eqb op "!" then Some (FNot f) else None | None => None end
         | EBinary _ op x y =>
             match convert path_ok str_args (S fuel) x, convert path_ok str_args (S fuel) y with
             | Some f, Some g => if convertible_binop op then Some (FBin op f g) else None
             | _, _ => None
             end
         | ESel _ _ _ => let '(p, r) := sel_path e in if path_ok p then Some (FOp p (var_name r) [] []) else None
         | ECall _ _ args =>
             let '(p, r) := sel_path e in
             if path_ok p then
               match map_opt strval (firstn (str_args p) args), map_opt (convert path_ok str_args (S fuel)) (skipn (str_args p) args) with
               | Some ss, Some fs => Some (FOp p (var_name r) ss fs)
               | _, _ => None
               end
             else None
         | _ => None
         end
     end).
  destruct (is_const (annot e)); [assumption|].
  destruct e as [a n|a k p|a x|a op x|a op x y|a x f|a x i|a f args]; try assumption.
  - now apply IH.
  - destruct (convert path_ok str_args fuel x) as [f|] eqn:E; [|discriminate]. now rewrite (IH _ _ E).
  - destruct (convert path_ok str_args fuel x) as [f|] eqn:Ex; [|discriminate].
    destruct (convert path_ok str_args fuel y) as [g|] eqn:Ey; [|discriminate]. now rewrite (IH _ _ Ex), (IH _ _ Ey).
  - destruct (sel_path (ECall a f args)) as [p rt]. destruct (path_ok p); [|assumption].
    destruct (map_opt strval (firstn (str_args p) args)); [|assumption].
    destruct (map_opt (convert path_ok str_args fuel) (skipn (str_args p) args)) as [fs|] eqn:E; [|discriminate].
    rewrite (map_opt_ext_some _ (convert path_ok str_args (S fuel)) _ fs (fun x y _ Hx => IH x y Hx) E). assumption.
Qed.

(* ---------------------------------------------------------------- copies and arguments *)
Lemma unparen_below e' e : below e' e -> below (unparen e') (unparen e).
Proof. induction 1; cbn [unparen]; try assumption; try apply B_refl; try (constructor; assumption). Qed.

Lemma below_shape_ident e' a n : below e' (EIdent a n) -> exists a', e' = EIdent a' n.
Proof. intros H. inversion H; subst; eexists; reflexivity. Qed.

Lemma below_ident_l a' n e : below (EIdent a' n) e -> exists a, e = EIdent a n.
Proof. intros H. inversion H; subst; eexists; reflexivity. Qed.

Lemma safe_arg_below e' e : below e' e -> safe_arg mname e' = safe_arg mname e.
Proof.
  intros H. apply unparen_below in H. unfold safe_arg.
  inversion H as [e0|a n|a k p|a x' x Hx|a op x' x Hx|a op x' x y' y Hx Hy|a x' x f Hx|a x' x i' i Hx Hi|a f' f args' args Hf Hargs]; subst; try reflexivity.
  apply unparen_below in Hx. apply unparen_below in Hi.
  inversion Hx; subst; try reflexivity; inversion Hi; subst; reflexivity.
Qed.

Lemma forallb_safe_below l' l : Forall2 below l' l -> forallb (safe_arg mname) l' = forallb (safe_arg mname) l.
Proof. induction 1 as [|x' x l' l Hx Hl IH]; cbn; [reflexivity|]. now rewrite (safe_arg_below _ _ Hx), IH. Qed.

Lemma Forall2_length_eq {A B} (R : A -> B -> Prop) l l' : Forall2 R l l' -> List.length l = List.length l'.
Proof. induction 1; cbn; congruence. Qed.

Definition ps_below (ps' ps : list (string * dexpr)) : Prop := Forall2 (fun p' p => fst p' = fst p /\ below (snd p') (snd p)) ps' ps.

Lemma lookup_below ps' ps n : ps_below ps' ps ->
  match lookup_arg ps' n, lookup_arg ps n with Some a', Some a => below a' a | None, None => True | _, _ => False end.
Proof.
  induction 1 as [|[p' a'] [p a] ps' ps [Hn Hb] Hl IH]; cbn; [exact I|]. cbn in Hn, Hb. subst p'.
  destruct (String.eqb p n); [assumption|exact IH].
Qed.

(* the copy of the body with copies of the arguments is a copy of the body with the arguments *)
Lemma subst_strip_below ps' ps body : ps_below ps' ps -> below (subst ps' (strip body)) (subst ps body).
Proof.
  intros Hps. induction body using dexpr_ind'; cbn [strip subst].
  - pose proof (lookup_below ps' ps n Hps) as H. destruct (lookup_arg ps' n), (lookup_arg ps n); try contradiction; [assumption|apply B_ident].
  - apply B_lit.
  - now apply B_paren.
  - now apply B_unary.
  - now apply B_binary.
  - now apply B_sel.
  - now apply B_index.
  - apply B_call; [assumption|]. rewrite map_map. induction H as [|x l Hx Hl IHl]; cbn; constructor; assumption.
Qed.

Lemma Forall2_rev' {A B} (R : A -> B -> Prop) l l' : Forall2 R l l' -> Forall2 R (rev l) (rev l').
Proof. induction 1; cbn; [constructor|]. apply Forall2_app; [assumption|]. constructor; [assumption|constructor]. Qed.

Lemma bind_below params args' args : Forall2 below args' args -> ps_below (bind params args') (bind params args).
Proof.
  intros H. unfold bind, ps_below. apply Forall2_rev'. revert params.
  induction H as [|x' x l' l Hx Hl IH]; intros [|p params]; cbn; try constructor; [|apply IH].
  cbn. split; [reflexivity|now apply unparen_below].
Qed.

(* ---------------------------------------------------------------- constants are not helper calls *)
(* A call go/types folds to a constant is a conversion or a builtin applied to constants: its function is neither a helper nor
   a parameter of a helper (those would shadow the builtin).  [names]: the helper names and all their parameter names.       *)
Variable names : list string.

Fixpoint nc (e : dexpr) : Prop :=
  match e with
  | EIdent _ _ | ELit _ _ _ => True
  | EParen _ x | EUnary _ _ x | ESel _ x _ => nc x
  | EBinary _ _ x y | EIndex _ x y => nc x /\ nc y
  | ECall a f args =>
      match f with EIdent _ n => is_const a <> None -> ~ In n names | _ => True end /\ nc f /\ allP nc args
  end.

Definition env_ok : Prop :=
  Forall (fun m => nc (m_body m) /\ In (m_name m) names /\ incl (m_params m) names) en.

Lemma find_macro_in n m : find_macro en n = Some m -> In m en /\ m_name m = n.
Proof.
  induction en as [|m0 en' IH]; cbn; [discriminate|]. destruct (String.eqb (m_name m0) n) eqn:E.
  - intros H. inversion H; subst. apply String.eqb_eq in E. split; [now left|assumption].
  - intros H. destruct (IH H). split; [now right|assumption].
Qed.

Lemma allP_Forall {A} (P : A -> Prop) l : allP P l <-> Forall P l.
Proof. induction l as [|x l IH]; cbn; [split; [constructor|trivial]|]. rewrite IH. split; [intros [? ?]; now constructor|intros H; inversion H; now split]. Qed.

Lemma lookup_in ps n a : lookup_arg ps n = Some a -> In (n, a) ps.
Proof.
  induction ps as [|[p e] ps IH]; cbn; [discriminate|]. destruct (String.eqb p n) eqn:E.
  - intros H. inversion H; subst. apply String.eqb_eq in E. subst. now left.
  - intros H. right. now apply IH.
Qed.

Lemma lookup_none_dom ps n : lookup_arg ps n = None -> ~ In n (map fst ps).
Proof.
  induction ps as [|[p e] ps IH]; cbn; [tauto|]. destruct (String.eqb p n) eqn:E; [discriminate|].
  intros H [Hp|Hin]; [subst; now rewrite String.eqb_refl in E|now apply IH].
Qed.

Lemma nc_subst ps body :
  (forall p a, In (p, a) ps -> nc a) -> incl (map fst ps) names -> nc body -> nc (subst ps body).
Proof.
  intros Hargs Hdom.
  induction body as [a n|a k p|a x IHx|a op x IHx|a op x y IHx IHy|a x f IHx|a x i IHx IHi|a f args IHf IHargs] using dexpr_ind';
    cbn [subst nc]; intros Hb; try tauto.
  - destruct (lookup_arg ps n) as [a0|] eqn:E; [|exact I]. apply lookup_in in E. eapply Hargs. exact E.
  - destruct Hb as (Hf & Hnf & Hargs'). split; [|split].
    + destruct f as [a0 n| | | | | | |]; cbn [subst]; try exact I.
      destruct (lookup_arg ps n) as [arg|] eqn:E.
      * (* the function is a parameter: its name is in [names], so the call is not a constant *)
        destruct arg; try exact I. intros Hc. exfalso. apply (Hf Hc). apply Hdom. apply lookup_in in E.
        change n with (fst (n, EIdent a1 name)). now apply in_map.
      * exact Hf.
    + now apply IHf.
    + apply allP_Forall. apply allP_Forall in Hargs'. rewrite Forall_forall in *. intros y Hy. apply in_map_iff in Hy.
      destruct Hy as (x & <- & Hx). apply (IHargs x Hx). now apply Hargs'.
Qed.

Lemma nc_unparen e : nc e -> nc (unparen e).
Proof. induction e; cbn; auto. Qed.

Lemma nc_bind params args : allP nc args -> forall p a, In (p, a) (bind params args) -> nc a.
Proof.
  intros H p a Hin. unfold bind in Hin. apply in_rev in Hin. apply in_combine_r in Hin. apply in_map_iff in Hin.
  destruct Hin as (x & <- & Hx). apply nc_unparen. apply allP_Forall in H. rewrite Forall_forall in H. now apply H.
Qed.

Lemma bind_dom params args : incl (map fst (bind params args)) params.
Proof.
  unfold bind. intros p Hp. rewrite map_rev in Hp. apply in_rev in Hp. apply in_map_iff in Hp. destruct Hp as ([q a] & <- & Hin).
  now apply in_combine_l in Hin.
Qed.

(* ---------------------------------------------------------------- the theorem *)
Lemma firstn_app_exact {A} n (l l' : list A) : List.length l <= n -> List.length l = n \/ l' = [] -> firstn n (l ++ l') = l.
Proof.
  intros Hle [H|H].
  - subst n. rewrite firstn_app, Nat.sub_diag, firstn_all. cbn. now rewrite app_nil_r.
  - subst. rewrite app_nil_r. now apply firstn_all2.
Qed.

Lemma split_args {A} n (l : list A) : List.length (firstn n l) = n \/ skipn n l = [].
Proof.
  destruct (Nat.le_gt_cases n (List.length l)) as [H|H]; [left; now apply firstn_length_le|right; apply skipn_all2; lia].
Qed.

Lemma map_opt_nil_inv {A B} (f : A -> option B) l r : map_opt f l = Some r -> l = [] -> r = [].
Proof. intros H ->. cbn in H. now inversion H. Qed.

Lemma map_opt_length {A B} (f : A -> option B) l r : map_opt f l = Some r -> List.length r = List.length l.
Proof.
  revert r. induction l as [|x l IH]; intros r H; cbn in H; [inversion H; reflexivity|].
  destruct (f x); [|discriminate]. destruct (map_opt f l) as [r'|]; [|discriminate]. inversion H; subst. cbn. f_equal. now apply IH.
Qed.

(* the rebuilt call node has the same path and the same root *)
Lemma sel_path_call a f args args' : sel_path (ECall a f args') = sel_path (ECall a f args).
Proof. reflexivity. Qed.

Lemma conv_path_rebuilt fuel a f args l fs ss p :
  p = fst (sel_path (ECall a f args)) ->
  path_ok p = true ->
  map_opt strval (firstn (str_args p) args) = Some ss ->
  List.length l = List.length (skipn (str_args p) args) ->
  map_opt (convert path_ok str_args fuel) l = Some fs ->
  is_const a = None ->
  convert path_ok str_args (S fuel) (ECall a f (firstn (str_args p) args ++ l)) =
  Some (FOp p (var_name (snd (sel_path (ECall a f args)))) ss fs).
Proof.
  intros Ep Hp Hss Hlen Hfs Ha. rewrite convert_call. rewrite Ha.
  change (fst (sel_path (ECall a f (firstn (str_args p) args ++ l)))) with (fst (sel_path (ECall a f args))). rewrite <- Ep. cbv zeta. rewrite Hp.
  change (snd (sel_path (ECall a f (firstn (str_args p) args ++ l)))) with (snd (sel_path (ECall a f args))).
  assert (H1 : firstn (str_args p) (firstn (str_args p) args ++ l) = firstn (str_args p) args).
  { apply firstn_app_exact; [apply firstn_le_length|]. destruct (split_args (str_args p) args) as [H|H]; [now left|right].
    rewrite H in Hlen. destruct l; [reflexivity|discriminate]. }
  assert (H2 : skipn (str_args p) (firstn (str_args p) args ++ l) = l).
  { destruct (split_args (str_args p) args) as [H|H].
    - rewrite skipn_app. rewrite H, Nat.sub_diag. cbn [skipn]. rewrite (skipn_all2 (firstn (str_args p) args)); [reflexivity|lia].
    - rewrite H in Hlen. destruct l; [|discriminate]. rewrite app_nil_r. apply skipn_all2. rewrite firstn_length. lia. }
  now rewrite H1, H2, Hss, Hfs.
Qed.

Theorem convertE_inlined fuel : forall e1 e2 r,
  env_ok -> below e1 e2 -> nc e2 -> convertE fuel e1 = Some r ->
  exists e2', inline fuel e2 = Some e2' /\ (consistent path_ok e2' -> convert path_ok str_args fuel e2' = Some r).
Proof.
  induction fuel as [|fuel IH]; intros e1 e2 r Henv Hb Hnc H; [discriminate|].
  (* the generic treatment of a list of argument conversions *)
  assert (Hlist : forall l1 l2, Forall2 below l1 l2 -> forall fs, allP nc l2 -> map_opt (convertE fuel) l1 = Some fs ->
            exists l2', map_opt (inline fuel) l2 = Some l2' /\ List.length l2' = List.length l2 /\
                        (allP (consistent path_ok) l2' -> map_opt (convert path_ok str_args fuel) l2' = Some fs)).
  { induction 1 as [|x1 x2 l1 l2 Hx Hl IHl]; intros fs Hncl Hm; cbn in Hm.
    - inversion Hm; subst. exists []. cbn. auto.
    - destruct (convertE fuel x1) as [fx|] eqn:Ex; [|discriminate]. destruct (map_opt (convertE fuel) l1) as [fl|] eqn:El; [|discriminate].
      inversion Hm; subst. destruct Hncl as [Hnx Hnl].
      destruct (IH _ _ _ Henv Hx Hnx Ex) as (x2' & Hi & Hc). destruct (IHl _ Hnl eq_refl) as (l2' & Hil & Hlen & Hcl).
      exists (x2' :: l2'). cbn. rewrite Hi, Hil. split; [reflexivity|]. split; [now rewrite Hlen|].
      intros [Hcx Hcl']. now rewrite (Hc Hcx), (Hcl Hcl'). }
  (* a path-converted call *)
  assert (Hpath : forall a1 f1 args1 a2 f2 args2,
            below f1 f2 -> Forall2 below args1 args2 -> is_const a2 = None -> allP nc args2 ->
            conv_path (convertE fuel) (ECall a1 f1 args1) args1 = Some r ->
            exists l, map_opt (inline fuel) (skipn (str_args (fst (sel_path (ECall a2 f2 args2)))) args2) = Some l /\
              (consistent path_ok (ECall a2 f2 (firstn (str_args (fst (sel_path (ECall a2 f2 args2)))) args2 ++ l)) ->
               convert path_ok str_args (S fuel) (ECall a2 f2 (firstn (str_args (fst (sel_path (ECall a2 f2 args2)))) args2 ++ l)) = Some r)).
  { intros a1 f1 args1 a2 f2 args2 Hf Hargs Ha2 Hncargs Hcp.
    assert (Hbc : below (ECall None f1 args1) (ECall a2 f2 args2)) by now constructor.
    destruct (sel_path_below _ _ Hbc) as [Hp Hr]. unfold conv_path in Hcp.
    change (sel_path (ECall a1 f1 args1)) with (sel_path (ECall None f1 args1)) in Hcp.
    destruct (sel_path (ECall None f1 args1)) as [p1 r1] eqn:Esp. cbn [fst snd] in Hp, Hr. subst p1.
    set (p := fst (sel_path (ECall a2 f2 args2))) in *.
    destruct (path_ok p) eqn:Epo; [|discriminate].
    destruct (map_opt strval (firstn (str_args p) args1)) as [ss|] eqn:Ess; [|discriminate].
    destruct (map_opt (convertE fuel) (skipn (str_args p) args1)) as [fs|] eqn:Efs; [|discriminate].
    inversion Hcp; subst r. clear Hcp.
    destruct (Hlist _ _ (Forall2_skipn _ (str_args p) _ _ Hargs) _ (allP_skipn _ _ _ Hncargs) Efs) as (l & Hil & Hlen & Hcl).
    exists l. split; [assumption|]. intros Hcons. cbn [consistent] in Hcons. destruct Hcons as (Hroot & _ & Hcargs).
    assert (Hss2 : map_opt strval (firstn (str_args p) args2) = Some ss).
    { destruct (map_opt_strval_below _ _ (Forall2_firstn _ (str_args p) _ _ Hargs)) as [E|E]; congruence. }
    assert (Hcl2 : allP (consistent path_ok) l).
    { apply allP_Forall. apply allP_Forall in Hcargs. apply Forall_app in Hcargs. tauto. }
    rewrite (conv_path_rebuilt fuel a2 f2 args2 l fs ss p eq_refl Epo Hss2 Hlen (Hcl Hcl2) Ha2). f_equal. f_equal.
    unfold root_lit in Hroot. change (snd (sel_path (ECall a2 f2 (firstn (str_args p) args2 ++ l)))) with (snd (sel_path (ECall a2 f2 args2))) in Hroot.
    symmetry. now apply var_name_below. }
  inversion Hb as [e0|a n|a k p|a x' x Hx|a op x' x Hx|a op x' x y' y Hx Hy|a x' x f Hx|a x' x i' i Hx Hi|a f' f args' args Hf Hargs]; subst.
  - (* the same expression on both sides *)
    cbn [convertE] in H. cbn [inline]. destruct (is_const (annot e2)) as [c|] eqn:Ec.
    { inversion H; subst. exists e2. split; [reflexivity|]. intros _. cbn [convert]. now rewrite Ec. }
    destruct e2 as [a n|a k p|a x|a op x|a op x y|a x f|a x i|a f args]; try discriminate; cbn [annot] in Ec.
    + destruct (IH _ _ _ Henv (B_refl x) Hnc H) as (x' & Hi & Hc). exists (EParen a x'). rewrite Hi. split; [reflexivity|].
      intros [Hcx _]. cbn [convert annot]. rewrite Ec. now apply Hc.
    + destruct (convertE fuel x) as [fx|] eqn:Ex; [|discriminate]. destruct (IH _ _ _ Henv (B_refl x) Hnc Ex) as (x' & Hi & Hc).
      exists (EUnary a op x'). rewrite Hi. split; [reflexivity|]. intros [Hcx _]. cbn [convert annot]. rewrite Ec, (Hc Hcx). assumption.
    + destruct (convertE fuel x) as [fx|] eqn:Ex; [|discriminate]. destruct (convertE fuel y) as [fy|] eqn:Ey; [|discriminate].
      destruct Hnc as [Hnx Hny].
      destruct (IH _ _ _ Henv (B_refl x) Hnx Ex) as (x' & Hix & Hcx). destruct (IH _ _ _ Henv (B_refl y) Hny Ey) as (y' & Hiy & Hcy).
      exists (EBinary a op x' y'). rewrite Hix, Hiy. split; [reflexivity|]. intros (Hx & Hy & _). cbn [convert annot]. now rewrite Ec, (Hcx Hx), (Hcy Hy).
    + exists (ESel a x f). split; [reflexivity|]. intros _. cbn [convert annot]. now rewrite Ec.
    + destruct Hnc as (Hfn & Hncf & Hncargs).
      destruct (path_ok (fst (sel_path (ECall a f args))) && path_early (fst (sel_path (ECall a f args)))) eqn:Eearly.
      { destruct (Hpath a f args a f args (B_refl f) ltac:(clear; induction args; constructor; [apply B_refl|assumption]) Ec Hncargs H) as (l & Hil & Hc).
        rewrite Hil. eexists. split; [reflexivity|]. exact Hc. }
      destruct (callee en f) as [m|] eqn:Ecal.
      * destruct (call_ok m args) eqn:Eok; [|discriminate].
        assert (Hm : In m en) by (destruct f; try discriminate; cbn in Ecal; now apply find_macro_in in Ecal).
        assert (Henv' := Henv). unfold env_ok in Henv'. rewrite Forall_forall in Henv'. destruct (Henv' m Hm) as (Hmb & _ & Hmp).
        assert (Hnc' : nc (subst (bind (m_params m) args) (m_body m))).
        { apply nc_subst; [now apply nc_bind| |assumption]. intros p Hp. apply Hmp. exact (bind_dom (m_params m) args p Hp). }
        assert (Hbl : below (subst (bind (m_params m) args) (strip (m_body m))) (subst (bind (m_params m) args) (m_body m))).
        { apply subst_strip_below. apply bind_below. clear. induction args; constructor; [apply B_refl|assumption]. }
        destruct (IH _ _ _ Henv Hbl Hnc' H) as (e' & Hi & Hc). exists e'. split; [assumption|].
        intros Hcons. apply convert_mono. now apply Hc.
      * destruct (Hpath a f args a f args (B_refl f) ltac:(clear; induction args; constructor; [apply B_refl|assumption]) Ec Hncargs H) as (l & Hil & Hc).
        rewrite Hil. eexists. split; [reflexivity|]. exact Hc.
  - discriminate.
  - (* a copied literal *)
    cbn [convertE annot] in H. cbn [inline annot].
    destruct (is_const a) as [c|] eqn:Ec.
    + exists (ELit a k p). split; [reflexivity|]. intros Hcons. cbn [consistent] in Hcons. cbn [convert annot]. rewrite Ec.
      destruct (is_const (patch k p)) as [c'|] eqn:Ep; [|discriminate]. inversion H; subst. destruct Hcons as [Hc|Hc]; congruence.
    + exists (ELit a k p). split; [reflexivity|]. intros Hcons. cbn [consistent] in Hcons.
      destruct (is_const (patch k p)) as [c'|] eqn:Ep; [|discriminate]. destruct Hcons as [Hc|Hc]; congruence.
  - (* parentheses *)
    cbn [convertE annot is_const] in H. cbn [inline annot]. cbn [nc] in Hnc.
    destruct (IH _ _ _ Henv Hx Hnc H) as (x2 & Hi & Hc).
    destruct (is_const a) as [c|] eqn:Ec.
    + exists (EParen a x). split; [reflexivity|]. intros [Hcx Ha]. specialize (Ha c Ec). cbn [convert annot]. rewrite Ec.
      (* the inner expression is that constant too, and inlining stops there *)
      destruct fuel as [|fuel']; [discriminate|]. cbn [inline] in Hi. rewrite Ha in Hi. inversion Hi; subst x2.
      specialize (Hc Hcx). cbn [convert] in Hc. rewrite Ha in Hc. assumption.
    + exists (EParen a x2). rewrite Hi. split; [reflexivity|]. intros [Hcx _]. cbn [convert annot]. rewrite Ec. now apply Hc.
  - (* unary *)
    cbn [convertE annot is_const] in H. cbn [inline annot]. cbn [nc] in Hnc.
    destruct (convertE fuel x') as [fx|] eqn:Ex; [|discriminate]. destruct (IH _ _ _ Henv Hx Hnc Ex) as (x2 & Hi & Hc).
    destruct (is_const a) as [c|] eqn:Ec.
    + exists (EUnary a op x). split; [reflexivity|]. intros [_ Ha]. exfalso.
      destruct (String.eqb op "!") eqn:Eop; [|discriminate]. apply String.eqb_eq in Eop. exact (Ha ltac:(first [discriminate | rewrite Ec; discriminate]) Eop).
    + exists (EUnary a op x2). rewrite Hi. split; [reflexivity|]. intros [Hcx _]. cbn [convert annot]. now rewrite Ec, (Hc Hcx).
  - (* binary *)
    cbn [convertE annot is_const] in H. cbn [inline annot]. cbn [nc] in Hnc. destruct Hnc as [Hnx Hny].
    destruct (convertE fuel x') as [fx|] eqn:Ex; [|discriminate]. destruct (convertE fuel y') as [fy|] eqn:Ey; [|discriminate].
    destruct (IH _ _ _ Henv Hx Hnx Ex) as (x2 & Hix & Hcx). destruct (IH _ _ _ Henv Hy Hny Ey) as (y2 & Hiy & Hcy).
    destruct (is_const a) as [c|] eqn:Ec.
    + exists (EBinary a op x y). split; [reflexivity|]. intros (_ & _ & Ha). exfalso.
      rewrite (Ha ltac:(first [discriminate | rewrite Ec; discriminate])) in H. discriminate.
    + exists (EBinary a op x2 y2). rewrite Hix, Hiy. split; [reflexivity|]. intros (Hx2 & Hy2 & _). cbn [convert annot]. now rewrite Ec, (Hcx Hx2), (Hcy Hy2).
  - (* selector *)
    destruct (sel_path_below _ _ Hb) as [Hp Hr]. cbn [convertE annot is_const] in H. cbn [inline annot].
    destruct (sel_path (ESel None x' f)) as [p1 r1] eqn:Esp. cbn [fst snd] in Hp, Hr.
    destruct (path_ok p1) eqn:Epo; [|discriminate]. inversion H; subst r. clear H.
    exists (ESel a x f). split; [destruct (is_const a); reflexivity|]. intros [Hl Ha]. unfold root_lit in Hl.
    rewrite convert_sel. destruct (is_const a) as [c|] eqn:Ec.
    + exfalso. rewrite <- Hp, Epo in Ha. specialize (Ha ltac:(first [discriminate | rewrite Ec; discriminate])). discriminate.
    + rewrite <- Hp, Epo. f_equal. f_equal. symmetry. now apply var_name_below.
  - discriminate.
  - (* call *)
    cbn [convertE annot is_const] in H. cbn [inline annot]. cbn [nc] in Hnc. destruct Hnc as (Hfn & Hncf & Hncargs).
    assert (Hbc : below (ECall None f' args') (ECall a f args)) by assumption.
    destruct (sel_path_below _ _ Hbc) as [Hp _]. rewrite Hp in H.
    destruct (path_ok (fst (sel_path (ECall a f args))) && path_early (fst (sel_path (ECall a f args)))) eqn:Eearly.
    { destruct (is_const a) as [c|] eqn:Ec.
      - exists (ECall a f args). split; [reflexivity|]. intros (_ & Ha & _). exfalso.
        apply andb_true_iff in Eearly. rewrite (Ha ltac:(first [discriminate | rewrite Ec; discriminate])) in Eearly. destruct Eearly; discriminate.
      - destruct (Hpath None f' args' a f args Hf Hargs Ec Hncargs H) as (l & Hil & Hc). rewrite Hil. eexists. split; [reflexivity|]. exact Hc. }
    assert (Ecal : callee en f' = callee en f).
    { inversion Hf; subst; reflexivity. }
    rewrite Ecal in H. destruct (callee en f) as [m|] eqn:Em.
    + destruct (call_ok m args') eqn:Eok; [|discriminate].
      assert (Eok2 : call_ok m args = true).
      { unfold call_ok in *. now rewrite <- (Forall2_length_eq _ _ _ Hargs), <- (forallb_safe_below _ _ Hargs). }
      assert (Hm : In m en /\ exists a0 n, f = EIdent a0 n /\ m_name m = n).
      { destruct f; try discriminate. cbn in Em. apply find_macro_in in Em. destruct Em. split; [assumption|]. eauto. }
      destruct Hm as (Hm & a0 & n & -> & Hmn).
      assert (Henv' := Henv). unfold env_ok in Henv'. rewrite Forall_forall in Henv'. destruct (Henv' m Hm) as (Hmb & Hmname & Hmpar).
      assert (Ec : is_const a = None).
      { destruct (is_const a) eqn:Ec; [|reflexivity]. exfalso. apply (Hfn ltac:(first [discriminate | rewrite Ec; discriminate])). now rewrite <- Hmn. }
      rewrite Ec, Eok2.
      assert (Hnc' : nc (subst (bind (m_params m) args) (m_body m))).
      { apply nc_subst; [now apply nc_bind| |assumption]. intros p0 Hp0. apply Hmpar. exact (bind_dom (m_params m) args p0 Hp0). }
      assert (Hbl : below (subst (bind (m_params m) args') (strip (m_body m))) (subst (bind (m_params m) args) (m_body m))).
      { apply subst_strip_below. now apply bind_below. }
      destruct (IH _ _ _ Henv Hbl Hnc' H) as (e' & Hi & Hc). exists e'. split; [assumption|].
      intros Hcons. apply convert_mono. now apply Hc.
    + destruct (is_const a) as [c|] eqn:Ec.
      * exists (ECall a f args). split; [reflexivity|]. intros (_ & Ha & _). exfalso.
        unfold conv_path in H. change (sel_path (ECall None f' args')) with (sel_path (ECall None f' args')) in H.
        destruct (sel_path (ECall None f' args')) as [p1 r1] eqn:Esp. cbn [fst] in Hp. subst p1.
        rewrite (Ha ltac:(first [discriminate | rewrite Ec; discriminate])) in H. discriminate.
      * destruct (Hpath None f' args' a f args Hf Hargs Ec Hncargs H) as (l & Hil & Hc). rewrite Hil. eexists. split; [reflexivity|]. exact Hc.
Qed.

(* C18 with helper scope: rejected, or exactly the conversion of the expression with all helper calls inlined by hand *)
Corollary convertE_rejected_or_inlined fuel e :
  env_ok -> nc e ->
  convertE fuel e = None \/
  exists e', inline fuel e = Some e' /\ (consistent path_ok e' -> convert path_ok str_args fuel e' = convertE fuel e).
Proof.
  intros Henv Hnc. destruct (convertE fuel e) as [r|] eqn:E; [right|now left].
  destruct (convertE_inlined fuel e e r Henv (B_refl e) Hnc E) as (e' & Hi & Hc). exists e'. split; assumption.
Qed.

End ConvertEnv.

(* without helpers the conversion is the plain one of Macro.v *)
Lemma convertE_nil path_ok str_args path_early mname fuel :
  forall e, convertE path_ok str_args path_early mname [] fuel e = convert path_ok str_args fuel e.
Proof.
  induction fuel as [|fuel IH]; intros e; [reflexivity|]. cbn [convertE convert].
  destruct (is_const (annot e)); [reflexivity|].
  destruct e as [a n|a k p|a x|a op x|a op x y|a x f|a x i|a f args]; try reflexivity.
  - apply IH.
  - now rewrite IH.
  - now rewrite !IH.
  - assert (Hcp : conv_path path_ok str_args (convertE path_ok str_args path_early mname [] fuel) (ECall a f args) args =
                  (let '(p, r) := sel_path (ECall a f args) in
                   if path_ok p then
                     match map_opt strval (firstn (str_args p) args), map_opt (convert path_ok str_args fuel) (skipn (str_args p) args) with
                     | Some ss, Some fs => Some (FOp p (var_name r) ss fs)
                     | _, _ => None
                     end
                   else None)).
    { unfold conv_path. destruct (sel_path (ECall a f args)) as [p r]. destruct (path_ok p); [|reflexivity].
      assert (E : map_opt (convertE path_ok str_args path_early mname [] fuel) (skipn (str_args p) args) =
                  map_opt (convert path_ok str_args fuel) (skipn (str_args p) args)).
      { induction (skipn (str_args p) args) as [|x l IHl]; [reflexivity|]. cbn. now rewrite IH, IHl. }
      now rewrite E. }
    assert (Hcal : callee [] f = None) by (destruct f; reflexivity). rewrite Hcal.
    destruct (path_ok (fst (sel_path (ECall a f args))) && path_early (fst (sel_path (ECall a f args)))); exact Hcp.
Qed.

(* ---------------------------------------------------------------- groups and files *)
(* the statements of a rule group the converter looks at: `name := func(params) bool { return body }` and rules with a filter *)
Inductive gstmt := GDef (m : macro) | GRule (w : dexpr).
Record group := mkGroup { g_matcher : string; g_stmts : list gstmt }.

Section Files.
Variable path_ok : string -> bool.
Variable str_args : string -> nat.
Variable path_early : string -> bool.
Variable fuel : nat.

(* convertRuleGroup's statement loop: localDefine appends to the table, a rule is converted with the table as it is *)
Fixpoint conv_stmts (mname : string) (st : env) (ss : list gstmt) : env * list (option fexpr) :=
  match ss with
  | [] => (st, [])
  | GDef m :: ss' => conv_stmts mname (st ++ [m])%list ss'
  | GRule w :: ss' =>
      let '(st', rs) := conv_stmts mname st ss' in (st', convertE path_ok str_args path_early mname st fuel w :: rs)
  end.

(* ConvertFile: [reset_per_group] says whether convertRuleGroup empties the table before its statement loop *)
Fixpoint conv_groups (reset_per_group : bool) (st : env) (gs : list group) : list (list (option fexpr)) :=
  match gs with
  | [] => []
  | g :: gs' =>
      let '(st', rs) := conv_stmts (g_matcher g) (if reset_per_group then [] else st) (g_stmts g) in
      rs :: conv_groups reset_per_group st' gs'
  end.

Definition conv_group_alone (g : group) : list (option fexpr) := snd (conv_stmts (g_matcher g) [] (g_stmts g)).

(* group_scope: with the reset in convertRuleGroup every group converts as if it were alone in the file, whatever table the
   converter starts with *)
Theorem group_scope st gs : conv_groups true st gs = map conv_group_alone gs.
Proof.
  revert st. induction gs as [|g gs IH]; intros st; cbn [conv_groups map]; [reflexivity|].
  unfold conv_group_alone at 1. destruct (conv_stmts (g_matcher g) [] (g_stmts g)) as [st' rs]. cbn [snd]. now rewrite IH.
Qed.

(* and so does any reordering-independent fact: a group's conversion does not depend on the groups before it *)
Corollary group_independent st gs1 gs2 g :
  nth_error (conv_groups true st (gs1 ++ g :: gs2)) (List.length gs1) = Some (conv_group_alone g).
Proof.
  rewrite group_scope, map_app. cbn [map]. rewrite nth_error_app2; rewrite map_length; [|lia]. now rewrite Nat.sub_diag.
Qed.
End Files.

(* without the reset a later group can silently get an earlier group's helper: the two are really different *)
Example leak_without_reset :
  let mx := EIndex None (EIdent None "m") (ELit (Some (CStr "x")) LString (Some (CStr "x"))) in
  let f1 := mkMacro "f" ["v"] (ESel None (EIdent None "v") "Pure") in
  let f2 := mkMacro "f" ["v"] (ESel None (EIdent None "v") "Const") in
  let call := ECall None (EIdent None "f") [mx] in
  let gs := [mkGroup "m" [GDef f1; GRule call]; mkGroup "m" [GDef f2; GRule call]] in
  let ok := fun p => orb (String.eqb p "Pure") (String.eqb p "Const") in
  conv_groups ok (fun _ => 0) (fun _ => false) 8 true [] gs = [[Some (FOp "Pure" "x" [] [])]; [Some (FOp "Const" "x" [] [])]] /\
  conv_groups ok (fun _ => 0) (fun _ => false) 8 false [] gs = [[Some (FOp "Pure" "x" [] [])]; [Some (FOp "Pure" "x" [] [])]].
Proof. vm_compute. split; reflexivity. Qed.

(* ---------------------------------------------------------------- the hypotheses, decidably *)
(* [consistent], [nc] and [env_ok] are statements about what go/types records; the correspondence run evaluates them on the
   annotations go/types really produced for every generated file (boolean versions, proved sound). *)
Lemma const_eqb_eq a b c c' : is_const a = Some c -> is_const b = Some c' -> fexpr_eqb c c' = true -> c = c'.
Proof.
  destruct a as [[s|z|]|], b as [[s'|z'|]|]; cbn; intros H1 H2; inversion H1; inversion H2; subst; cbn; intros E.
  - apply String.eqb_eq in E. now subst.
  - discriminate.
  - discriminate.
  - apply Z.eqb_eq in E. now subst.
Qed.

Definition const_leb (a b : option cval) : bool :=     (* is_const a = None, or both are the same constant *)
  match is_const a with
  | None => true
  | Some c => match is_const b with Some c' => fexpr_eqb c c' | None => false end
  end.

Lemma const_leb_spec a b : const_leb a b = true -> is_const a = None \/ is_const a = is_const b.
Proof.
  unfold const_leb. destruct (is_const a) as [c|] eqn:Ea; [|now left]. destruct (is_const b) as [c'|] eqn:Eb; [|discriminate].
  intros E. right. f_equal. exact (const_eqb_eq a b c c' Ea Eb E).
Qed.

Definition is_noneb {A} (o : option A) : bool := match o with None => true | Some _ => false end.

Section Decide.
Variable path_ok : string -> bool.

Definition root_litb (e : dexpr) : bool :=
  match snd (sel_path e) with
  | Some (ELit _ LString (Some (CStr _))) => true
  | Some _ => false
  | None => true
  end.

Fixpoint consistentb (e : dexpr) : bool :=
  match e with
  | EIdent _ _ => true
  | ELit a k p => const_leb (patch k p) a
  | EParen a x => consistentb x && const_leb a (annot x)
  | EUnary a op x => consistentb x && (is_noneb (is_const a) || negb (String.eqb op "!"))
  | EBinary a op x y => consistentb x && consistentb y && (is_noneb (is_const a) || negb (convertible_binop op))
  | ESel a x f => root_litb e && (is_noneb (is_const a) || negb (path_ok (fst (sel_path e))))
  | EIndex _ _ _ => true
  | ECall a f args => root_litb e && (is_noneb (is_const a) || negb (path_ok (fst (sel_path e)))) && forallb consistentb args
  end.

Lemma root_litb_spec e : root_litb e = true -> root_lit e.
Proof.
  unfold root_litb, root_lit. destruct (snd (sel_path e)) as [i|]; [|trivial].
  destruct i as [| a k p | | | | | |]; try discriminate. destruct k; try discriminate. destruct p as [[s|z|]|]; try discriminate. trivial.
Qed.

Lemma noneb_or_spec {A} (o : option A) (b : bool) : is_noneb o || b = true -> o <> None -> b = true.
Proof. destruct o; cbn; [trivial|]. intros _ H. now contradiction H. Qed.

Theorem consistentb_sound e : consistentb e = true -> consistent path_ok e.
Proof.
  induction e as [a n|a k p|a x IHx|a op x IHx|a op x y IHx IHy|a x f IHx|a x i IHx IHi|a f args IHf IHargs] using dexpr_ind';
    cbn [consistentb consistent]; intros H.
  - exact I.
  - now apply const_leb_spec.
  - apply andb_true_iff in H. destruct H as [H1 H2]. split; [now apply IHx|]. intros c Hc.
    destruct (const_leb_spec _ _ H2) as [E|E]; congruence.
  - apply andb_true_iff in H. destruct H as [H1 H2]. split; [now apply IHx|]. intros Hc.
    pose proof (noneb_or_spec _ _ H2 Hc) as E. apply negb_true_iff in E. now apply String.eqb_neq.
  - apply andb_true_iff in H. destruct H as [H12 H3]. apply andb_true_iff in H12. destruct H12 as [H1 H2].
    split; [now apply IHx|]. split; [now apply IHy|]. intros Hc. pose proof (noneb_or_spec _ _ H3 Hc) as E. now apply negb_true_iff in E.
  - apply andb_true_iff in H. destruct H as [H1 H2]. split; [now apply root_litb_spec|]. intros Hc.
    pose proof (noneb_or_spec _ _ H2 Hc) as E. now apply negb_true_iff in E.
  - exact I.
  - apply andb_true_iff in H. destruct H as [H12 H3]. apply andb_true_iff in H12. destruct H12 as [H1 H2].
    split; [now apply root_litb_spec|]. split.
    + intros Hc. pose proof (noneb_or_spec _ _ H2 Hc) as E. now apply negb_true_iff in E.
    + apply allP_Forall. rewrite Forall_forall in *. rewrite forallb_forall in H3. intros x Hx. apply (IHargs x Hx). now apply H3.
Qed.

(* [nc] and [env_ok] *)
Variable names : list string.

Fixpoint ncb (e : dexpr) : bool :=
  match e with
  | EIdent _ _ | ELit _ _ _ => true
  | EParen _ x | EUnary _ _ x | ESel _ x _ => ncb x
  | EBinary _ _ x y | EIndex _ x y => ncb x && ncb y
  | ECall a f args =>
      match f with EIdent _ n => is_noneb (is_const a) || negb (existsb (String.eqb n) names) | _ => true end && ncb f && forallb ncb args
  end.

Theorem ncb_sound e : ncb e = true -> nc names e.
Proof.
  induction e as [a n|a k p|a x IHx|a op x IHx|a op x y IHx IHy|a x f IHx|a x i IHx IHi|a f args IHf IHargs] using dexpr_ind';
    cbn [ncb nc]; intros H; auto.
  - apply andb_true_iff in H. destruct H. split; auto.
  - apply andb_true_iff in H. destruct H. split; auto.
  - apply andb_true_iff in H. destruct H as [H12 H3]. apply andb_true_iff in H12. destruct H12 as [H1 H2]. split; [|split].
    + destruct f as [a0 n| | | | | | |]; try exact I. intros Hc Hin. pose proof (noneb_or_spec _ _ H1 Hc) as E.
      apply negb_true_iff in E. assert (existsb (String.eqb n) names = true); [|congruence].
      apply existsb_exists. exists n. split; [assumption|apply String.eqb_refl].
    + now apply IHf.
    + apply allP_Forall. rewrite Forall_forall in *. rewrite forallb_forall in H3. intros x Hx. apply (IHargs x Hx). now apply H3.
Qed.

Definition env_okb (en : env) : bool :=
  forallb (fun m => ncb (m_body m) && existsb (String.eqb (m_name m)) names &&
                    forallb (fun p => existsb (String.eqb p) names) (m_params m)) en.

Lemma existsb_In n l : existsb (String.eqb n) l = true -> In n l.
Proof. intros H. apply existsb_exists in H. destruct H as (x & Hx & E). apply String.eqb_eq in E. now subst. Qed.

Theorem env_okb_sound en : env_okb en = true -> env_ok en names.
Proof.
  unfold env_okb, env_ok. rewrite forallb_forall, Forall_forall. intros H m Hm. specialize (H m Hm).
  apply andb_true_iff in H. destruct H as [H12 H3]. apply andb_true_iff in H12. destruct H12 as [H1 H2].
  split; [now apply ncb_sound|]. split; [now apply existsb_In|].
  intros p Hp. rewrite forallb_forall in H3. apply existsb_In. now apply H3.
Qed.
End Decide.

(* ---------------------------------------------------------------- parameters are bound by position *)
Lemma lookup_app_skip l r p : (forall q w, In (q, w) l -> q <> p) -> lookup_arg (l ++ r) p = lookup_arg r p.
Proof.
  induction l as [|[q w] l IH]; intros H; [reflexivity|]. cbn [app lookup_arg].
  destruct (String.eqb q p) eqn:E.
  - apply String.eqb_eq in E. exfalso. apply (H q w); [now left|assumption].
  - apply IH. intros q' w' Hin. apply (H q' w'). now right.
Qed.

Lemma lookup_rev_last l1 p v l2 : (forall q w, In (q, w) l2 -> q <> p) -> lookup_arg (rev (l1 ++ (p, v) :: l2)) p = Some v.
Proof.
  intros H. rewrite rev_app_distr. cbn [rev]. rewrite <- app_assoc. rewrite lookup_app_skip.
  - cbn [app lookup_arg]. now rewrite String.eqb_refl.
  - intros q w Hin. apply in_rev in Hin. now apply (H q w).
Qed.

Lemma combine_split {A B} : forall i (ps : list A) (xs : list B) p a,
  nth_error ps i = Some p -> nth_error xs i = Some a ->
  combine ps xs = (combine (firstn i ps) (firstn i xs) ++ (p, a) :: combine (skipn (S i) ps) (skipn (S i) xs))%list.
Proof.
  induction i as [|i IH]; intros [|q ps] [|x xs] p a Hp Ha; try discriminate.
  - cbn in Hp, Ha. inversion Hp; inversion Ha; subst. reflexivity.
  - cbn in Hp, Ha. cbn [firstn combine app]. f_equal. now apply IH.
Qed.

Lemma nth_error_skipn' {A} : forall n (l : list A) k, nth_error (skipn n l) k = nth_error l (n + k).
Proof. induction n as [|n IH]; intros [|x l] k; cbn; try reflexivity; [now destruct k|apply IH]. Qed.

(* Every parameter is replaced by the argument written at ITS OWN position of the call: the i-th parameter (blank ones count)
   gets the i-th argument (without its parentheses), unless a later parameter has the same name (Go forbids that for names
   other than _).  In particular a named parameter behind a blank one is not bound to the blank one's argument. *)
Theorem bind_positional params args i p a :
  nth_error params i = Some p -> nth_error args i = Some a ->
  (forall j q, i < j -> nth_error params j = Some q -> q <> p) ->
  lookup_arg (bind params args) p = Some (unparen a).
Proof.
  intros Hp Ha Hlater. unfold bind.
  assert (Ha' : nth_error (map unparen args) i = Some (unparen a)) by (rewrite nth_error_map, Ha; reflexivity).
  rewrite (combine_split i params (map unparen args) p (unparen a) Hp Ha').
  apply lookup_rev_last. intros q w Hin. apply in_combine_l in Hin. apply In_nth_error in Hin. destruct Hin as [k Hk].
  rewrite nth_error_skipn' in Hk. apply (Hlater (S i + k)); [lia|assumption].
Qed.

(* a parameter the call has no position for is not bound at all (expandMacro rejects such calls before it binds) *)
Theorem bind_dom_params params args p : lookup_arg (bind params args) p <> None -> In p params.
Proof.
  intros H. destruct (lookup_arg (bind params args) p) as [e|] eqn:E; [|contradiction]. clear H.
  assert (Hin : In p (map fst (bind params args))).
  { revert E. generalize (bind params args). induction l as [|[q w] l IH]; cbn; [discriminate|].
    destruct (String.eqb q p) eqn:Q; [apply String.eqb_eq in Q; now left|intros H; right; now apply IH]. }
  exact (bind_dom params args p Hin).
Qed.

Example ex_blank_then_named :
  let x := EIndex None (EIdent None "m") (ELit None LString (Some (CStr "x"))) in
  let y := EIndex None (EIdent None "m") (ELit None LString (Some (CStr "y"))) in
  subst (bind ["_"; "v"] [x; EParen None y]) (ESel None (EIdent None "v") "Pure") = ESel None y "Pure" /\
  subst (bind ["_"; "v"; "_"] [x; y; x]) (EIdent None "v") = y /\
  subst (bind ["v"; "_"; "_"] [y; x; x]) (EIdent None "v") = y.
Proof. vm_compute. repeat split; reflexivity. Qed.
