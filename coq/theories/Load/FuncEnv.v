(* C13 -- the engine-wide table of compiled custom functions (quasigo.Env: userFuncs + nameToFuncID).
   Function ids are never reused and compiled code refers to callees by id, so a compiled function's meaning is fixed when it
   is compiled: [sem] is the tree "own body + the meaning of every callee it was bound to".  The name table maps a name to the
   newest binding; ir_loader.go:compileFilterFuncs first unbinds the names the file declares (RemoveFunc), then compiles
   and binds the declarations in source order.                                                                              *)
From Coq Require Import List ZArith Lia Bool.
Import ListNotations.

Inductive sem := Sem (body : N) (callees : list sem).

Record fdecl := mkF { f_name : N; f_body : N; f_calls : list N }.

Definition fenv := list (N * sem).          (* newest binding first *)

Fixpoint lookup (env : fenv) (n : N) : option sem :=
  match env with
  | [] => None
  | (m, s) :: env' => if N.eqb m n then Some s else lookup env' n
  end.

Definition unbind (env : fenv) (ns : list N) : fenv :=
  filter (fun p => negb (existsb (N.eqb (fst p)) ns)) env.

Fixpoint lookups (env : fenv) (ns : list N) : option (list sem) :=
  match ns with
  | [] => Some []
  | n :: ns' => match lookup env n, lookups env ns' with
                | Some s, Some l => Some (s :: l)
                | _, _ => None
                end
  end.

(* quasigo.Compile of one declaration: a call to a name without a binding is a compile error (None) *)
Definition compile_decl (env : fenv) (d : fdecl) : option sem :=
  option_map (Sem (f_body d)) (lookups env (f_calls d)).

(* the compile loop: returns the table afterwards and, unless a declaration failed, this file's functions (newest first) *)
Fixpoint compile_decls (env : fenv) (ds : list fdecl) (acc : fenv) : fenv * option fenv :=
  match ds with
  | [] => (env, Some acc)
  | d :: ds' =>
      match compile_decl env d with
      | None => (env, None)
      | Some s => compile_decls ((f_name d, s) :: env) ds' ((f_name d, s) :: acc)
      end
  end.

(* hide = the RemoveFunc loop is present (false reproduces the tree before the fix) *)
Definition compile_file (hide : bool) (env : fenv) (ds : list fdecl) : fenv * option fenv :=
  compile_decls (if hide then unbind env (map f_name ds) else env) ds [].

(* what go/types guarantees for a rules file: every called function is declared in the same file *)
Definition closed (ds : list fdecl) : Prop := forall d c, In d ds -> In c (f_calls d) -> In c (map f_name ds).

Definition hidden (base : fenv) (ns : list N) : Prop := forall p, In p base -> ~ In (fst p) ns.

Lemma unbind_hidden env ns : hidden (unbind env ns) ns.
Proof.
  intros p Hp Hin. unfold unbind in Hp. apply filter_In in Hp. destruct Hp as [_ Hp].
  apply negb_true_iff in Hp. assert (existsb (N.eqb (fst p)) ns = true); [|congruence].
  apply existsb_exists. exists (fst p). split; [assumption|apply N.eqb_refl].
Qed.

Lemma lookup_app_hidden loc base ns n : hidden base ns -> In n ns -> lookup (loc ++ base) n = lookup loc n.
Proof.
  intros Hh Hn. induction loc as [|[m s] loc IH]; cbn.
  - induction base as [|[m s] base IHb]; cbn; [reflexivity|].
    destruct (N.eqb m n) eqn:E.
    + apply N.eqb_eq in E. subst. exfalso. apply (Hh (n, s)); [now left|assumption].
    + apply IHb. intros p Hp. apply Hh. now right.
  - destruct (N.eqb m n); [reflexivity|apply IH].
Qed.

Lemma lookups_app_hidden loc base ns cs : hidden base ns -> incl cs ns -> lookups (loc ++ base) cs = lookups loc cs.
Proof.
  intros Hh Hi. induction cs as [|c cs IH]; cbn; [reflexivity|].
  rewrite (lookup_app_hidden loc base ns c Hh) by (apply Hi; now left).
  rewrite IH; [reflexivity|]. intros x Hx. apply Hi. now right.
Qed.

Lemma compile_decls_local ns base : hidden base ns ->
  forall ds loc acc, (forall d, In d ds -> incl (f_calls d) ns) ->
  snd (compile_decls (loc ++ base) ds acc) = snd (compile_decls loc ds acc).
Proof.
  intros Hh. induction ds as [|d ds IH]; intros loc acc Hc; cbn; [reflexivity|].
  unfold compile_decl. rewrite (lookups_app_hidden loc base ns) by (try assumption; apply Hc; now left).
  destruct (lookups loc (f_calls d)) as [l|]; cbn; [|reflexivity].
  apply (IH ((f_name d, Sem (f_body d) l) :: loc)). intros d' Hd'. apply Hc. now right.
Qed.

(* C13 (function environment): whatever was loaded -- or failed to load -- before, a file's functions compile to exactly what
   they compile to in a fresh engine: the same error or the same meanings. *)
Theorem compile_env_irrelevant env ds :
  closed ds -> snd (compile_file true env ds) = snd (compile_file true [] ds).
Proof.
  intros Hc. unfold compile_file. cbn [unbind filter].
  change (unbind env (map f_name ds)) with ([] ++ unbind env (map f_name ds)).
  apply (compile_decls_local (map f_name ds)); [apply unbind_hidden|].
  intros d Hd c Hcall. exact (Hc d c Hd Hcall).
Qed.

(* the bindings a file's rules see (GetFunc after the compile loop) are the file's own *)
Lemma compile_decls_env env ds acc env' r :
  compile_decls env ds acc = (env', Some r) -> exists loc, r = loc ++ acc /\ env' = loc ++ env.
Proof.
  revert env acc. induction ds as [|d ds IH]; intros env acc H; cbn in H.
  - inversion H; subst. exists []. split; reflexivity.
  - destruct (compile_decl env d) as [s|]; [|discriminate].
    apply IH in H. destruct H as (loc & -> & ->). exists (loc ++ [(f_name d, s)]). rewrite <- !app_assoc. split; reflexivity.
Qed.

Theorem own_functions_visible hide env ds env' r n :
  compile_file hide env ds = (env', Some r) -> In n (map fst r) -> lookup env' n = lookup r n.
Proof.
  unfold compile_file. intros H Hn. apply compile_decls_env in H. destruct H as (loc & -> & ->).
  rewrite app_nil_r in *. revert Hn. generalize (if hide then unbind env (map f_name ds) else env) as base. intros base.
  induction loc as [|[m s] loc IH]; cbn; intros Hn; [contradiction|].
  destruct (N.eqb m n) eqn:E; [reflexivity|]. apply IH. destruct Hn as [Hn|Hn]; [|assumption].
  apply N.eqb_neq in E. contradiction.
Qed.

(* without the RemoveFunc loop the theorem is false: a call that precedes the declaration binds to another file's function *)
Local Open Scope N_scope.
Example compile_env_relevant_without_hide :
  let fileB := [mkF 1 20 [2]; mkF 2 21 []] in        (* fb calls helper; helper declared afterwards *)
  let envA := [(2, Sem 10 [])] in                     (* an earlier file's helper *)
  closed fileB /\
  snd (compile_file false [] fileB) = None /\
  snd (compile_file false envA fileB) = Some [(2, Sem 21 []); (1, Sem 20 [Sem 10 []])] /\
  snd (compile_file true envA fileB) = None.
Proof.
  cbv zeta. split; [|repeat split].
  intros d c [<-|[<-|[]]] Hc; cbn in *; intuition (subst; auto).
Qed.

Lemma compile_decls_names env ds acc env' r :
  compile_decls env ds acc = (env', Some r) -> map fst r = rev (map f_name ds) ++ map fst acc.
Proof.
  revert env acc. induction ds as [|d ds IH]; intros env acc H; cbn in H.
  - inversion H; subst. reflexivity.
  - destruct (compile_decl env d) as [s|]; [|discriminate]. apply IH in H. rewrite H. cbn. now rewrite <- app_assoc.
Qed.

Lemma compile_file_names hide env ds env' r :
  compile_file hide env ds = (env', Some r) -> map fst r = rev (map f_name ds).
Proof. unfold compile_file. intros H. apply compile_decls_names in H. now rewrite app_nil_r in H. Qed.
