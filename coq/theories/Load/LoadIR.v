(* C13 -- tiny statement languages into which go2coq translates, on every run, the bodies of
     engine.Load / engine.LoadFromIR (from the LoadFile call to the end), mergeRuleSets and appendScopedRuleSet,
   their interpreters over the model state of LoadModel, and the proofs that the canonical programs (the ones the current
   source translates to) compute load_step / merge / append_scoped.  coq/tmpl/C13/Inst_Load.v re-establishes on every run
   that the REGENERATED programs have these meanings.                                                                      *)
From Coq Require Import List ZArith Lia Bool.
From RG.Load Require Import LoadModel.
Import ListNotations.
Local Open Scope Z_scope.

(* ------------------------------------------------------------------ appendScopedRuleSet *)
Inductive sref := SDst | SSrc.
Inductive lexp :=
| LBucket (s : sref)        (* s.rulesByTag[tag] *)
| LRules                    (* the range value variable *)
| LComments (s : sref)      (* s.commentRules *)
| LClone (e : lexp).        (* cloneRuleSlice(e): same rules, fresh matcher state *)
Inductive bstmt :=
| BSetBucket (d : sref) (a b : lexp)     (* d.rulesByTag[tag] = append(a, b...) *)
| BAddCat (d : sref) (e : lexp).         (* d.categorizedNum += len(e) *)
Inductive astmt :=
| ARangeTags (over : sref) (body : list bstmt)   (* for tag, rules := range over.rulesByTag { body } *)
| ASetComments (d : sref) (a b : lexp).          (* d.commentRules = append(a, b...) *)
Record aprog := mkAProg { a_body : list astmt; a_ret : sref }.

(* ------------------------------------------------------------------ mergeRuleSets *)
Inductive mref := MOut | MX.
Inductive gstmt :=
| GIfDefinedReturnErr (m : mref)         (* if _, ok := m.groups[groupName]; ok { return nil, error } *)
| GPut (m : mref).                       (* m.groups[groupName] = group *)
Inductive mstmt :=
| MSetUniversal (a b : mref)             (* out.universal = appendScopedRuleSet(a.universal, b.universal) *)
| MRangeGroups (src : mref) (body : list gstmt).   (* for groupName, group := range src.groups { body } *)
Record mprog := mkMProg { m_init_empty : bool; m_body : list mstmt; m_ret_out : bool }.

(* ------------------------------------------------------------------ tail of Load / LoadFromIR *)
Inductive tvar := TVruleSet | TVrset | TVcombined.
Inductive tstmt :=
| TLoadFile                                  (* rset, err := l.LoadFile(filename, file) *)
| TReturnIfErr                               (* if err != nil { return err } *)
| TIfRuleSetNil (th el : list tstmt)         (* if e.ruleSet == nil { th } else { el } *)
| TAssignRuleSet (v : tvar)                  (* e.ruleSet = v *)
| TMerge (args : list tvar)                  (* combinedRuleSet, err := mergeRuleSets([]*goRuleSet{args}) *)
| TReturnNil.                                (* return nil *)

Section Interp.
Variable R : Type.
Variable G : Type.
Variable gname : G -> N.
Variable NB : nat.

Notation scoped := (scoped R).
Notation ruleset := (ruleset R G).

(* ---- appendScopedRuleSet: the range loop touches, in iteration [tag], only index [tag] of either array (the translator
   refuses any other index expression), so it is interpreted pointwise; the counter is summed over the array's indices. *)
Definition sget (d s : scoped) (r : sref) : scoped := match r with SDst => d | SSrc => s end.

Fixpoint leval (d s : scoped) (over : sref) (cur : list R) (t : N) (e : lexp) : list R :=
  match e with
  | LBucket SDst => cur                       (* the destination bucket as updated so far in this iteration *)
  | LBucket SSrc => by_tag R s t
  | LRules => by_tag R (sget d s over) t
  | LComments r => comments R (sget d s r)
  | LClone e' => leval d s over cur t e'
  end.

(* one iteration: (destination bucket, counter increment) *)
Fixpoint biter (d s : scoped) (over : sref) (t : N) (body : list bstmt) (cur : list R) (inc : Z) : option (list R * Z) :=
  match body with
  | [] => Some (cur, inc)
  | BSetBucket SDst a b :: body' => biter d s over t body' (leval d s over cur t a ++ leval d s over cur t b) inc
  | BAddCat SDst e :: body' => biter d s over t body' cur (inc + lenZ (leval d s over cur t e))
  | _ => None                                 (* writes into the source operand: not modelled *)
  end.

Definition bucket_after (d s : scoped) (over : sref) (body : list bstmt) (t : N) : list R :=
  match biter d s over t body (by_tag R d t) 0 with Some (l, _) => l | None => [] end.
Definition inc_after (d s : scoped) (over : sref) (body : list bstmt) (t : N) : Z :=
  match biter d s over t body (by_tag R d t) 0 with Some (_, z) => z | None => 0 end.
Definition body_ok (body : list bstmt) : bool :=
  forallb (fun b => match b with BSetBucket SDst _ _ | BAddCat SDst _ => true | _ => false end) body.

Fixpoint aexec (body : list astmt) (d s : scoped) : option scoped :=
  match body with
  | [] => Some d
  | ARangeTags over bb :: body' =>
      if body_ok bb then
        aexec body' (mkScoped R (cat_num R d + fold_right Z.add 0 (map (inc_after d s over bb) (tags NB)))
                                (bucket_after d s over bb) (comments R d)) s
      else None
  | ASetComments SDst a b :: body' =>
      aexec body' (mkScoped R (cat_num R d) (by_tag R d) (leval d s SSrc [] 0%N a ++ leval d s SSrc [] 0%N b)) s
  | ASetComments SSrc _ _ :: _ => None
  end.

Definition ainterp (p : aprog) (d s : scoped) : option scoped :=
  match a_ret p with SDst => aexec (a_body p) d s | SSrc => None end.

Definition canonical_append : aprog :=
  mkAProg [ARangeTags SSrc [BSetBucket SDst (LBucket SDst) (LClone LRules); BAddCat SDst LRules];
           ASetComments SDst (LComments SDst) (LComments SSrc)] SDst.

Theorem canonical_append_correct d s :
  exists r, ainterp canonical_append d s = Some r /\
    cat_num R r = cat_num R (append_scoped R NB d s) /\
    (forall t, by_tag R r t = by_tag R (append_scoped R NB d s) t) /\
    comments R r = comments R (append_scoped R NB d s).
Proof.
  eexists. split; [reflexivity|]. cbn. split; [|split; reflexivity].
  unfold total. reflexivity.
Qed.

(* ---- mergeRuleSets *)
Definition mget (out x : ruleset) (m : mref) : ruleset := match m with MOut => out | MX => x end.

(* the map write: insert, or overwrite an existing entry of that name *)
Fixpoint put_group (gs : list G) (g : G) : list G :=
  match gs with
  | [] => [g]
  | h :: gs' => if N.eqb (gname h) (gname g) then g :: gs' else h :: put_group gs' g
  end.

Fixpoint gbody (body : list gstmt) (out x : ruleset) (g : G) : option (option ruleset) :=   (* None = unmodelled; Some None = return error *)
  match body with
  | [] => Some (Some out)
  | GIfDefinedReturnErr m :: body' =>
      if has_name G gname (groups R G (mget out x m)) (gname g) then Some None else gbody body' out x g
  | GPut MOut :: body' => gbody body' (mkRS R G (universal R G out) (put_group (groups R G out) g)) x g
  | GPut MX :: _ => None
  end.

Fixpoint grange (body : list gstmt) (out x : ruleset) (gs : list G) : option (option ruleset) :=
  match gs with
  | [] => Some (Some out)
  | g :: gs' => match gbody body out x g with
                | Some (Some out') => grange body out' x gs'
                | r => r
                end
  end.

Fixpoint mbody (body : list mstmt) (out x : ruleset) : option (option ruleset) :=
  match body with
  | [] => Some (Some out)
  | MSetUniversal a b :: body' =>
      mbody body' (mkRS R G (append_scoped R NB (universal R G (mget out x a)) (universal R G (mget out x b))) (groups R G out)) x
  | MRangeGroups src gb :: body' =>
      match grange gb out x (groups R G (mget out x src)) with
      | Some (Some out') => mbody body' out' x
      | r => r
      end
  end.

Fixpoint mloop (body : list mstmt) (out : ruleset) (l : list ruleset) : option (option ruleset) :=
  match l with
  | [] => Some (Some out)
  | x :: l' => match mbody body out x with
               | Some (Some out') => mloop body out' l'
               | r => r
               end
  end.

Definition minterp (p : mprog) (l : list ruleset) : option (option ruleset) :=
  if m_init_empty p && m_ret_out p then mloop (m_body p) (empty_rs R G) l else None.

Definition canonical_merge : mprog :=
  mkMProg true [MSetUniversal MOut MX; MRangeGroups MX [GIfDefinedReturnErr MOut; GPut MOut]] true.

Lemma put_group_fresh gs g : has_name G gname gs (gname g) = false -> put_group gs g = gs ++ [g].
Proof.
  induction gs as [|h gs IH]; cbn; [reflexivity|]. intros H. apply orb_false_iff in H. destruct H as [H1 H2].
  rewrite H1. now rewrite IH.
Qed.

Lemma grange_canonical u x : forall gs og,
  grange [GIfDefinedReturnErr MOut; GPut MOut] (mkRS R G u og) x gs =
  Some (option_map (mkRS R G u) (add_groups G gname og gs)).
Proof.
  induction gs as [|g gs IH]; intros og; cbn [grange gbody mget groups universal add_groups]; [reflexivity|].
  destruct (has_name G gname og (gname g)) eqn:E; [reflexivity|]. rewrite put_group_fresh by assumption. apply IH.
Qed.

Theorem canonical_merge_correct l : minterp canonical_merge l = Some (merge R G gname NB l).
Proof.
  unfold minterp, merge. cbn [canonical_merge m_init_empty m_ret_out m_body andb].
  generalize (empty_rs R G) as out. induction l as [|x l IH]; intros out; cbn [mloop merge_from]; [reflexivity|].
  cbn [mbody mget]. destruct out as [u og]. cbn [universal groups]. rewrite grange_canonical.
  destruct (add_groups G gname og (groups R G x)) as [gs|]; cbn [option_map]; [apply IH|reflexivity].
Qed.

(* ---- tail of Load / LoadFromIR *)
Record tstate := mkTS { ts_ruleSet : eng R G; ts_file : file_result R G; ts_rset : option ruleset;
                        ts_combined : option ruleset; ts_err : bool }.
Inductive tres := TRunning (st : tstate) | TReturned (e : eng R G) (ok : bool) | TCrash.

Definition tvar_get (st : tstate) (v : tvar) : option ruleset :=
  match v with TVruleSet => ts_ruleSet st | TVrset => ts_rset st | TVcombined => ts_combined st end.

Fixpoint tvars_get (st : tstate) (vs : list tvar) : option (list ruleset) :=
  match vs with
  | [] => Some []
  | v :: vs' => match tvar_get st v, tvars_get st vs' with Some r, Some l => Some (r :: l) | _, _ => None end
  end.

Fixpoint tstep (s : tstmt) (st : tstate) : tres :=
  match s with
  | TLoadFile => match ts_file st with
                 | FErr _ _ => TRunning (mkTS (ts_ruleSet st) (ts_file st) None (ts_combined st) true)
                 | FOk _ _ rs => TRunning (mkTS (ts_ruleSet st) (ts_file st) (Some rs) (ts_combined st) false)
                 end
  | TReturnIfErr => if ts_err st then TReturned (ts_ruleSet st) false else TRunning st
  | TIfRuleSetNil th el =>
      (fix run (l : list tstmt) (st : tstate) : tres :=
         match l with
         | [] => TRunning st
         | x :: l' => match tstep x st with TRunning st' => run l' st' | r => r end
         end) (match ts_ruleSet st with None => th | Some _ => el end) st
  | TAssignRuleSet v => match tvar_get st v with
                        | Some rs => TRunning (mkTS (Some rs) (ts_file st) (ts_rset st) (ts_combined st) (ts_err st))
                        | None => TCrash        (* a nil rule set stored or dereferenced *)
                        end
  | TMerge args => match tvars_get st args with
                   | Some l => match merge R G gname NB l with
                               | Some m => TRunning (mkTS (ts_ruleSet st) (ts_file st) (ts_rset st) (Some m) false)
                               | None => TRunning (mkTS (ts_ruleSet st) (ts_file st) (ts_rset st) None true)
                               end
                   | None => TCrash
                   end
  | TReturnNil => TReturned (ts_ruleSet st) true
  end.

Fixpoint trun (l : list tstmt) (st : tstate) : tres :=
  match l with
  | [] => TCrash                              (* fell off the end of a function with a result *)
  | x :: l' => match tstep x st with TRunning st' => trun l' st' | r => r end
  end.

Definition tinterp (p : list tstmt) (e : eng R G) (fr : file_result R G) : tres := trun p (mkTS e fr None None false).

Definition canonical_tail : list tstmt :=
  [TLoadFile; TReturnIfErr;
   TIfRuleSetNil [TAssignRuleSet TVrset] [TMerge [TVruleSet; TVrset]; TReturnIfErr; TAssignRuleSet TVcombined];
   TReturnNil].

Theorem canonical_tail_correct e fr :
  tinterp canonical_tail e fr = TReturned (fst (load_step R G gname NB e fr)) (snd (load_step R G gname NB e fr)).
Proof.
  unfold tinterp, load_step. destruct fr as [|rs]; [reflexivity|]. destruct e as [cur|]; [|reflexivity].
  cbn -[merge]. destruct (merge R G gname NB [cur; rs]); reflexivity.
Qed.
End Interp.
